#!/bin/bash
# usage: try_seed.sh <worktree> <patch.diff> <check args...>   -- run a check against a scratch worktree with the patch applied
wt=$1; patch=$2; shift 2
git -C $wt checkout -q -- Fastor && git -C $wt apply $patch || exit 9
cd /verif && VERIF_REPO=$wt ./check "$@"; rc=$?
git -C $wt checkout -q -- Fastor
echo "check exit code: $rc"
