#!/bin/bash
# usage: confirm_seed.sh <worktree> <outdir-with patch.diff demo.cpp meta.json> <std> "<mflags>"
# confirms: demo passes on the clean tree, fails with the patch; pinned suite (47 stable tests) passes with the patch.
wt=$1; od=$2; std=${3:-c++14}; mf=$4
cd $wt || exit 9
git checkout -q -- Fastor
g++ -std=$std -O2 -I$wt $mf $od/demo.cpp -o /tmp/demo_clean_$$ 2> $od/confirm_build_clean.log && /tmp/demo_clean_$$ > $od/confirm_demo_clean.log 2>&1; rc_clean=$?
git apply $od/patch.diff || { echo "APPLY FAILED"; exit 8; }
g++ -std=$std -O2 -I$wt $mf $od/demo.cpp -o /tmp/demo_pat_$$ 2> $od/confirm_build_patched.log && /tmp/demo_pat_$$ > $od/confirm_demo_patched.log 2>&1; rc_pat=$?
[ -d _build ] || cmake -G Ninja -S . -B _build -DCMAKE_BUILD_TYPE=RelWithDebInfo -DCMAKE_CXX_FLAGS=-Wno-error > /dev/null 2>&1
nice cmake --build _build -j${JOBS:-4} > $od/confirm_suite_build.log 2>&1; rc_build=$?
ctest --test-dir _build -j${JOBS:-4} --timeout 900 > $od/confirm_suite.log 2>&1
failed=$(grep -A10 "The following tests FAILED" $od/confirm_suite.log | grep -E "^\s+[0-9]+ - " | awk '{print $3}' | sort | tr '\n' ' ')
git checkout -q -- Fastor
rm -f /tmp/demo_clean_$$ /tmp/demo_pat_$$
echo "demo_clean_rc=$rc_clean demo_patched_rc=$rc_pat suite_build_rc=$rc_build suite_failed=[$failed]" | tee $od/confirm_summary.txt
