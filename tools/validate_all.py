#!/usr/bin/env python3
"""validate MANIFEST.json and every evidence/*.json against the schemas in /root/.vp; run with python3-vt (jsonschema)."""
import json, sys, os, glob
import jsonschema
V = os.path.dirname(os.path.dirname(os.path.abspath(__file__)))
bad = 0
man = json.load(open(os.path.join(V, 'MANIFEST.json')))
try:
    jsonschema.validate(man, json.load(open('/root/.vp/MANIFEST.schema.json'))); print('MANIFEST ok')
except Exception as e:
    bad += 1; print('MANIFEST INVALID:', str(e)[:300])
sch = json.load(open('/root/.vp/EVIDENCE.schema.json'))
claimed = [p['id'] if isinstance(p, dict) else p for p in man.get('properties', man.get('claims', []))] if isinstance(man.get('properties', None), list) else list(man.get('properties', {}).keys())
for f in sorted(glob.glob(os.path.join(V, 'evidence', '*.json'))):
    ev = json.load(open(f))
    try:
        jsonschema.validate(ev, sch)
        c = ev['coverage']
        extra = ''
        if c.get('obligations') != c.get('discharged'): extra = '  !! discharged %s != obligations %s' % (c.get('discharged'), c.get('obligations'))
        if c.get('cases_undecided'): extra += '  undecided=%s' % c.get('cases_undecided')
        print(os.path.basename(f), 'ok', ev['tier'], 'cases=%s' % c.get('cases'), 'viol=%s' % ev.get('violations'), 'wall=%s' % ev.get('wall_s'), extra)
        if '!!' in extra: bad += 1
    except Exception as e:
        bad += 1; print(os.path.basename(f), 'INVALID:', str(e)[:300])
sys.exit(1 if bad else 0)
