#!/usr/bin/env python3
"""setup: nothing to build (Python + installed tools); check that the tools the pipeline needs are present."""
import shutil, sys
missing = [t for t in ('clang++-14', 'opt-14', 'goto-cc', 'goto-instrument', 'cbmc', 'g++') if not shutil.which(t)]
if missing:
    print('missing tools:', missing); sys.exit(1)
print('ok')
