#!/usr/bin/env python3
"""regenerate MANIFEST.json from the table below (run by hand after adding a check)."""
import json, os
HERE = os.path.dirname(os.path.abspath(__file__)); VERIF = os.path.dirname(HERE)
NOTE = ('trusted: clang++-14 front end + fixed IR pipeline, tools/ir2c.py (IR->C, must-fire), prelude headers, CBMC 6.11; GCC code generation and '
        'strict-aliasing UB not modelled; the set of instantiations (shapes, patterns, configurations) is enumerated, element values are universally quantified')
ENABLED = ['C01', 'C02', 'C03', 'C04', 'C05', 'C06', 'C07', 'C08', 'C09', 'C11', 'C13', 'C14', 'C15', 'C16', 'C17', 'C18', 'C19', 'C20']
DFCC = 'CBMC code contracts (goto-instrument --dfcc --enforce-contract) on clang-IR-extracted Fastor entry points'
CHECKS = {
 'C01': dict(text='For every enumerated (M,K,N), element type (int32, float, double), API form (matmul on maps / owning tensors, lazy %, matrix-vector, vector-matrix), ISA, standard and block-size macro: the contract "every result element equals sum_k A(i,k)*B(k,j), nothing else written, no access outside the operands" is enforced on the translated real code (goto-instrument --dfcc) and discharged by CBMC in ATOMS mode: the kernel provably evaluates the Einstein polynomial with each product exactly once; exact for integer-valued data. The floating-point rounding bound of the property is NOT machine-checked.',
             technique=DFCC + ', provenance-concrete (ATOMS) evaluation', ref='5 (C01), 4, 9'),
 'C02': dict(text='Generated expression trees (depth <= 2 quick / 3 thorough) over + - * / unary minus abs sqrt comparisons logic scalar operands and libm functions, five assignment forms, sizes 1..2V+1 for every vector width, owning tensors and maps: every element of the result equals the same scalar operations on the operand elements, bit for bit. float/double in UF mode (uninterpreted arithmetic: congruence), int32/int64 in SYM (real two\'s-complement; trees without data*data products) and ATOMS (pure element-wise products); division by a scalar accepts the documented reciprocal form. Tree sizes on the widest ISAs are budget-limited (stated in the module).',
             technique=DFCC + ', uninterpreted float arithmetic (UF) / symbolic integers / ATOMS', ref='5 (C02), 9'),
 'C03': dict(text='All ways of identifying indices between and within two index lists (ranks 1-3 quick, 1-4 thorough), extents from {1,2,3,V,V+1} distinct on free indices, einsum / contraction / explicit output order / inner / outer / single-tensor forms, int float double: result type (static_assert on the declared shape) and every element == the Einstein sum, ATOMS mode (exact polynomial identity; rounding bound not machine-checked), frame and memory safety.',
             technique=DFCC + ', provenance-concrete (ATOMS) evaluation', ref='5 (C03), 4, 9'),
 'C08': dict(text='One loop-free unit per (element type, SIMD ABI available under the ISA, operation): load/store/mask forms/broadcast/set/reverse/shift/cast (SYM, all lane values and all masks), integer + - neg abs min max compare logic horizontal sum/min/max (SYM), integer lane products and dot (ATOMS), float + - * / sqrt fmadd family (UF on pipeline P0: lane congruence, bit exact), float min/max/compare/horizontal min/max (SYM, NaN excluded by requires), float horizontal sum/dot (ATOMS: each lane exactly once), horizontal product() of vectors of up to 9 lanes (multilinear in the lanes: TAGS + BASIS pair, every lane exactly once in any association order). rcp/rsqrt error bounds, product() of 16-lane vectors, integer division and complex abs/arg/product/dot/minimum/maximum are not covered (complex + - * / rcp conj, masked store, sum(), real()/imag(), norm(), magnitude() are).',
             technique=DFCC + ' per SIMD operation; SYM / UF / ATOMS', ref='5 (C08), 9'),
 'C09': dict(text='Each statement is compiled twice in one entry -- with lazy operators (%, trans, inv, cof, adj, solve, det, trace, norm, nested) and with the eager functions and explicit temporaries -- from the same inputs; the two destinations must be equal bit for bit (UF: both run the same kernels, so congruence decides), for 16 kinds of surrounding arithmetic, five assignment operators, destination aliasing as an element-wise operand. Product chains A%B%C(%E) vs the mathematical product by TAGS+BASIS (proof for all values). D op= A%B through the GEMM path only on bounded integer data.',
             technique=DFCC + ', uninterpreted float arithmetic (UF); TAGS+BASIS for product chains', ref='5 (C09), 9'),
 'C17': dict(text='tmatmul for all nine tag pairs, operands zero outside the tagged triangle, shapes in [1..6]^3 (to 13 thorough) incl. trapezoidal, double float int, API forms and block-size macros: every element of the MxN result (structural zeros included) equals sum_k A(i,k)*B(k,j), ATOMS mode; frame and memory safety; masked variant under AVX2/AVX-512.',
             technique=DFCC + ', provenance-concrete (ATOMS) evaluation', ref='5 (C17), 4, 9'),
 'C18': dict(text='One tensor as in/out buffer; pairs of equal-extent ranges (shifted, reversed, interleaved, partial/perfect overlap) for rank 1-3, dynamic / compile-time / index-tensor / mask views, all operators (int: = += -= in SYM; float: all five in UF), the same view object used twice, coinciding source and destination without noalias(): A_after[dst_k] == old(A)[dst_k] op old(A)[src_k] and every other element unchanged, for all element values (and all index vectors / masks where symbolic).',
             technique=DFCC + ', symbolic data and symbolic index vectors', ref='5 (C18), 9'),
 'C19': dict(text='Index tensors as symbolic in-range buffers (duplicate-free by requires for writes), parents <= 16 elements, int/int64/size_t indices: reads return the indexed elements in index order (repeats allowed), per-axis and mixed forms; writes update exactly the indexed positions; boolean masks as symbolic buffers (all 2^n masks at once): exactly the true positions are updated with the element at the same position, all others unchanged.',
             technique=DFCC + ', symbolic data, symbolic gather/scatter addresses', ref='5 (C19), 9'),
 'C04': dict(text='Scalar indexing with symbolic indices over the whole admissible range incl. negative (count-from-the-end) values, ranks 1-5; slices from dynamic seq triples (every triple in three encodings for small extents, covering sets beyond), compile-time fseq/iseq, all/first/last/fix and mixtures, ranks 1-4, last-axis extents around every vector width, alone and inside expressions: result element (j0..jk) == A(first0+j0*step0, ...) and every result extent == ceil((last-first)/step), for all element values. Dynamic ranges are enumerated, element values universally quantified.',
             technique=DFCC + ', symbolic data and symbolic indices (SYM; UF for float expressions)', ref='5 (C04), 9'),
 'C05': dict(text='All destination range families of C04, operators = += -= (int: SYM) and all five (float: UF), right-hand sides scalar / tensor / slice of another tensor / expression / expression needing evaluation, with and without FASTOR_USE_VECTORISED_EXPR_ASSIGN, sequences of 2-3 writes, symbolic-index element assignment: every selected element == old op rhs, every unselected element of A bit-for-bit unchanged (neighbouring sub-ranges in one buffer act as guards), nothing outside A written (assigns clause / pointer checks).',
             technique=DFCC + ', symbolic data (SYM) / uninterpreted float arithmetic (UF); frame = assigns clause + unchanged-element clauses', ref='5 (C05), 9'),
 'C16': dict(text='sum / trace (ATOMS linear mode, all sizes 1..2V+3; int32 also with real adders), min / max (SYM over the full value domain: result is an element and bounds all elements; floats without NaN), all_of / any_of / none_of / isequal / issymmetric (SYM / UF), inner and norm (ATOMS; for norm the radicand is proved and sqrt is opaque), product (n <= 9) and closed-form determinant n = 2..4 by TAGS+BASIS (proof for all values), larger product / expression arguments as bounded B01 (counted separately). Rounding bounds, LU/QR-based determinants and isorthogonal are not decided.',
             technique=DFCC + '; SYM / UF / ATOMS / TAGS+BASIS per function', ref='5 (C16), 9'),
 'C20': dict(text='TensorMap over base+d (d = 0..3 elements) against an owning tensor under programs of 2-4 operations with frame clauses; alternating writes through a tensor and its reshape / flatten / squeeze / map views with visibility both ways; every same-size reshape target of rank <= 3; tocolumnmajor / torowmajor place element (i0..ik) at the column-major offset and compose to the identity (ranks 1-4); constructors from pointer, std::array, initializer lists in both layouts: all as element-wise contracts for all element values (SYM). std::vector constructor (allocates) excluded.',
             technique=DFCC + ', symbolic data (SYM)', ref='5 (C20), 9'),
 'C07': dict(text='Memory-safety, frame, alignment and no-allocation obligations (pointer/bounds checks on exact-extent objects, assigns clause, alignment assertion on every over-aligned vector access, operator-new stub) for operations through TensorMap over a misaligned buffer flush against the end of its object, for runtime-checked indexing with symbolic out-of-range indices (normal exit implies index in range), and safety-only contracts for inverse/det/lu/qr/solve; for all element and index values. The same obligations are part of every unit of every other property.',
             technique=DFCC + '; pointer/assigns/alignment obligations, symbolic indices', ref='5 (C07), 9'),
 'C11': dict(text='Exact clauses only: L unit lower triangular (zeros above the diagonal, ones on it, bit-exact), U upper triangular, returned permutation (vector and matrix form) is a bijection, frame; for all inputs, per (size, strategy, type, ISA), float arithmetic uninterpreted. The backward-error bound ||LU-PA|| and reconstruct() are NOT decided.',
             technique=DFCC + ', uninterpreted float arithmetic (UF)', ref='5 (C11), 9'),
 'C13': dict(text='Exact clauses only: R upper triangular with exact zeros below the diagonal (MGS with/without pivoting), determinant<QR>(A) == product(diag(R)) bit for bit (2x2), pivot vector is a bijection, frame; for all inputs. Orthonormality of Q and ||QR-A|| are NOT decided.',
             technique=DFCC + ', uninterpreted float arithmetic (UF)', ref='5 (C13), 9'),
 'C14': dict(text='For every enumerated instantiation (shape, axis permutation, element type incl. complex, ISA, C++ standard) the contract "out(i[p[0]],..,i[p[k]]) == A(i[0],..,i[k]) for every multi-index (conjugated for ctrans), permutation<> consistent between extents and elements, round trip is the identity, nothing else written, no access outside the operands" is enforced on the translated real code by goto-instrument --dfcc and discharged by CBMC for all element values.',
             technique=DFCC + ', symbolic data (SYM) / uninterpreted float arithmetic for ctrans in sums', ref='5 (C14), 2, 3, 9'),
 'C15': dict(text='For 3-, 4- and 5-operand einsum networks (chain, star, cycle, free index on an inner operand, operand sharing nothing; extents chosen so that different plans of the cost model are cheapest; int, float, double; 3 ISAs): every result element equals the full Einstein sum in declared free-index order, for all element values. Decided per instance by two contract runs: TAGS (the code is multilinear in its operands and oblivious) and BASIS (agreement on all tuples of basis elements, symbolic one-hot positions); the step "a multilinear map is determined by its basis values" is a pen-and-paper lemma. Floats: polynomial identity (exact for integer-valued data).',
             technique=DFCC + ', degree typing (TAGS) + symbolic basis evaluation (BASIS) for multilinear code', ref='5 (C15), 9.4'),
 'C06': dict(text='Lemma over the contracts of the other properties: the same functional contract is enforced on the code compiled under every configuration of a grid (6 ISAs x C++14/17 x IR pipelines -O0/-O1/-O2 x runtime checks x one tuning macro at a time) for a seeded sample of their cases, hence results agree across the grid (bit-identical for integer/boolean and SYM/UF float clauses). Acceptance (accepted in one configuration => accepted in all) is checked with clang++/g++ -fsyntax-only: a supporting static fact.',
             technique=DFCC + ' re-enforced per build configuration; compiler acceptance matrix', ref='5 (C06), 9'),
}
NA = {
 'C10': 'the claim is a residual bound ||AX-I|| <= c n eps cond(A): needs real division and norm inequalities over IEEE arithmetic; a single duplicated 32-bit multiplier already defeats every installed back end, the ring abstraction has no division, uninterpreted functions have no field axioms. Memory safety/frame of every inversion strategy is checked under C07, lazy inv == eager inverse under C09.',
 'C12': 'residual bound ||Ax-b|| <= c n eps cond(A) ||b||: same reason as C10; safety of solve is under C07, lazy/eager wiring under C09.',
}
APPEND = {
 'C06': ' Tuning macros are targeted at the kernels they configure: matmul/tmatmul and transpose block sizes on shapes with a full block of the configured size plus remainders, kernels with a separate FMA branch under the FMA and non-FMA flag sets.',
 'C07': ' Offsets include one that is 16-byte but not 32/64-byte aligned under the AVX flag sets.',
 'C08': ' Complex vectors (split real/imaginary registers): + - conj on every lane, multiply / divide / rcp on the first and last lane as alternative groups over the admissible FMA contractions (UF). Supporting static fact on every unfiltered run: no integer lane access through incompatible pointer casts in the integer SIMD headers (regex scan; a hit is reported as a violation with no failing input).',
 'C09': ' Lazy ctrans in = += -= and in X +- ctrans(A) on complex tensors; norm() of an unevaluated expression through every unroll stage of the fused kernel.',
 'C13': ' Also: qr with the input tensor passed as R or as Q output equals the call with separate outputs bit for bit (n = 2, float n = 3); a pivot argument with the default computation type gives the pivoted factorisation.',
 'C14': ' Transpose under FASTOR_TRANS_{OUTER,INNER}_BLOCK_SIZE = 1..4 on shapes with full blocks of the configured size (AVX flag sets); ctrans in subtraction forms.',
 'C16': ' norm() of an unevaluated element-wise expression at sizes entering every unroll stage (8V, 4V, 2V, V, scalar tail).',
 'C17': ' Multi-block shapes (13x13x9, 13x6x7, 9x9x10, ... per ISA/type) reach the second and later kernel blocks and the masked remainder; the four (Tensor|expression) overloads at 6x6x6 / 5x7x4 for every tag pair.',
 'C20': ' Every assignment operator through a map with another map, the map itself, a second map over the same storage and an expression reading the destination on the right (int: = += -=; float: all five, UF).',
}
THOROUGH = ' Thorough tier: every quick-tier case plus a seeded family-stratified sample of the larger thorough box, capped at VERIF_THOROUGH_CAP (default 1500) cases.'
def main():
    for k, v in APPEND.items(): CHECKS[k]['text'] += v
    for k in CHECKS: CHECKS[k]['text'] += THOROUGH
    props = [json.loads(l)['id'] for l in open(os.path.join(VERIF, 'properties.jsonl'))]
    try:
        from mkmanifest_na import NA as NA2
    except Exception:
        NA2 = {}
    checks = []
    for p in props:
        if p in CHECKS and p in ENABLED:
            c = CHECKS[p]
            checks.append({
                'property_id': p, 'quick_cmd': './check %s --tier quick' % p, 'thorough_cmd': './check %s --tier thorough' % p,
                'evidence_file': 'evidence/%s.json' % p, 'replay_cmd_template': './check %s --replay {path}' % p, 'engine': 'vf',
                'level_claimed': {'category': c.get('category', 'proof'), 'text': c['text'], 'design_ref': 'DESIGN.md section ' + c['ref']},
                'level_note': c.get('note', NOTE), 'technique': c['technique']})
    na = [{'property_id': p, 'reason': NA.get(p, 'check not built yet in this round (see DESIGN.md section 5 for the plan)')} for p in props if not (p in CHECKS and p in ENABLED)]
    m = {'version': 1,
         'setup_cmd': 'python3 tools/selftest.py',
         'hooks': {'guard': 'FASTOR_VERIF', 'enable': '-DFASTOR_VERIF=1 is passed on every unit compile; no source hook exists in /repo (nothing is guarded by it)',
                   'baseline_off_cmd': 'cmake --build /repo/_build -j16 && ctest --test-dir /repo/_build -j8 --timeout 900', 'source_commits': [], 'add_only': True},
         'engines': [{'name': 'vf', 'path': 'tools/vf.py', 'serves_properties': sorted(ENABLED), 'kind_free_text': 'clang++-14 -> LLVM IR -> tools/ir2c.py -> C with spliced contract -> goto-cc -> goto-instrument --dfcc --enforce-contract -> cbmc; native replay with g++/clang++ ASan'}],
         'checks': checks,
         'not_applicable': na,
         'notes': 'exit 0 = all obligations discharged (KNOWN-FINDING lines for listed findings); exit 1 = VIOLATION line(s); exit 2 = undecided (tool limit, never a violation). Known findings: known_findings.txt.'}
    NA.update(NA2)
    json.dump(m, open(os.path.join(VERIF, 'MANIFEST.json'), 'w'), indent=1)
main()
