#!/usr/bin/env python3
"""regenerate MANIFEST.json from the table below (run by hand after adding a check)."""
import json, os
HERE = os.path.dirname(os.path.abspath(__file__)); VERIF = os.path.dirname(HERE)
NOTE = ('trusted: clang++-14 front end + fixed IR pipeline, tools/ir2c.py (IR->C, must-fire), prelude headers, CBMC 6.11; GCC code generation and '
        'strict-aliasing UB not modelled; the set of instantiations (shapes, patterns, configurations) is enumerated, element values are universally quantified')
ENABLED = ['C01', 'C07', 'C11', 'C13', 'C14', 'C15']
DFCC = 'CBMC code contracts (goto-instrument --dfcc --enforce-contract) on clang-IR-extracted Fastor entry points'
CHECKS = {
 'C01': dict(text='For every enumerated (M,K,N), element type (int32, float, double), API form (matmul on maps / owning tensors, lazy %, matrix-vector, vector-matrix), ISA, standard and block-size macro: the contract "every result element equals sum_k A(i,k)*B(k,j), nothing else written, no access outside the operands" is enforced on the translated real code (goto-instrument --dfcc) and discharged by CBMC in ATOMS mode: the kernel provably evaluates the Einstein polynomial with each product exactly once; exact for integer-valued data. The floating-point rounding bound of the property is NOT machine-checked.',
             technique=DFCC + ', provenance-concrete (ATOMS) evaluation', ref='5 (C01), 4, 9'),
 'C07': dict(text='Memory-safety, frame, alignment and no-allocation obligations (pointer/bounds checks on exact-extent objects, assigns clause, alignment assertion on every over-aligned vector access, operator-new stub) for operations through TensorMap over a misaligned buffer flush against the end of its object, for runtime-checked indexing with symbolic out-of-range indices (normal exit implies index in range), and safety-only contracts for inverse/det/lu/qr/solve; for all element and index values. The same obligations are part of every unit of every other property.',
             technique=DFCC + '; pointer/assigns/alignment obligations, symbolic indices', ref='5 (C07), 9'),
 'C11': dict(text='Exact clauses only: L unit lower triangular (zeros above the diagonal, ones on it, bit-exact), U upper triangular, returned permutation (vector and matrix form) is a bijection, frame; for all inputs, per (size, strategy, type, ISA), float arithmetic uninterpreted. The backward-error bound ||LU-PA|| and reconstruct() are NOT decided.',
             technique=DFCC + ', uninterpreted float arithmetic (UF)', ref='5 (C11), 9'),
 'C13': dict(text='Exact clauses only: R upper triangular with exact zeros below the diagonal (MGS with/without pivoting), determinant<QR>(A) == product(diag(R)) bit for bit (2x2), pivot vector is a bijection, frame; for all inputs. Orthonormality of Q and ||QR-A|| are NOT decided.',
             technique=DFCC + ', uninterpreted float arithmetic (UF)', ref='5 (C13), 9'),
 'C14': dict(text='For every enumerated instantiation (shape, axis permutation, element type incl. complex, ISA, C++ standard) the contract "out(i[p[0]],..,i[p[k]]) == A(i[0],..,i[k]) for every multi-index (conjugated for ctrans), permutation<> consistent between extents and elements, round trip is the identity, nothing else written, no access outside the operands" is enforced on the translated real code by goto-instrument --dfcc and discharged by CBMC for all element values.',
             technique=DFCC + ', symbolic data (SYM) / uninterpreted float arithmetic for ctrans in sums', ref='5 (C14), 2, 3, 9'),
 'C15': dict(text='For 3-, 4- and 5-operand einsum networks (chain, star, cycle, free index on an inner operand, operand sharing nothing; extents chosen so that different plans of the cost model are cheapest; int, float, double; 3 ISAs): every result element equals the full Einstein sum in declared free-index order, for all element values. Decided per instance by two contract runs: TAGS (the code is multilinear in its operands and oblivious) and BASIS (agreement on all tuples of basis elements, symbolic one-hot positions); the step "a multilinear map is determined by its basis values" is a pen-and-paper lemma. Floats: polynomial identity (exact for integer-valued data).',
             technique=DFCC + ', degree typing (TAGS) + symbolic basis evaluation (BASIS) for multilinear code', ref='5 (C15), 9.4'),
 'C06': dict(text='Lemma over the contracts of the other properties: the same functional contract is enforced on the code compiled under every configuration of a grid (6 ISAs x C++14/17 x IR pipelines -O0/-O1/-O2 x runtime checks x one tuning macro at a time) for a seeded sample of their cases, hence results agree across the grid (bit-identical for integer/boolean and SYM/UF float clauses). Acceptance (accepted in one configuration => accepted in all) is checked with clang++/g++ -fsyntax-only: a supporting static fact.',
             technique=DFCC + ' re-enforced per build configuration; compiler acceptance matrix', ref='5 (C06), 9'),
}
NA = {
 'C10': 'the claim is a residual bound ||AX-I|| <= c n eps cond(A): needs real division and norm inequalities over IEEE arithmetic; a single duplicated 32-bit multiplier already defeats every installed back end, the ring abstraction has no division, uninterpreted functions have no field axioms. Memory safety/frame of every inversion strategy is checked under C07, lazy inv == eager inverse under C09.',
 'C12': 'residual bound ||Ax-b|| <= c n eps cond(A) ||b||: same reason as C10; safety of solve is under C07, lazy/eager wiring under C09.',
}
def main():
    props = [json.loads(l)['id'] for l in open(os.path.join(VERIF, 'properties.jsonl'))]
    try:
        from mkmanifest_na import NA as NA2
    except Exception:
        NA2 = {}
    checks = []
    for p in props:
        if p in CHECKS and p in ENABLED:
            c = CHECKS[p]
            checks.append({
                'property_id': p, 'quick_cmd': './check %s --tier quick' % p, 'thorough_cmd': './check %s --tier thorough' % p,
                'evidence_file': 'evidence/%s.json' % p, 'replay_cmd_template': './check %s --replay {path}' % p, 'engine': 'vf',
                'level_claimed': {'category': c.get('category', 'proof'), 'text': c['text'], 'design_ref': 'DESIGN.md section ' + c['ref']},
                'level_note': c.get('note', NOTE), 'technique': c['technique']})
    na = [{'property_id': p, 'reason': NA.get(p, 'check not built yet in this round (see DESIGN.md section 5 for the plan)')} for p in props if not (p in CHECKS and p in ENABLED)]
    m = {'version': 1,
         'setup_cmd': 'python3 tools/selftest.py',
         'hooks': {'guard': 'FASTOR_VERIF', 'enable': '-DFASTOR_VERIF=1 is passed on every unit compile; no source hook exists in /repo (nothing is guarded by it)',
                   'baseline_off_cmd': 'cmake --build /repo/_build -j16 && ctest --test-dir /repo/_build -j8 --timeout 900', 'source_commits': [], 'add_only': True},
         'engines': [{'name': 'vf', 'path': 'tools/vf.py', 'serves_properties': sorted(ENABLED), 'kind_free_text': 'clang++-14 -> LLVM IR -> tools/ir2c.py -> C with spliced contract -> goto-cc -> goto-instrument --dfcc --enforce-contract -> cbmc; native replay with g++/clang++ ASan'}],
         'checks': checks,
         'not_applicable': na,
         'notes': 'exit 0 = all obligations discharged (KNOWN-FINDING lines for listed findings); exit 1 = VIOLATION line(s); exit 2 = undecided (tool limit, never a violation). Known findings: known_findings.txt.'}
    NA.update(NA2)
    json.dump(m, open(os.path.join(VERIF, 'MANIFEST.json'), 'w'), indent=1)
main()
