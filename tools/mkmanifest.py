#!/usr/bin/env python3
"""regenerate MANIFEST.json from the table below (run by hand after adding a check)."""
import json, os
HERE = os.path.dirname(os.path.abspath(__file__)); VERIF = os.path.dirname(HERE)
NOTE = ('trusted: clang++-14 front end + fixed IR pipeline, tools/ir2c.py (IR->C, must-fire), prelude headers, CBMC 6.11; GCC code generation and '
        'strict-aliasing UB not modelled; the set of instantiations (shapes, patterns, configurations) is enumerated, element values are universally quantified')
CHECKS = {
 'C01': dict(text='For every enumerated (M,K,N), element type (int32, float, double), API form (matmul on maps / owning tensors, lazy %, matrix-vector, vector-matrix), ISA, standard and block-size macro: the contract "every result element equals sum_k A(i,k)*B(k,j), nothing else written, no access outside the operands" is enforced on the translated real code (goto-instrument --dfcc) and discharged by CBMC in ATOMS mode: the kernel provably evaluates the Einstein polynomial with each product exactly once; exact for integer-valued data. The floating-point rounding bound of the property is NOT machine-checked.',
             technique='CBMC code contracts (DFCC) on clang-IR-extracted Fastor entry points, provenance-concrete (ATOMS) evaluation', ref='5 (C01), 4'),
 'C14': dict(text='For every enumerated instantiation (shape, axis permutation, element type, ISA, C++ standard) the contract "out(i[p[0]],..,i[p[k]]) == A(i[0],..,i[k]) for every multi-index, nothing else written, no access outside the operands" is enforced on the translated real code by goto-instrument --dfcc and discharged by CBMC for all element values (mode SYM).',
             technique='CBMC code contracts (DFCC) on clang-IR-extracted Fastor entry points, symbolic data', ref='5 (C14), 2, 3'),
}
NA = {}
def main():
    props = [json.loads(l)['id'] for l in open(os.path.join(VERIF, 'properties.jsonl'))]
    try:
        from mkmanifest_na import NA as NA2
    except Exception:
        NA2 = {}
    checks = []
    for p in props:
        if p in CHECKS:
            c = CHECKS[p]
            checks.append({
                'property_id': p, 'quick_cmd': './check %s --tier quick' % p, 'thorough_cmd': './check %s --tier thorough' % p,
                'evidence_file': 'evidence/%s.json' % p, 'replay_cmd_template': './check %s --replay {path}' % p, 'engine': 'vf',
                'level_claimed': {'category': 'proof', 'text': c['text'], 'design_ref': 'DESIGN.md section ' + c['ref']},
                'level_note': c.get('note', NOTE), 'technique': c['technique']})
    na = [{'property_id': p, 'reason': NA.get(p, 'check not built yet in this round (see DESIGN.md section 5 for the plan)')} for p in props if p not in CHECKS]
    m = {'version': 1,
         'setup_cmd': 'python3 tools/selftest.py',
         'hooks': {'guard': 'FASTOR_VERIF', 'enable': '-DFASTOR_VERIF=1 is passed on every unit compile; no source hook exists in /repo (nothing is guarded by it)',
                   'baseline_off_cmd': 'cmake --build /repo/_build -j16 && ctest --test-dir /repo/_build -j8 --timeout 900', 'source_commits': [], 'add_only': True},
         'engines': [{'name': 'vf', 'path': 'tools/vf.py', 'serves_properties': sorted(CHECKS), 'kind_free_text': 'clang++-14 -> LLVM IR -> tools/ir2c.py -> C with spliced contract -> goto-cc -> goto-instrument --dfcc --enforce-contract -> cbmc; native replay with g++/clang++ ASan'}],
         'checks': checks,
         'not_applicable': na,
         'notes': 'exit 0 = all obligations discharged (KNOWN-FINDING lines for listed findings); exit 1 = VIOLATION line(s); exit 2 = undecided (tool limit, never a violation). Known findings: known_findings.txt.'}
    NA.update(NA2)
    json.dump(m, open(os.path.join(VERIF, 'MANIFEST.json'), 'w'), indent=1)
main()
