/* prelude/mode_sym.h -- SYM mode: float arithmetic has its real IEEE-754 meaning (CBMC float model, round-to-nearest). */

/* bit-level operations keep their real meaning in every mode */
#define FNEG_32(x) ((u32)((x) ^ 0x80000000u))
#define FNEG_64(x) ((u64)((x) ^ 0x8000000000000000ULL))
#define FABS_32(x) ((u32)((x) & 0x7fffffffu))
#define FABS_64(x) ((u64)((x) & 0x7fffffffffffffffULL))
#define FC_32(bits, ival, isint) ((u32)(bits))
#define FC_64(bits, ival, isint) ((u64)(bits))
static inline float VF_f32(u32 x) { union { u32 u; float f; } c; c.u = x; return c.f; }
static inline double VF_f64(u64 x) { union { u64 u; double f; } c; c.u = x; return c.f; }
static inline u32 VF_u32(float x) { union { u32 u; float f; } c; c.f = x; return c.u; }
static inline u64 VF_u64(double x) { union { u64 u; double f; } c; c.f = x; return c.u; }

static inline u8 FCMP_oeq_32(u32 x, u32 y) { float a = VF_f32(x), b = VF_f32(y); return (u8)(a == b); }
static inline u8 FCMP_ogt_32(u32 x, u32 y) { float a = VF_f32(x), b = VF_f32(y); return (u8)(a > b); }
static inline u8 FCMP_oge_32(u32 x, u32 y) { float a = VF_f32(x), b = VF_f32(y); return (u8)(a >= b); }
static inline u8 FCMP_olt_32(u32 x, u32 y) { float a = VF_f32(x), b = VF_f32(y); return (u8)(a < b); }
static inline u8 FCMP_ole_32(u32 x, u32 y) { float a = VF_f32(x), b = VF_f32(y); return (u8)(a <= b); }
static inline u8 FCMP_one_32(u32 x, u32 y) { float a = VF_f32(x), b = VF_f32(y); return (u8)(a < b || a > b); }
static inline u8 FCMP_une_32(u32 x, u32 y) { float a = VF_f32(x), b = VF_f32(y); return (u8)(a != b); }
static inline u8 FCMP_ueq_32(u32 x, u32 y) { float a = VF_f32(x), b = VF_f32(y); return (u8)(!(a < b || a > b)); }
static inline u8 FCMP_ugt_32(u32 x, u32 y) { float a = VF_f32(x), b = VF_f32(y); return (u8)(!(a <= b)); }
static inline u8 FCMP_uge_32(u32 x, u32 y) { float a = VF_f32(x), b = VF_f32(y); return (u8)(!(a < b)); }
static inline u8 FCMP_ult_32(u32 x, u32 y) { float a = VF_f32(x), b = VF_f32(y); return (u8)(!(a >= b)); }
static inline u8 FCMP_ule_32(u32 x, u32 y) { float a = VF_f32(x), b = VF_f32(y); return (u8)(!(a > b)); }
static inline u8 FCMP_ord_32(u32 x, u32 y) { float a = VF_f32(x), b = VF_f32(y); return (u8)(a == a && b == b); }
static inline u8 FCMP_uno_32(u32 x, u32 y) { float a = VF_f32(x), b = VF_f32(y); return (u8)(a != a || b != b); }
static inline u8 FCMP_oeq_64(u64 x, u64 y) { double a = VF_f64(x), b = VF_f64(y); return (u8)(a == b); }
static inline u8 FCMP_ogt_64(u64 x, u64 y) { double a = VF_f64(x), b = VF_f64(y); return (u8)(a > b); }
static inline u8 FCMP_oge_64(u64 x, u64 y) { double a = VF_f64(x), b = VF_f64(y); return (u8)(a >= b); }
static inline u8 FCMP_olt_64(u64 x, u64 y) { double a = VF_f64(x), b = VF_f64(y); return (u8)(a < b); }
static inline u8 FCMP_ole_64(u64 x, u64 y) { double a = VF_f64(x), b = VF_f64(y); return (u8)(a <= b); }
static inline u8 FCMP_one_64(u64 x, u64 y) { double a = VF_f64(x), b = VF_f64(y); return (u8)(a < b || a > b); }
static inline u8 FCMP_une_64(u64 x, u64 y) { double a = VF_f64(x), b = VF_f64(y); return (u8)(a != b); }
static inline u8 FCMP_ueq_64(u64 x, u64 y) { double a = VF_f64(x), b = VF_f64(y); return (u8)(!(a < b || a > b)); }
static inline u8 FCMP_ugt_64(u64 x, u64 y) { double a = VF_f64(x), b = VF_f64(y); return (u8)(!(a <= b)); }
static inline u8 FCMP_uge_64(u64 x, u64 y) { double a = VF_f64(x), b = VF_f64(y); return (u8)(!(a < b)); }
static inline u8 FCMP_ult_64(u64 x, u64 y) { double a = VF_f64(x), b = VF_f64(y); return (u8)(!(a >= b)); }
static inline u8 FCMP_ule_64(u64 x, u64 y) { double a = VF_f64(x), b = VF_f64(y); return (u8)(!(a > b)); }
static inline u8 FCMP_ord_64(u64 x, u64 y) { double a = VF_f64(x), b = VF_f64(y); return (u8)(a == a && b == b); }
static inline u8 FCMP_uno_64(u64 x, u64 y) { double a = VF_f64(x), b = VF_f64(y); return (u8)(a != a || b != b); }

static inline u32 FADD_32(u32 x, u32 y) { return VF_u32(VF_f32(x) + VF_f32(y)); }
static inline u32 FSUB_32(u32 x, u32 y) { return VF_u32(VF_f32(x) - VF_f32(y)); }
static inline u32 FMUL_32(u32 x, u32 y) { return VF_u32(VF_f32(x) * VF_f32(y)); }
static inline u32 FDIV_32(u32 x, u32 y) { return VF_u32(VF_f32(x) / VF_f32(y)); }
u32 __CPROVER_uninterpreted_fsqrt32(u32);
#define FSQRT_32(x) __CPROVER_uninterpreted_fsqrt32(x)   /* sqrt is opaque: only congruence is used */
u32 __CPROVER_uninterpreted_ffma32(u32, u32, u32);
#define FMA_32(x, y, z) __CPROVER_uninterpreted_ffma32(x, y, z)   /* fused multiply-add is opaque */
#define FMULADD_32(x, y, z) FADD_32(FMUL_32(x, y), z)
static inline u64 FADD_64(u64 x, u64 y) { return VF_u64(VF_f64(x) + VF_f64(y)); }
static inline u64 FSUB_64(u64 x, u64 y) { return VF_u64(VF_f64(x) - VF_f64(y)); }
static inline u64 FMUL_64(u64 x, u64 y) { return VF_u64(VF_f64(x) * VF_f64(y)); }
static inline u64 FDIV_64(u64 x, u64 y) { return VF_u64(VF_f64(x) / VF_f64(y)); }
u64 __CPROVER_uninterpreted_fsqrt64(u64);
#define FSQRT_64(x) __CPROVER_uninterpreted_fsqrt64(x)   /* sqrt is opaque: only congruence is used */
u64 __CPROVER_uninterpreted_ffma64(u64, u64, u64);
#define FMA_64(x, y, z) __CPROVER_uninterpreted_ffma64(x, y, z)   /* fused multiply-add is opaque */
#define FMULADD_64(x, y, z) FADD_64(FMUL_64(x, y), z)

#define CV_sitofp_32_32(x) VF_u32((float)(s32)(x))
#define CV_sitofp_64_32(x) VF_u32((float)(s64)(x))
#define CV_sitofp_32_64(x) VF_u64((double)(s32)(x))
#define CV_sitofp_64_64(x) VF_u64((double)(s64)(x))
#define CV_sitofp_8_32(x) VF_u32((float)(s8)(x))
#define CV_sitofp_8_64(x) VF_u64((double)(s8)(x))
#define CV_sitofp_16_32(x) VF_u32((float)(s16)(x))
#define CV_sitofp_16_64(x) VF_u64((double)(s16)(x))
#define CV_uitofp_32_32(x) VF_u32((float)(u32)(x))
#define CV_uitofp_64_32(x) VF_u32((float)(u64)(x))
#define CV_uitofp_32_64(x) VF_u64((double)(u32)(x))
#define CV_uitofp_64_64(x) VF_u64((double)(u64)(x))
#define CV_uitofp_8_32(x) VF_u32((float)(u8)(x))
#define CV_uitofp_8_64(x) VF_u64((double)(u8)(x))
#define CV_uitofp_16_32(x) VF_u32((float)(u16)(x))
#define CV_uitofp_16_64(x) VF_u64((double)(u16)(x))
#define CV_fptosi_32_32(x) ((s32)VF_f32(x))
#define CV_fptosi_32_64(x) ((s64)VF_f32(x))
#define CV_fptosi_64_32(x) ((s32)VF_f64(x))
#define CV_fptosi_64_64(x) ((s64)VF_f64(x))
#define CV_fptosi_32_8(x) ((s8)VF_f32(x))
#define CV_fptosi_64_8(x) ((s8)VF_f64(x))
#define CV_fptosi_32_16(x) ((s16)VF_f32(x))
#define CV_fptosi_64_16(x) ((s16)VF_f64(x))
#define CV_fptoui_32_32(x) ((u32)VF_f32(x))
#define CV_fptoui_32_64(x) ((u64)VF_f32(x))
#define CV_fptoui_64_32(x) ((u32)VF_f64(x))
#define CV_fptoui_64_64(x) ((u64)VF_f64(x))
#define CV_fptoui_32_8(x) ((u8)VF_f32(x))
#define CV_fptoui_64_8(x) ((u8)VF_f64(x))
#define CV_fptoui_32_16(x) ((u16)VF_f32(x))
#define CV_fptoui_64_16(x) ((u16)VF_f64(x))
#define CV_fpext_32_64(x) VF_u64((double)VF_f32(x))
#define CV_fptrunc_64_32(x) VF_u32((float)VF_f64(x))


/* libc integer abs (std::abs(int) at -O0 is a call): two's-complement, abs(INT_MIN) wraps to INT_MIN */
static inline u32 VERIF_abs_i32(u32 x) { return ((s32)x < 0) ? (u32)(0u - x) : x; }
static inline u64 VERIF_abs_i64(u64 x) { return ((s64)x < 0) ? (u64)(0ULL - x) : x; }
