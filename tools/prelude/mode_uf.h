/* prelude/mode_uf.h -- UF mode: fadd fsub fmul fdiv fma sqrt and the int<->float conversions are
   uninterpreted functions on bit patterns (CBMC adds the congruence axioms); fadd/fmul/fma are made commutative by
   ordering their (first two) operands by bit pattern and applying ONE uninterpreted function to (lo, hi) -- logically
   the same as `x<=y ? uf(x,y) : uf(y,x)` with half the applications (a quarter of the Ackermann pairs).
   Sign/abs/compare/blend keep their real bit-level meaning.  A postcondition that holds for every interpretation
   holds for IEEE-754 arithmetic in particular. */

/* bit-level operations keep their real meaning in every mode */
#define FNEG_32(x) ((u32)((x) ^ 0x80000000u))
#define FNEG_64(x) ((u64)((x) ^ 0x8000000000000000ULL))
#define FABS_32(x) ((u32)((x) & 0x7fffffffu))
#define FABS_64(x) ((u64)((x) & 0x7fffffffffffffffULL))
#define FC_32(bits, ival, isint) ((u32)(bits))
#define FC_64(bits, ival, isint) ((u64)(bits))
static inline float VF_f32(u32 x) { union { u32 u; float f; } c; c.u = x; return c.f; }
static inline double VF_f64(u64 x) { union { u64 u; double f; } c; c.u = x; return c.f; }
static inline u32 VF_u32(float x) { union { u32 u; float f; } c; c.f = x; return c.u; }
static inline u64 VF_u64(double x) { union { u64 u; double f; } c; c.f = x; return c.u; }

static inline u8 FCMP_oeq_32(u32 x, u32 y) { float a = VF_f32(x), b = VF_f32(y); return (u8)(a == b); }
static inline u8 FCMP_ogt_32(u32 x, u32 y) { float a = VF_f32(x), b = VF_f32(y); return (u8)(a > b); }
static inline u8 FCMP_oge_32(u32 x, u32 y) { float a = VF_f32(x), b = VF_f32(y); return (u8)(a >= b); }
static inline u8 FCMP_olt_32(u32 x, u32 y) { float a = VF_f32(x), b = VF_f32(y); return (u8)(a < b); }
static inline u8 FCMP_ole_32(u32 x, u32 y) { float a = VF_f32(x), b = VF_f32(y); return (u8)(a <= b); }
static inline u8 FCMP_one_32(u32 x, u32 y) { float a = VF_f32(x), b = VF_f32(y); return (u8)(a < b || a > b); }
static inline u8 FCMP_une_32(u32 x, u32 y) { float a = VF_f32(x), b = VF_f32(y); return (u8)(a != b); }
static inline u8 FCMP_ueq_32(u32 x, u32 y) { float a = VF_f32(x), b = VF_f32(y); return (u8)(!(a < b || a > b)); }
static inline u8 FCMP_ugt_32(u32 x, u32 y) { float a = VF_f32(x), b = VF_f32(y); return (u8)(!(a <= b)); }
static inline u8 FCMP_uge_32(u32 x, u32 y) { float a = VF_f32(x), b = VF_f32(y); return (u8)(!(a < b)); }
static inline u8 FCMP_ult_32(u32 x, u32 y) { float a = VF_f32(x), b = VF_f32(y); return (u8)(!(a >= b)); }
static inline u8 FCMP_ule_32(u32 x, u32 y) { float a = VF_f32(x), b = VF_f32(y); return (u8)(!(a > b)); }
static inline u8 FCMP_ord_32(u32 x, u32 y) { float a = VF_f32(x), b = VF_f32(y); return (u8)(a == a && b == b); }
static inline u8 FCMP_uno_32(u32 x, u32 y) { float a = VF_f32(x), b = VF_f32(y); return (u8)(a != a || b != b); }
static inline u8 FCMP_oeq_64(u64 x, u64 y) { double a = VF_f64(x), b = VF_f64(y); return (u8)(a == b); }
static inline u8 FCMP_ogt_64(u64 x, u64 y) { double a = VF_f64(x), b = VF_f64(y); return (u8)(a > b); }
static inline u8 FCMP_oge_64(u64 x, u64 y) { double a = VF_f64(x), b = VF_f64(y); return (u8)(a >= b); }
static inline u8 FCMP_olt_64(u64 x, u64 y) { double a = VF_f64(x), b = VF_f64(y); return (u8)(a < b); }
static inline u8 FCMP_ole_64(u64 x, u64 y) { double a = VF_f64(x), b = VF_f64(y); return (u8)(a <= b); }
static inline u8 FCMP_one_64(u64 x, u64 y) { double a = VF_f64(x), b = VF_f64(y); return (u8)(a < b || a > b); }
static inline u8 FCMP_une_64(u64 x, u64 y) { double a = VF_f64(x), b = VF_f64(y); return (u8)(a != b); }
static inline u8 FCMP_ueq_64(u64 x, u64 y) { double a = VF_f64(x), b = VF_f64(y); return (u8)(!(a < b || a > b)); }
static inline u8 FCMP_ugt_64(u64 x, u64 y) { double a = VF_f64(x), b = VF_f64(y); return (u8)(!(a <= b)); }
static inline u8 FCMP_uge_64(u64 x, u64 y) { double a = VF_f64(x), b = VF_f64(y); return (u8)(!(a < b)); }
static inline u8 FCMP_ult_64(u64 x, u64 y) { double a = VF_f64(x), b = VF_f64(y); return (u8)(!(a >= b)); }
static inline u8 FCMP_ule_64(u64 x, u64 y) { double a = VF_f64(x), b = VF_f64(y); return (u8)(!(a > b)); }
static inline u8 FCMP_ord_64(u64 x, u64 y) { double a = VF_f64(x), b = VF_f64(y); return (u8)(a == a && b == b); }
static inline u8 FCMP_uno_64(u64 x, u64 y) { double a = VF_f64(x), b = VF_f64(y); return (u8)(a != a || b != b); }

u32 __CPROVER_uninterpreted_fadd32(u32, u32);
u32 __CPROVER_uninterpreted_fsub32(u32, u32);
u32 __CPROVER_uninterpreted_fmul32(u32, u32);
u32 __CPROVER_uninterpreted_fdiv32(u32, u32);
u32 __CPROVER_uninterpreted_fsqrt32(u32);
u32 __CPROVER_uninterpreted_ffma32(u32, u32, u32);
static inline u32 FADD_32(u32 x, u32 y) { u32 lo = x <= y ? x : y, hi = x <= y ? y : x; return __CPROVER_uninterpreted_fadd32(lo, hi); }
static inline u32 FMUL_32(u32 x, u32 y) { u32 lo = x <= y ? x : y, hi = x <= y ? y : x; return __CPROVER_uninterpreted_fmul32(lo, hi); }
#define FSUB_32(x, y) __CPROVER_uninterpreted_fsub32(x, y)
#define FDIV_32(x, y) __CPROVER_uninterpreted_fdiv32(x, y)
#define FSQRT_32(x) __CPROVER_uninterpreted_fsqrt32(x)
static inline u32 FMA_32(u32 x, u32 y, u32 z) { u32 lo = x <= y ? x : y, hi = x <= y ? y : x; return __CPROVER_uninterpreted_ffma32(lo, hi, z); }
#define FMULADD_32(x, y, z) FADD_32(FMUL_32(x, y), z)
u64 __CPROVER_uninterpreted_fadd64(u64, u64);
u64 __CPROVER_uninterpreted_fsub64(u64, u64);
u64 __CPROVER_uninterpreted_fmul64(u64, u64);
u64 __CPROVER_uninterpreted_fdiv64(u64, u64);
u64 __CPROVER_uninterpreted_fsqrt64(u64);
u64 __CPROVER_uninterpreted_ffma64(u64, u64, u64);
static inline u64 FADD_64(u64 x, u64 y) { u64 lo = x <= y ? x : y, hi = x <= y ? y : x; return __CPROVER_uninterpreted_fadd64(lo, hi); }
static inline u64 FMUL_64(u64 x, u64 y) { u64 lo = x <= y ? x : y, hi = x <= y ? y : x; return __CPROVER_uninterpreted_fmul64(lo, hi); }
#define FSUB_64(x, y) __CPROVER_uninterpreted_fsub64(x, y)
#define FDIV_64(x, y) __CPROVER_uninterpreted_fdiv64(x, y)
#define FSQRT_64(x) __CPROVER_uninterpreted_fsqrt64(x)
static inline u64 FMA_64(u64 x, u64 y, u64 z) { u64 lo = x <= y ? x : y, hi = x <= y ? y : x; return __CPROVER_uninterpreted_ffma64(lo, hi, z); }
#define FMULADD_64(x, y, z) FADD_64(FMUL_64(x, y), z)
u32 __CPROVER_uninterpreted_sitofp_8_32(u64);
#define CV_sitofp_8_32(x) __CPROVER_uninterpreted_sitofp_8_32((u64)(s64)(s8)(x))
u64 __CPROVER_uninterpreted_sitofp_8_64(u64);
#define CV_sitofp_8_64(x) __CPROVER_uninterpreted_sitofp_8_64((u64)(s64)(s8)(x))
u32 __CPROVER_uninterpreted_sitofp_16_32(u64);
#define CV_sitofp_16_32(x) __CPROVER_uninterpreted_sitofp_16_32((u64)(s64)(s16)(x))
u64 __CPROVER_uninterpreted_sitofp_16_64(u64);
#define CV_sitofp_16_64(x) __CPROVER_uninterpreted_sitofp_16_64((u64)(s64)(s16)(x))
u32 __CPROVER_uninterpreted_sitofp_32_32(u64);
#define CV_sitofp_32_32(x) __CPROVER_uninterpreted_sitofp_32_32((u64)(s64)(s32)(x))
u64 __CPROVER_uninterpreted_sitofp_32_64(u64);
#define CV_sitofp_32_64(x) __CPROVER_uninterpreted_sitofp_32_64((u64)(s64)(s32)(x))
u32 __CPROVER_uninterpreted_sitofp_64_32(u64);
#define CV_sitofp_64_32(x) __CPROVER_uninterpreted_sitofp_64_32((u64)(s64)(s64)(x))
u64 __CPROVER_uninterpreted_sitofp_64_64(u64);
#define CV_sitofp_64_64(x) __CPROVER_uninterpreted_sitofp_64_64((u64)(s64)(s64)(x))
u32 __CPROVER_uninterpreted_uitofp_8_32(u64);
#define CV_uitofp_8_32(x) __CPROVER_uninterpreted_uitofp_8_32((u64)(u8)(x))
u64 __CPROVER_uninterpreted_uitofp_8_64(u64);
#define CV_uitofp_8_64(x) __CPROVER_uninterpreted_uitofp_8_64((u64)(u8)(x))
u32 __CPROVER_uninterpreted_uitofp_16_32(u64);
#define CV_uitofp_16_32(x) __CPROVER_uninterpreted_uitofp_16_32((u64)(u16)(x))
u64 __CPROVER_uninterpreted_uitofp_16_64(u64);
#define CV_uitofp_16_64(x) __CPROVER_uninterpreted_uitofp_16_64((u64)(u16)(x))
u32 __CPROVER_uninterpreted_uitofp_32_32(u64);
#define CV_uitofp_32_32(x) __CPROVER_uninterpreted_uitofp_32_32((u64)(u32)(x))
u64 __CPROVER_uninterpreted_uitofp_32_64(u64);
#define CV_uitofp_32_64(x) __CPROVER_uninterpreted_uitofp_32_64((u64)(u32)(x))
u32 __CPROVER_uninterpreted_uitofp_64_32(u64);
#define CV_uitofp_64_32(x) __CPROVER_uninterpreted_uitofp_64_32((u64)(u64)(x))
u64 __CPROVER_uninterpreted_uitofp_64_64(u64);
#define CV_uitofp_64_64(x) __CPROVER_uninterpreted_uitofp_64_64((u64)(u64)(x))
u64 __CPROVER_uninterpreted_fptosi_32_8(u32);
#define CV_fptosi_32_8(x) __CPROVER_uninterpreted_fptosi_32_8(x)
u64 __CPROVER_uninterpreted_fptosi_32_16(u32);
#define CV_fptosi_32_16(x) __CPROVER_uninterpreted_fptosi_32_16(x)
u64 __CPROVER_uninterpreted_fptosi_32_32(u32);
#define CV_fptosi_32_32(x) __CPROVER_uninterpreted_fptosi_32_32(x)
u64 __CPROVER_uninterpreted_fptosi_32_64(u32);
#define CV_fptosi_32_64(x) __CPROVER_uninterpreted_fptosi_32_64(x)
u64 __CPROVER_uninterpreted_fptosi_64_8(u64);
#define CV_fptosi_64_8(x) __CPROVER_uninterpreted_fptosi_64_8(x)
u64 __CPROVER_uninterpreted_fptosi_64_16(u64);
#define CV_fptosi_64_16(x) __CPROVER_uninterpreted_fptosi_64_16(x)
u64 __CPROVER_uninterpreted_fptosi_64_32(u64);
#define CV_fptosi_64_32(x) __CPROVER_uninterpreted_fptosi_64_32(x)
u64 __CPROVER_uninterpreted_fptosi_64_64(u64);
#define CV_fptosi_64_64(x) __CPROVER_uninterpreted_fptosi_64_64(x)
u64 __CPROVER_uninterpreted_fptoui_32_8(u32);
#define CV_fptoui_32_8(x) __CPROVER_uninterpreted_fptoui_32_8(x)
u64 __CPROVER_uninterpreted_fptoui_32_16(u32);
#define CV_fptoui_32_16(x) __CPROVER_uninterpreted_fptoui_32_16(x)
u64 __CPROVER_uninterpreted_fptoui_32_32(u32);
#define CV_fptoui_32_32(x) __CPROVER_uninterpreted_fptoui_32_32(x)
u64 __CPROVER_uninterpreted_fptoui_32_64(u32);
#define CV_fptoui_32_64(x) __CPROVER_uninterpreted_fptoui_32_64(x)
u64 __CPROVER_uninterpreted_fptoui_64_8(u64);
#define CV_fptoui_64_8(x) __CPROVER_uninterpreted_fptoui_64_8(x)
u64 __CPROVER_uninterpreted_fptoui_64_16(u64);
#define CV_fptoui_64_16(x) __CPROVER_uninterpreted_fptoui_64_16(x)
u64 __CPROVER_uninterpreted_fptoui_64_32(u64);
#define CV_fptoui_64_32(x) __CPROVER_uninterpreted_fptoui_64_32(x)
u64 __CPROVER_uninterpreted_fptoui_64_64(u64);
#define CV_fptoui_64_64(x) __CPROVER_uninterpreted_fptoui_64_64(x)
u64 __CPROVER_uninterpreted_fpext_32_64(u32);
#define CV_fpext_32_64(x) __CPROVER_uninterpreted_fpext_32_64(x)
u32 __CPROVER_uninterpreted_fptrunc_64_32(u64);
#define CV_fptrunc_64_32(x) __CPROVER_uninterpreted_fptrunc_64_32(x)

/* libc integer abs (std::abs(int) at -O0 is a call): two's-complement, abs(INT_MIN) wraps to INT_MIN */
static inline u32 VERIF_abs_i32(u32 x) { return ((s32)x < 0) ? (u32)(0u - x) : x; }
static inline u64 VERIF_abs_i64(u64 x) { return ((s64)x < 0) ? (u64)(0ULL - x) : x; }
