/* prelude/mode_ring.h -- BASIS mode: ring reinterpretation with *real* integer arithmetic and no typing.
   Used only together with a TAGS run of the same case: TAGS proves the code is multilinear in its operands and
   oblivious (no control decision on data); BASIS then evaluates it on all tuples of basis elements (each operand a
   one-hot tensor at a symbolic position), which determines a multilinear map completely.  Float arithmetic is
   reinterpreted in the integer ring as in ATOMS (fadd -> +, fmul -> *, fma -> *+); other float operations do not
   occur in code that passed the TAGS typing. */
int VERIF_softtyped = 0;
u64 VERIF_W[1];
#define VERIF_NWORDS 1
#define PROD_SHIFT 0
static inline u64 VT_undef_64(void) { return nondet_u64(); }
static inline u32 VT_undef_32(void) { return nondet_u32(); }
#define IMUL_64(x, y) ((u64)((x) * (y)))
#define IADD_64(x, y) ((u64)((x) + (y)))
#define ISUB_64(x, y) ((u64)((x) - (y)))
#define IMUL_32(x, y) ((u32)((x) * (y)))
#define IADD_32(x, y) ((u32)((x) + (y)))
#define ISUB_32(x, y) ((u32)((x) - (y)))
#define IAND_64(x, y) ((u64)((x) & (y)))
#define IAND_32(x, y) ((u32)((x) & (y)))
#define IOR_64(x, y) ((u64)((x) | (y)))
#define IOR_32(x, y) ((u32)((x) | (y)))
#define IXOR_64(x, y) ((u64)((x) ^ (y)))
#define IXOR_32(x, y) ((u32)((x) ^ (y)))
#define ISHL_64(x, n) ((u64)((x) << (n)))
#define ISHL_32(x, n) ((u32)((x) << (n)))
#define ILSHR_64(x, n) ((u64)((x) >> (n)))
#define ILSHR_32(x, n) ((u32)((x) >> (n)))
#define CTL_64(x) (x)
#define CTL_32(x) (x)
#define CTLA_64(x) (x)
#define CTLA_32(x) (x)
#define TRUNCSRC_64_32(x) (x)
#define TRUNCSRC_64_16(x) (x)
#define TRUNCSRC_64_8(x) (x)
#define TRUNCSRC_64_1(x) (x)
#define TRUNCSRC_32_16(x) (x)
#define TRUNCSRC_32_8(x) (x)
#define TRUNCSRC_32_1(x) (x)
#define FADD_32(x, y) IADD_32(x, y)
#define FSUB_32(x, y) ISUB_32(x, y)
#define FMUL_32(x, y) IMUL_32(x, y)
#define FADD_64(x, y) IADD_64(x, y)
#define FSUB_64(x, y) ISUB_64(x, y)
#define FMUL_64(x, y) IMUL_64(x, y)
#define FMA_32(x, y, z) IADD_32(IMUL_32(x, y), z)
#define FMA_64(x, y, z) IADD_64(IMUL_64(x, y), z)
#define FMULADD_32(x, y, z) IADD_32(IMUL_32(x, y), z)
#define FMULADD_64(x, y, z) IADD_64(IMUL_64(x, y), z)
#define FNEG_32(x) ISUB_32(0u, x)
#define FNEG_64(x) ISUB_64(0ULL, x)
static inline u64 VR_bad(void) { VERIF_illtyped = 1; return nondet_u64(); }
#define FC_32(bits, ival, isint) ((isint) ? (u32)(s32)(ival) : (u32)VR_bad())
#define FC_64(bits, ival, isint) ((isint) ? (u64)(s64)(ival) : VR_bad())
#define FDIV_32(x, y) ((u32)VR_bad())
#define FDIV_64(x, y) VR_bad()
#define FABS_32(x) ((u32)VR_bad())
#define FABS_64(x) VR_bad()
#define FSQRT_32(x) ((u32)VR_bad())
#define FSQRT_64(x) VR_bad()
#define VR_FCMP(name, op) \
  static inline u8 FCMP_##name##_32(u32 x, u32 y) { return (u8)((s32)x op (s32)y); } \
  static inline u8 FCMP_##name##_64(u64 x, u64 y) { return (u8)((s64)x op (s64)y); }
VR_FCMP(oeq, ==) VR_FCMP(ueq, ==) VR_FCMP(one, !=) VR_FCMP(une, !=) VR_FCMP(olt, <) VR_FCMP(ult, <)
VR_FCMP(ole, <=) VR_FCMP(ule, <=) VR_FCMP(ogt, >) VR_FCMP(ugt, >) VR_FCMP(oge, >=) VR_FCMP(uge, >=)
static inline u8 FCMP_ord_32(u32 x, u32 y) { return 1; }
static inline u8 FCMP_ord_64(u64 x, u64 y) { return 1; }
static inline u8 FCMP_uno_32(u32 x, u32 y) { return 0; }
static inline u8 FCMP_uno_64(u64 x, u64 y) { return 0; }
#define CV_sitofp_32_32(x) (x)
#define CV_sitofp_32_64(x) ((u64)(s64)(s32)(x))
#define CV_sitofp_64_32(x) ((u32)(x))
#define CV_sitofp_64_64(x) (x)
#define CV_sitofp_8_32(x) ((u32)(s32)(s8)(x))
#define CV_sitofp_8_64(x) ((u64)(s64)(s8)(x))
#define CV_sitofp_16_32(x) ((u32)(s32)(s16)(x))
#define CV_sitofp_16_64(x) ((u64)(s64)(s16)(x))
#define CV_uitofp_32_32(x) (x)
#define CV_uitofp_32_64(x) ((u64)(x))
#define CV_uitofp_64_32(x) ((u32)(x))
#define CV_uitofp_64_64(x) (x)
#define CV_uitofp_8_32(x) ((u32)(u8)(x))
#define CV_uitofp_8_64(x) ((u64)(u8)(x))
#define CV_uitofp_16_32(x) ((u32)(u16)(x))
#define CV_uitofp_16_64(x) ((u64)(u16)(x))
#define CV_fptosi_32_32(x) (x)
#define CV_fptosi_32_64(x) ((u64)(s64)(s32)(x))
#define CV_fptosi_64_32(x) ((u32)(x))
#define CV_fptosi_64_64(x) (x)
#define CV_fptosi_32_8(x) (x)
#define CV_fptosi_64_8(x) (x)
#define CV_fptosi_32_16(x) (x)
#define CV_fptosi_64_16(x) (x)
#define CV_fptoui_32_32(x) (x)
#define CV_fptoui_32_64(x) ((u64)(x))
#define CV_fptoui_64_32(x) ((u32)(x))
#define CV_fptoui_64_64(x) (x)
#define CV_fptoui_32_8(x) (x)
#define CV_fptoui_64_8(x) (x)
#define CV_fptoui_32_16(x) (x)
#define CV_fptoui_64_16(x) (x)
#define CV_fpext_32_64(x) ((u64)(s64)(s32)(x))
#define CV_fptrunc_64_32(x) ((u32)(x))
