/* prelude/libm.h -- external math functions are opaque per function (only "applied to the right lane" is decided) */
u32 __CPROVER_uninterpreted_libm_sin_32(u32);
#define FLIBM_sin_32(x) __CPROVER_uninterpreted_libm_sin_32(x)
u32 __CPROVER_uninterpreted_libm_cos_32(u32);
#define FLIBM_cos_32(x) __CPROVER_uninterpreted_libm_cos_32(x)
u32 __CPROVER_uninterpreted_libm_tan_32(u32);
#define FLIBM_tan_32(x) __CPROVER_uninterpreted_libm_tan_32(x)
u32 __CPROVER_uninterpreted_libm_asin_32(u32);
#define FLIBM_asin_32(x) __CPROVER_uninterpreted_libm_asin_32(x)
u32 __CPROVER_uninterpreted_libm_acos_32(u32);
#define FLIBM_acos_32(x) __CPROVER_uninterpreted_libm_acos_32(x)
u32 __CPROVER_uninterpreted_libm_atan_32(u32);
#define FLIBM_atan_32(x) __CPROVER_uninterpreted_libm_atan_32(x)
u32 __CPROVER_uninterpreted_libm_sinh_32(u32);
#define FLIBM_sinh_32(x) __CPROVER_uninterpreted_libm_sinh_32(x)
u32 __CPROVER_uninterpreted_libm_cosh_32(u32);
#define FLIBM_cosh_32(x) __CPROVER_uninterpreted_libm_cosh_32(x)
u32 __CPROVER_uninterpreted_libm_tanh_32(u32);
#define FLIBM_tanh_32(x) __CPROVER_uninterpreted_libm_tanh_32(x)
u32 __CPROVER_uninterpreted_libm_asinh_32(u32);
#define FLIBM_asinh_32(x) __CPROVER_uninterpreted_libm_asinh_32(x)
u32 __CPROVER_uninterpreted_libm_acosh_32(u32);
#define FLIBM_acosh_32(x) __CPROVER_uninterpreted_libm_acosh_32(x)
u32 __CPROVER_uninterpreted_libm_atanh_32(u32);
#define FLIBM_atanh_32(x) __CPROVER_uninterpreted_libm_atanh_32(x)
u32 __CPROVER_uninterpreted_libm_exp_32(u32);
#define FLIBM_exp_32(x) __CPROVER_uninterpreted_libm_exp_32(x)
u32 __CPROVER_uninterpreted_libm_exp2_32(u32);
#define FLIBM_exp2_32(x) __CPROVER_uninterpreted_libm_exp2_32(x)
u32 __CPROVER_uninterpreted_libm_expm1_32(u32);
#define FLIBM_expm1_32(x) __CPROVER_uninterpreted_libm_expm1_32(x)
u32 __CPROVER_uninterpreted_libm_log_32(u32);
#define FLIBM_log_32(x) __CPROVER_uninterpreted_libm_log_32(x)
u32 __CPROVER_uninterpreted_libm_log2_32(u32);
#define FLIBM_log2_32(x) __CPROVER_uninterpreted_libm_log2_32(x)
u32 __CPROVER_uninterpreted_libm_log10_32(u32);
#define FLIBM_log10_32(x) __CPROVER_uninterpreted_libm_log10_32(x)
u32 __CPROVER_uninterpreted_libm_log1p_32(u32);
#define FLIBM_log1p_32(x) __CPROVER_uninterpreted_libm_log1p_32(x)
u32 __CPROVER_uninterpreted_libm_cbrt_32(u32);
#define FLIBM_cbrt_32(x) __CPROVER_uninterpreted_libm_cbrt_32(x)
u32 __CPROVER_uninterpreted_libm_erf_32(u32);
#define FLIBM_erf_32(x) __CPROVER_uninterpreted_libm_erf_32(x)
u32 __CPROVER_uninterpreted_libm_tgamma_32(u32);
#define FLIBM_tgamma_32(x) __CPROVER_uninterpreted_libm_tgamma_32(x)
u32 __CPROVER_uninterpreted_libm_lgamma_32(u32);
#define FLIBM_lgamma_32(x) __CPROVER_uninterpreted_libm_lgamma_32(x)
u32 __CPROVER_uninterpreted_FLOOR_32(u32);
#define FFLOOR_32(x) __CPROVER_uninterpreted_FLOOR_32(x)
u32 __CPROVER_uninterpreted_CEIL_32(u32);
#define FCEIL_32(x) __CPROVER_uninterpreted_CEIL_32(x)
u32 __CPROVER_uninterpreted_TRUNC_32(u32);
#define FTRUNC_32(x) __CPROVER_uninterpreted_TRUNC_32(x)
u32 __CPROVER_uninterpreted_RINT_32(u32);
#define FRINT_32(x) __CPROVER_uninterpreted_RINT_32(x)
u32 __CPROVER_uninterpreted_NEARBYINT_32(u32);
#define FNEARBYINT_32(x) __CPROVER_uninterpreted_NEARBYINT_32(x)
u32 __CPROVER_uninterpreted_ROUND_32(u32);
#define FROUND_32(x) __CPROVER_uninterpreted_ROUND_32(x)
u32 __CPROVER_uninterpreted_ROUNDEVEN_32(u32);
#define FROUNDEVEN_32(x) __CPROVER_uninterpreted_ROUNDEVEN_32(x)
u32 __CPROVER_uninterpreted_POW_32(u32, u32);
#define FPOW_32(x, y) __CPROVER_uninterpreted_POW_32(x, y)
u32 __CPROVER_uninterpreted_ATAN2_32(u32, u32);
#define FATAN2_32(x, y) __CPROVER_uninterpreted_ATAN2_32(x, y)
u32 __CPROVER_uninterpreted_HYPOT_32(u32, u32);
#define FHYPOT_32(x, y) __CPROVER_uninterpreted_HYPOT_32(x, y)
u32 __CPROVER_uninterpreted_FMOD_32(u32, u32);
#define FFMOD_32(x, y) __CPROVER_uninterpreted_FMOD_32(x, y)
u32 __CPROVER_uninterpreted_COPYSIGN_32(u32, u32);
#define FCOPYSIGN_32(x, y) __CPROVER_uninterpreted_COPYSIGN_32(x, y)
u32 __CPROVER_uninterpreted_MINNUM_32(u32, u32);
#define FMINNUM_32(x, y) __CPROVER_uninterpreted_MINNUM_32(x, y)
u32 __CPROVER_uninterpreted_MAXNUM_32(u32, u32);
#define FMAXNUM_32(x, y) __CPROVER_uninterpreted_MAXNUM_32(x, y)
u64 __CPROVER_uninterpreted_libm_sin_64(u64);
#define FLIBM_sin_64(x) __CPROVER_uninterpreted_libm_sin_64(x)
u64 __CPROVER_uninterpreted_libm_cos_64(u64);
#define FLIBM_cos_64(x) __CPROVER_uninterpreted_libm_cos_64(x)
u64 __CPROVER_uninterpreted_libm_tan_64(u64);
#define FLIBM_tan_64(x) __CPROVER_uninterpreted_libm_tan_64(x)
u64 __CPROVER_uninterpreted_libm_asin_64(u64);
#define FLIBM_asin_64(x) __CPROVER_uninterpreted_libm_asin_64(x)
u64 __CPROVER_uninterpreted_libm_acos_64(u64);
#define FLIBM_acos_64(x) __CPROVER_uninterpreted_libm_acos_64(x)
u64 __CPROVER_uninterpreted_libm_atan_64(u64);
#define FLIBM_atan_64(x) __CPROVER_uninterpreted_libm_atan_64(x)
u64 __CPROVER_uninterpreted_libm_sinh_64(u64);
#define FLIBM_sinh_64(x) __CPROVER_uninterpreted_libm_sinh_64(x)
u64 __CPROVER_uninterpreted_libm_cosh_64(u64);
#define FLIBM_cosh_64(x) __CPROVER_uninterpreted_libm_cosh_64(x)
u64 __CPROVER_uninterpreted_libm_tanh_64(u64);
#define FLIBM_tanh_64(x) __CPROVER_uninterpreted_libm_tanh_64(x)
u64 __CPROVER_uninterpreted_libm_asinh_64(u64);
#define FLIBM_asinh_64(x) __CPROVER_uninterpreted_libm_asinh_64(x)
u64 __CPROVER_uninterpreted_libm_acosh_64(u64);
#define FLIBM_acosh_64(x) __CPROVER_uninterpreted_libm_acosh_64(x)
u64 __CPROVER_uninterpreted_libm_atanh_64(u64);
#define FLIBM_atanh_64(x) __CPROVER_uninterpreted_libm_atanh_64(x)
u64 __CPROVER_uninterpreted_libm_exp_64(u64);
#define FLIBM_exp_64(x) __CPROVER_uninterpreted_libm_exp_64(x)
u64 __CPROVER_uninterpreted_libm_exp2_64(u64);
#define FLIBM_exp2_64(x) __CPROVER_uninterpreted_libm_exp2_64(x)
u64 __CPROVER_uninterpreted_libm_expm1_64(u64);
#define FLIBM_expm1_64(x) __CPROVER_uninterpreted_libm_expm1_64(x)
u64 __CPROVER_uninterpreted_libm_log_64(u64);
#define FLIBM_log_64(x) __CPROVER_uninterpreted_libm_log_64(x)
u64 __CPROVER_uninterpreted_libm_log2_64(u64);
#define FLIBM_log2_64(x) __CPROVER_uninterpreted_libm_log2_64(x)
u64 __CPROVER_uninterpreted_libm_log10_64(u64);
#define FLIBM_log10_64(x) __CPROVER_uninterpreted_libm_log10_64(x)
u64 __CPROVER_uninterpreted_libm_log1p_64(u64);
#define FLIBM_log1p_64(x) __CPROVER_uninterpreted_libm_log1p_64(x)
u64 __CPROVER_uninterpreted_libm_cbrt_64(u64);
#define FLIBM_cbrt_64(x) __CPROVER_uninterpreted_libm_cbrt_64(x)
u64 __CPROVER_uninterpreted_libm_erf_64(u64);
#define FLIBM_erf_64(x) __CPROVER_uninterpreted_libm_erf_64(x)
u64 __CPROVER_uninterpreted_libm_tgamma_64(u64);
#define FLIBM_tgamma_64(x) __CPROVER_uninterpreted_libm_tgamma_64(x)
u64 __CPROVER_uninterpreted_libm_lgamma_64(u64);
#define FLIBM_lgamma_64(x) __CPROVER_uninterpreted_libm_lgamma_64(x)
u64 __CPROVER_uninterpreted_FLOOR_64(u64);
#define FFLOOR_64(x) __CPROVER_uninterpreted_FLOOR_64(x)
u64 __CPROVER_uninterpreted_CEIL_64(u64);
#define FCEIL_64(x) __CPROVER_uninterpreted_CEIL_64(x)
u64 __CPROVER_uninterpreted_TRUNC_64(u64);
#define FTRUNC_64(x) __CPROVER_uninterpreted_TRUNC_64(x)
u64 __CPROVER_uninterpreted_RINT_64(u64);
#define FRINT_64(x) __CPROVER_uninterpreted_RINT_64(x)
u64 __CPROVER_uninterpreted_NEARBYINT_64(u64);
#define FNEARBYINT_64(x) __CPROVER_uninterpreted_NEARBYINT_64(x)
u64 __CPROVER_uninterpreted_ROUND_64(u64);
#define FROUND_64(x) __CPROVER_uninterpreted_ROUND_64(x)
u64 __CPROVER_uninterpreted_ROUNDEVEN_64(u64);
#define FROUNDEVEN_64(x) __CPROVER_uninterpreted_ROUNDEVEN_64(x)
u64 __CPROVER_uninterpreted_POW_64(u64, u64);
#define FPOW_64(x, y) __CPROVER_uninterpreted_POW_64(x, y)
u64 __CPROVER_uninterpreted_ATAN2_64(u64, u64);
#define FATAN2_64(x, y) __CPROVER_uninterpreted_ATAN2_64(x, y)
u64 __CPROVER_uninterpreted_HYPOT_64(u64, u64);
#define FHYPOT_64(x, y) __CPROVER_uninterpreted_HYPOT_64(x, y)
u64 __CPROVER_uninterpreted_FMOD_64(u64, u64);
#define FFMOD_64(x, y) __CPROVER_uninterpreted_FMOD_64(x, y)
u64 __CPROVER_uninterpreted_COPYSIGN_64(u64, u64);
#define FCOPYSIGN_64(x, y) __CPROVER_uninterpreted_COPYSIGN_64(x, y)
u64 __CPROVER_uninterpreted_MINNUM_64(u64, u64);
#define FMINNUM_64(x, y) __CPROVER_uninterpreted_MINNUM_64(x, y)
u64 __CPROVER_uninterpreted_MAXNUM_64(u64, u64);
#define FMAXNUM_64(x, y) __CPROVER_uninterpreted_MAXNUM_64(x, y)
