/* prelude/base.h -- fixed text placed in front of every translated unit (tools/ir2c.py output).
   Nothing here depends on /repo.  Every __CPROVER_assume in this file is listed by the
   assumption scan of the driver and reported in the evidence. */
typedef unsigned char u8; typedef unsigned short u16; typedef unsigned int u32; typedef unsigned long long u64;
typedef signed char s8; typedef short s16; typedef int s32; typedef long long s64;
typedef unsigned __int128 u128;
typedef u8 *ptr_t;
u8 nondet_u8(void); u16 nondet_u16(void); u32 nondet_u32(void); u64 nondet_u64(void);
#ifdef VERIF_NATIVE
/* native self-check build of the translated text (gcc): give the CPROVER names executable meanings */
#include <stdlib.h>
#include <string.h>
#include <math.h>
#include <stdint.h>
extern int VERIF_native_fail;
#define __CPROVER_assert(c, msg) do { if (!(c)) { VERIF_native_fail = 1; } } while (0)
#define __CPROVER_assume(c) do { if (!(c)) { VERIF_native_fail = 2; } } while (0)
#define __CPROVER_POINTER_OFFSET(p) ((uintptr_t)(p))   /* native: real address (buffers are placed worst-case by the driver) */
#define ALIGNED_TO(p, a) 1
#else
void *memcpy(void *, const void *, unsigned long); void *memmove(void *, const void *, unsigned long); void *memset(void *, int, unsigned long); void *malloc(unsigned long);
#define ALIGNED_TO(p, a) ((__CPROVER_POINTER_OFFSET(p) % (a)) == 0)
#endif
#define VERIF_memcpy(d, s, n) memcpy(d, s, n)
#define VERIF_memmove(d, s, n) memmove(d, s, n)
#define VERIF_memset(d, c, n) memset(d, c, n)

/* ghost state */
int VERIF_threw = 0;      /* set when __cxa_throw is reached; the path ends there */
int VERIF_illtyped = 0;   /* set by mode_atoms.h when an operation falls outside the provenance typing */

static u32 VERIF_cxa_guard_acquire(ptr_t g) { return *g == 0; }
static void VERIF_cxa_guard_release(ptr_t g) { *g = 1; }
static u8 VERIF_exc_storage[64];
static ptr_t VERIF_cxa_allocate_exception(u64 n) { return VERIF_exc_storage; }
static void VERIF_cxa_free_exception(ptr_t p) { }
static void VERIF_runtime_error_ctor(ptr_t self, ptr_t msg) { }
static void VERIF_cxa_throw(ptr_t e, ptr_t ti, ptr_t d) { VERIF_threw = 1; __CPROVER_assume(0); }
static ptr_t VERIF_operator_new(u64 n) { __CPROVER_assert(0, "no-dynamic-allocation: operator new/malloc called"); return (ptr_t)malloc(n); }
static void VERIF_operator_delete(ptr_t p) { }
static void VERIF_abort(void) { __CPROVER_assert(0, "abort/exit reached (FASTOR assertion failed)"); __CPROVER_assume(0); }
static void VERIF_exit(u32 c) { __CPROVER_assert(0, "abort/exit reached (FASTOR assertion failed)"); __CPROVER_assume(0); }
/* catch blocks are only entered from landing pads, which are cut (assume(false)); these stubs are unreachable */
static ptr_t VERIF_cxa_begin_catch(ptr_t e) { __CPROVER_assume(0); return e; }
static void VERIF_cxa_end_catch(void) { }
static void VERIF_cxa_rethrow(void) { VERIF_threw = 1; __CPROVER_assume(0); }
static void VERIF_abort_p(ptr_t p) { VERIF_abort(); }
