/* prelude/mode_atoms.h -- ATOMS mode: provenance-concrete evaluation with range typing (DESIGN.md section 4).

   Needs:  VERIF_NA, VERIF_NB  number of atoms of the left / right operand (NB may be 0 in LIN mode)
           VERIF_DW            data width of the unit's element type (32 or 64)
   Value classes on a w-bit carrier (w = 32, 64):
     control      [0,2^16) and [-2^16,0)      indices, sizes, strides, constants  -> real semantics
     A-atom       [ATOM_A0, ATOM_A0+NA)       unmodified copy of element p of the left operand
     B-atom       [ATOM_B0, ATOM_B0+NB)       unmodified copy of element q of the right operand
     product      multiples of 2^18 (incl. 0) W[p][q]<<18 and sums/differences/negations of those
   (dw=32 only) a 64-bit carrier with a non-zero high word that is not a small negative is a *packed pair* of
   32-bit lanes; only lane moves (and/shift/or/trunc by whole lanes) are allowed on it.
   Any operation outside the table sets VERIF_illtyped and yields a fresh nondeterministic value; the
   applicability obligation "VERIF_illtyped == 0" is part of every ATOMS contract.  Float arithmetic is
   reinterpreted in the ring: FADD -> IADD, FMUL -> IMUL, FMA -> IADD(IMUL); fdiv, sqrt, fcmp, fabs, non-integer
   constants are ill-typed.  */
#ifndef VERIF_NA
#error "mode_atoms.h needs VERIF_NA / VERIF_NB / VERIF_DW"
#endif
#define ATOM_A0 0x10000u
#define ATOM_B0 0x18000u
#define ATOM_END 0x20000u
#define PROD_SHIFT 18
#define PROD_MASK 0x3ffffu
#if VERIF_NA > 0x8000 || VERIF_NB > 0x8000
#error "too many atoms"
#endif
#define VERIF_NWORDS ((VERIF_NA * (VERIF_NB > 0 ? VERIF_NB : 1) + 63) / 64)
u64 VERIF_W[VERIF_NWORDS];   /* nondeterministic 0/1 product table, 64 entries per word (never written) */

/* An operation outside the table yields a *poison* value (own class: bit 31 clear, bit 18 set, low 18 bits 0x6aaaa & mask)
   and sets the soft flag VERIF_softtyped.  Poison propagates through every operation and can never equal a
   specified output value, so a poison value that reaches an output fails that element's postcondition; a poison or
   data value that reaches a *control* position (compare, branch, address, shift amount, division, conversion) sets the
   hard flag VERIF_illtyped, whose negation is an obligation of every ATOMS contract.  Dead lanes (e.g. the unused upper
   lanes of a horizontal reduction on undef) may therefore be ill-typed without harm. */
int VERIF_softtyped = 0;
#define POISON_MARK 0x6aaaau
static inline u64 VT_bad(void) { VERIF_softtyped = 1; return ((nondet_u64() & 0x7ff80000ULL) | POISON_MARK); }
static inline u64 VT_hard(void) { VERIF_illtyped = 1; VERIF_softtyped = 1; return ((nondet_u64() & 0x7ff80000ULL) | POISON_MARK); }
static inline int VT_ctl(u64 x) { return x < 0x10000ULL || x >= 0xffffffffffff0000ULL; }
static inline int VT_ctl32(u32 x) { return x < 0x10000u || x >= 0xffff0000u; }
static inline int VT_atom(u64 x) { return x >= ATOM_A0 && x < ATOM_END; }
static inline int VT_prod(u64 x) { return (x & PROD_MASK) == 0; }
static inline u64 VT_sx32(u32 x) { return (u64)(s64)(s32)x; }
#define TAG_SHIFT 20
static inline int VT_tag(u64 x) { return x >= (1ULL << TAG_SHIFT) && x < (1ULL << (TAG_SHIFT + 10)) && (x & ((1ULL << TAG_SHIFT) - 1)) == 0; }
/* undef / poison lanes: an arbitrary value of the product class (keeps dead lanes well-typed; if it reaches an output
   or a control position the postcondition / the control typing fails) */
static inline u64 VT_undef_64(void) { return nondet_u64() & ~(u64)PROD_MASK; }
static inline u32 VT_undef_32(void) { return nondet_u32() & ~(u32)PROD_MASK; }

/* w-bit classification: cls 64 sees the full carrier, cls 32 sees a sign-extended 32-bit one */
static inline u64 VT_mul(u64 x, u64 y, int w) {
  if (x == 0 || y == 0) return 0;
  if (x == 1) return y;
  if (y == 1) return x;
  if (VT_ctl(x) && VT_ctl(y)) { u64 r = x * y; if (!VT_ctl(r)) return VT_bad(); return r; }
  /* (-1) * v for a product-class v (alpha = -1 in c = alpha*t + beta*c): the negated sum stays in the ring typing */
  if (w == 64 && x == 0xffffffffffffffffULL && VT_prod(y)) return 0 - y;
  if (w == 64 && y == 0xffffffffffffffffULL && VT_prod(x)) return 0 - x;
  if (x >= ATOM_B0) { u64 t = x; x = y; y = t; }
#if VERIF_NB > 0
  if (x >= ATOM_A0 && x < ATOM_A0 + VERIF_NA && y >= ATOM_B0 && y < ATOM_B0 + VERIF_NB) {
    u64 idx = (x - ATOM_A0) * VERIF_NB + (y - ATOM_B0);
    return ((VERIF_W[idx / 64] >> (idx % 64)) & 1) << PROD_SHIFT;
  }
#endif
#ifdef VERIF_TAGS
  /* TAGS mode (multilinear code): every element of operand i carries the concrete tag TAG(i) = 2^(20+i); a value's tag is the set
     of operands it is a product of.  Products need disjoint tag sets (no operand twice => degree <= 1 in every operand). */
  if (VT_tag(x) && VT_tag(y)) { if ((x & y) == 0) return x | y; return VT_bad(); }
  /* (-1) * v keeps the tag (sign is the BASIS run's business) */
  if (VT_tag(y) && (x == 0xffffffffffffffffULL || x == 0xffffffffULL)) return y;
  if (VT_tag(x) && (y == 0xffffffffffffffffULL || y == 0xffffffffULL)) return x;
#endif
#ifdef VERIF_SQ
  /* atoms='AA' (quadratic forms: norm): the square of A-atom p is the table bit W[p]; a product of two *different*
     A-atoms is outside the typing (poison) */
  if (x == y && x >= ATOM_A0 && x < ATOM_A0 + VERIF_NA) {
    u64 idx = x - ATOM_A0;
    return ((VERIF_W[idx / 64] >> (idx % 64)) & 1) << PROD_SHIFT;
  }
#endif
  return VT_bad();
}
/* additions see symbolic product-range accumulators: straight-line, the verdict goes into the ghost flag */
static inline u64 VT_add(u64 x, u64 y, int sub) {
#ifdef VERIF_TAGS
  /* sums need equal tag sets (homogeneous) or a zero summand; the sum keeps the tag */
  if (VT_tag(x) || VT_tag(y)) { if (x == y || y == 0) return x; if (x == 0) return y; return VT_bad(); }
#endif
  u64 r = sub ? x - y : x + y;
  int ok = (VT_prod(x) && VT_prod(y)) || (VT_ctl(x) && VT_ctl(y) && VT_ctl(r)) || y == 0 || (x == 0 && !sub);
  if (!ok) return VT_bad();
  return r;
}
#define IMUL_64(x, y) VT_mul((x), (y), 64)
#define IADD_64(x, y) VT_add((x), (y), 0)
#define ISUB_64(x, y) VT_add((x), (y), 1)
/* 32-bit: classify on the sign-extended value, compute, and return the low word.  A 32-bit product value has its
   top bit possibly set; VT_sx32 then yields a 64-bit multiple of 2^18, still product class. */
static inline u32 VT_mul32(u32 x, u32 y) {
  if (x == 0 || y == 0) return 0;
  if (x == 1) return y;
  if (y == 1) return x;
#ifdef VERIF_TAGS
  if (VT_tag(x) || VT_tag(y)) return (u32)VT_mul(x, y, 32);
#endif
  if (VT_ctl32(x) && VT_ctl32(y)) { u64 r = VT_sx32(x) * VT_sx32(y); if (!VT_ctl(r)) return (u32)VT_bad(); return (u32)r; }
  if (x == 0xffffffffu && VT_prod(y)) return 0u - y;
  if (y == 0xffffffffu && VT_prod(x)) return 0u - x;
  if (VT_atom(x) && VT_atom(y)) return (u32)VT_mul(x, y, 32);
  return (u32)VT_bad();
}
static inline u32 VT_add32(u32 x, u32 y, int sub) {
#ifdef VERIF_TAGS
  if (VT_tag(x) || VT_tag(y)) return (u32)VT_add(x, y, sub);
#endif
  u32 r = sub ? x - y : x + y;
  int ok = (VT_prod(x) && VT_prod(y)) || (VT_ctl32(x) && VT_ctl32(y) && VT_ctl32(r)) || y == 0 || (x == 0 && !sub);
  if (!ok) return (u32)VT_bad();
  return r;
}
#define IMUL_32(x, y) VT_mul32((x), (y))
#define IADD_32(x, y) VT_add32((x), (y), 0)
#define ISUB_32(x, y) VT_add32((x), (y), 1)

/* operands that must be control values */
static inline u64 CTL_64(u64 x) { if (!VT_ctl(x)) return VT_hard(); return x; }
static inline u32 CTL_32(u32 x) { if (!VT_ctl32(x)) return (u32)VT_hard(); return x; }
/* control, atom or zero (sign extension keeps the id) */
static inline u64 CTLA_64(u64 x) { if (!VT_ctl(x) && !VT_atom(x)) return VT_bad(); return x; }
static inline u32 CTLA_32(u32 x) { if (!VT_ctl32(x) && !VT_atom(x)) return (u32)VT_bad(); return x; }
/* truncation sources: 64->32 is a lane extraction for 32-bit data, otherwise the source must be control */
#if VERIF_DW == 32
#define TRUNCSRC_64_32(x) (x)
#else
#define TRUNCSRC_64_32(x) CTL_64(x)
#endif
#define TRUNCSRC_64_16(x) CTL_64(x)
#define TRUNCSRC_64_8(x) CTL_64(x)
#define TRUNCSRC_64_1(x) CTL_64(x)
#define TRUNCSRC_32_16(x) CTL_32(x)
#define TRUNCSRC_32_8(x) CTL_32(x)
#define TRUNCSRC_32_1(x) CTL_32(x)

/* logic and shifts: real on control values; otherwise only whole-lane moves */
static inline u64 IAND_64(u64 x, u64 y) {
  if (VT_ctl(x) && VT_ctl(y)) return x & y;
  if (y == 0xffffffffffffffffULL) return x;
  if (x == 0xffffffffffffffffULL) return y;
  if (x == 0 || y == 0) return 0;
#if VERIF_DW == 32
  if (y == 0xffffffffULL || y == 0xffffffff00000000ULL) return x & y;
  if (x == 0xffffffffULL || x == 0xffffffff00000000ULL) return x & y;
#endif
  return VT_bad();
}
static inline u32 IAND_32(u32 x, u32 y) {
  if (VT_ctl32(x) && VT_ctl32(y)) return x & y;
  if (y == 0xffffffffu) return x;
  if (x == 0xffffffffu) return y;
  if (x == 0 || y == 0) return 0;
  return (u32)VT_bad();
}
static inline u64 IOR_64(u64 x, u64 y) {
  if (VT_ctl(x) && VT_ctl(y)) return x | y;
  if (y == 0) return x;
  if (x == 0) return y;
#if VERIF_DW == 32
  if ((x & 0xffffffffULL) == 0 && (y >> 32) == 0) return x | y;
  if ((y & 0xffffffffULL) == 0 && (x >> 32) == 0) return x | y;
#endif
  return VT_bad();
}
static inline u32 IOR_32(u32 x, u32 y) {
  if (VT_ctl32(x) && VT_ctl32(y)) return x | y;
  if (y == 0) return x;
  if (x == 0) return y;
  return (u32)VT_bad();
}
static inline u64 IXOR_64(u64 x, u64 y) {
  if (VT_ctl(x) && VT_ctl(y)) return x ^ y;
  if (y == 0) return x;
  if (x == 0) return y;
  return VT_bad();
}
static inline u32 IXOR_32(u32 x, u32 y) {
  if (VT_ctl32(x) && VT_ctl32(y)) return x ^ y;
  if (y == 0) return x;
  if (x == 0) return y;
  return (u32)VT_bad();
}
static inline u64 ISHL_64(u64 x, u64 n) {
  if (n >= 64) return VT_bad();
  if (VT_ctl(x)) { u64 r = x << n; if (!VT_ctl(r)) return VT_bad(); return r; }
  if (n == 0) return x;
#if VERIF_DW == 32
  if (n == 32) return x << 32;
#endif
  return VT_bad();
}
static inline u32 ISHL_32(u32 x, u32 n) {
  if (n >= 32) return (u32)VT_bad();
  if (VT_ctl32(x)) { u64 r = VT_sx32(x) << n; if (!VT_ctl(r)) return (u32)VT_bad(); return (u32)r; }
  if (n == 0) return x;
  return (u32)VT_bad();
}
static inline u64 ILSHR_64(u64 x, u64 n) {
  if (n >= 64) return VT_bad();
  if (VT_ctl(x)) return x >> n;
  if (n == 0) return x;
#if VERIF_DW == 32
  if (n == 32) return x >> 32;
#endif
  return VT_bad();
}
static inline u32 ILSHR_32(u32 x, u32 n) {
  if (n >= 32) return (u32)VT_bad();
  if (VT_ctl32(x)) return x >> n;
  if (n == 0) return x;
  return (u32)VT_bad();
}

/* ---- ring reinterpretation of float arithmetic ---- */
#define FADD_32(x, y) IADD_32(x, y)
#define FSUB_32(x, y) ISUB_32(x, y)
#define FMUL_32(x, y) IMUL_32(x, y)
#define FADD_64(x, y) IADD_64(x, y)
#define FSUB_64(x, y) ISUB_64(x, y)
#define FMUL_64(x, y) IMUL_64(x, y)
#define FMA_32(x, y, z) IADD_32(IMUL_32(x, y), z)
#define FMA_64(x, y, z) IADD_64(IMUL_64(x, y), z)
#define FMULADD_32(x, y, z) IADD_32(IMUL_32(x, y), z)
#define FMULADD_64(x, y, z) IADD_64(IMUL_64(x, y), z)
#define FNEG_32(x) ISUB_32(0u, x)
#define FNEG_64(x) ISUB_64(0ULL, x)
#define FC_32(bits, ival, isint) ((isint) ? (u32)(s32)(ival) : (u32)VT_bad())
#define FC_64(bits, ival, isint) ((isint) ? (u64)(s64)(ival) : VT_bad())
#define FDIV_32(x, y) ((u32)VT_bad())
#define FDIV_64(x, y) VT_bad()
#define FABS_32(x) ((u32)VT_bad())
#define FABS_64(x) VT_bad()
#ifdef VERIF_SQ
/* atoms='AA' only: sqrt of a product-class value is an opaque (uninterpreted) function of it -- decides "sqrt is applied
   once to the specified radicand", not that it is correctly rounded */
u32 __CPROVER_uninterpreted_atoms_sqrt32(u32);
u64 __CPROVER_uninterpreted_atoms_sqrt64(u64);
/* (the opaque value is kept in the product class -- low PROD_SHIFT bits cleared -- so that it can be told from poison) */
static inline u32 FSQRT_32(u32 x) { if (!VT_prod(x)) return (u32)VT_bad(); return __CPROVER_uninterpreted_atoms_sqrt32(x) & ~(u32)PROD_MASK; }
static inline u64 FSQRT_64(u64 x) { if (!VT_prod(x)) return VT_bad(); return __CPROVER_uninterpreted_atoms_sqrt64(x) & ~(u64)PROD_MASK; }
#else
#define FSQRT_32(x) ((u32)VT_bad())
#define FSQRT_64(x) VT_bad()
#endif
/* float comparisons: only between control values (e.g. a constant alpha against 1) */
#define VT_FCMP(name, op) \
  static inline u8 FCMP_##name##_32(u32 x, u32 y) { if (!VT_ctl32(x) || !VT_ctl32(y)) return (u8)(VT_hard() & 1); return (u8)((s32)x op (s32)y); } \
  static inline u8 FCMP_##name##_64(u64 x, u64 y) { if (!VT_ctl(x) || !VT_ctl(y)) return (u8)(VT_hard() & 1); return (u8)((s64)x op (s64)y); }
VT_FCMP(oeq, ==) VT_FCMP(ueq, ==) VT_FCMP(one, !=) VT_FCMP(une, !=) VT_FCMP(olt, <) VT_FCMP(ult, <)
VT_FCMP(ole, <=) VT_FCMP(ule, <=) VT_FCMP(ogt, >) VT_FCMP(ugt, >) VT_FCMP(oge, >=) VT_FCMP(uge, >=)
static inline u8 FCMP_ord_32(u32 x, u32 y) { return 1; }
static inline u8 FCMP_ord_64(u64 x, u64 y) { return 1; }
static inline u8 FCMP_uno_32(u32 x, u32 y) { return 0; }
static inline u8 FCMP_uno_64(u64 x, u64 y) { return 0; }
/* conversions: only on control values (constants); the ring image of the integer n is n */
#define CV_sitofp_32_32(x) CTL_32(x)
#define CV_sitofp_32_64(x) ((u64)(s64)(s32)CTL_32(x))
#define CV_sitofp_64_32(x) ((u32)CTL_64(x))
#define CV_sitofp_64_64(x) CTL_64(x)
#define CV_sitofp_8_32(x) ((u32)(s32)(s8)(x))
#define CV_sitofp_8_64(x) ((u64)(s64)(s8)(x))
#define CV_sitofp_16_32(x) ((u32)(s32)(s16)(x))
#define CV_sitofp_16_64(x) ((u64)(s64)(s16)(x))
#define CV_uitofp_32_32(x) CTL_32(x)
#define CV_uitofp_32_64(x) ((u64)CTL_32(x))
#define CV_uitofp_64_32(x) ((u32)CTL_64(x))
#define CV_uitofp_64_64(x) CTL_64(x)
#define CV_uitofp_8_32(x) ((u32)(u8)(x))
#define CV_uitofp_8_64(x) ((u64)(u8)(x))
#define CV_uitofp_16_32(x) ((u32)(u16)(x))
#define CV_uitofp_16_64(x) ((u64)(u16)(x))
#define CV_fptosi_32_32(x) CTL_32(x)
#define CV_fptosi_32_64(x) ((u64)(s64)(s32)CTL_32(x))
#define CV_fptosi_64_32(x) ((u32)CTL_64(x))
#define CV_fptosi_64_64(x) CTL_64(x)
#define CV_fptosi_32_8(x) CTL_32(x)
#define CV_fptosi_64_8(x) CTL_64(x)
#define CV_fptosi_32_16(x) CTL_32(x)
#define CV_fptosi_64_16(x) CTL_64(x)
#define CV_fptoui_32_32(x) CTL_32(x)
#define CV_fptoui_32_64(x) ((u64)CTL_32(x))
#define CV_fptoui_64_32(x) ((u32)CTL_64(x))
#define CV_fptoui_64_64(x) CTL_64(x)
#define CV_fptoui_32_8(x) CTL_32(x)
#define CV_fptoui_64_8(x) CTL_64(x)
#define CV_fptoui_32_16(x) CTL_32(x)
#define CV_fptoui_64_16(x) CTL_64(x)
#define CV_fpext_32_64(x) ((u64)(s64)(s32)CTL_32(x))
#define CV_fptrunc_64_32(x) ((u32)CTL_64(x))
/* the specification side */
#define SPEC_MUL_32(x, y) IMUL_32(x, y)
#define SPEC_MUL_64(x, y) IMUL_64(x, y)
