#!/usr/bin/env python3
"""vf -- driver of the contract-based verification of romeric/Fastor (see /verif/DESIGN.md).

A *case* = one use of the public Fastor API (C++ body of an extern "C" entry) + a contract for it written from
the property text (requires / assigns / ensures as an expression tree) + an arithmetic mode + a build configuration.
Pipeline per case:   unit.cpp --clang++-14--> IR --tools/ir2c.py--> C + contract --goto-cc, goto-instrument --dfcc
                     --enforce-contract--> cbmc --> named obligations.
"""
import os, sys, re, json, time, subprocess, hashlib, shutil, random, struct, traceback
from concurrent.futures import ProcessPoolExecutor, as_completed

HERE = os.path.dirname(os.path.abspath(__file__))
VERIF = os.path.dirname(HERE)
REPO = os.environ.get('VERIF_REPO', '/repo')
sys.path.insert(0, HERE)
import ir2c

# ----------------------------------------------------------------------------------------------
# configurations
# ----------------------------------------------------------------------------------------------
ISA_FLAGS = {
    'scalar': ['-msse2', '-DFASTOR_DONT_VECTORISE'],
    'sse2':   ['-msse2'],
    'sse4.2': ['-msse4.2'],
    'avx':    ['-mavx'],
    'avx2':   ['-mavx2', '-mfma'],
    'avx512': ['-mavx512f', '-mavx512vl', '-mavx512dq', '-mavx512bw', '-mavx512cd', '-mavx2', '-mfma'],
}
ISA_VEC_BYTES = {'scalar': 0, 'sse2': 16, 'sse4.2': 16, 'avx': 32, 'avx2': 32, 'avx512': 64}
GUARD = 'FASTOR_VERIF'
ATOMS_LIKE = ('ATOMS', 'TAGS', 'BASIS')   # modes translated with the typed integer/float operation macros

class Cfg:
    def __init__(s, isa='sse2', std='c++14', macros=(), pipe='P1', checks=False):
        s.isa = isa; s.std = std; s.macros = tuple(macros); s.pipe = pipe; s.checks = checks
    def key(s):
        return (s.isa, s.std, s.macros, s.pipe, s.checks)
    def tag(s):
        t = '%s,%s,%s' % (s.isa, s.std, s.pipe)
        if s.macros: t += ',' + '+'.join(m.replace('FASTOR_', '') for m in s.macros)
        if s.checks: t += ',checks'
        return t
    def cxxflags(s):
        f = ['-std=' + s.std, '-I' + REPO, '-D' + GUARD + '=1'] + ISA_FLAGS[s.isa] + ['-D' + m for m in s.macros]
        f += ['-DFASTOR_ENABLE_RUNTIME_CHECKS=1'] if s.checks else ['-DNDEBUG']
        return f

CLANG_COMMON = ['-S', '-emit-llvm', '-fno-vectorize', '-fno-slp-vectorize', '-fno-unroll-loops', '-ffp-contract=off',
                '-fno-exceptions-dummy']
CLANG_COMMON.remove('-fno-exceptions-dummy')
P0_PASSES = 'always-inline,function(sroa,early-cse,simplifycfg),inline,function(sroa,early-cse,simplifycfg,dce),globaldce'

# ----------------------------------------------------------------------------------------------
# element types
# ----------------------------------------------------------------------------------------------
class Ty:
    def __init__(s, name, cpp, bits, kind, signed=True):
        s.name = name; s.cpp = cpp; s.bits = bits; s.kind = kind; s.signed = signed
        s.carrier = 'u%d' % bits; s.scar = 's%d' % bits
    def __repr__(s): return s.name
INT = Ty('int', 'int', 32, 'int')
UINT = Ty('uint', 'unsigned int', 32, 'int', signed=False)
I64 = Ty('int64', 'long long', 64, 'int')
U64 = Ty('size_t', 'unsigned long', 64, 'int', signed=False)
FLT = Ty('float', 'float', 32, 'float')
DBL = Ty('double', 'double', 64, 'float')
BOOL = Ty('bool', 'bool', 8, 'bool', signed=False)
TYPES = {t.name: t for t in (INT, UINT, I64, U64, FLT, DBL, BOOL)}

# ----------------------------------------------------------------------------------------------
# specification expressions
# ----------------------------------------------------------------------------------------------
class E:
    """Expression tree of a postcondition.  Leaves: pre-state elements of the buffers, scalar arguments,
    constants.  Rendered (a) to CBMC C over bit-pattern carriers, the operators going through the same mode
    macros as the translated code, and (b) to plain C++ for the native replay oracle."""
    def __init__(s, op, ty, args=(), data=None):
        s.op = op; s.ty = ty; s.args = tuple(args); s.data = data
    # leaves
    @staticmethod
    def inp(buf, k):       # pre-state element k of buffer `buf` (k: int or E of integer type)
        return E('in', buf.ty, (), (buf, k))
    @staticmethod
    def post(buf, k):      # post-state element k of an out / inout buffer (only inside boolean clauses)
        return E('post', buf.ty, (), (buf, k))
    @staticmethod
    def arg(sc):           # scalar argument
        return E('arg', sc.ty, (), sc)
    @staticmethod
    def const(v, ty):
        return E('const', ty, (), v)
    def _lift(s, o):
        return o if isinstance(o, E) else E.const(o, s.ty)
    def __add__(s, o): return E('add', s.ty, (s, s._lift(o)))
    def __radd__(s, o): return E('add', s.ty, (s._lift(o), s))
    def __sub__(s, o): return E('sub', s.ty, (s, s._lift(o)))
    def __rsub__(s, o): return E('sub', s.ty, (s._lift(o), s))
    def __mul__(s, o): return E('mul', s.ty, (s, s._lift(o)))
    def __rmul__(s, o): return E('mul', s.ty, (s._lift(o), s))
    def __truediv__(s, o): return E('div', s.ty, (s, s._lift(o)))
    def __rtruediv__(s, o): return E('div', s.ty, (s._lift(o), s))
    def __neg__(s): return E('neg', s.ty, (s,))
    def fabs(s): return E('abs', s.ty, (s,))
    def sqrt(s): return E('sqrt', s.ty, (s,))
    def ringval(s, native=None):
        # ATOMS only: the value is in the product class (no poison reached it).  The native replay oracle, which runs on real
        # integer-valued data, compares with `native` (the specified value) instead, or is true when none is given.
        return E('ringval', BOOL, (s,) if native is None else (s, native))
    @staticmethod
    def fma(a, b, c): return E('fma', a.ty, (a, b, c))   # fused multiply-add a*b+c with one rounding (opaque in every mode)
    def fn(s, name): return E('libm', s.ty, (s,), name)
    def cmp(s, pred, o): return E('cmp', BOOL, (s, s._lift(o)), pred)   # pred in lt le gt ge eq ne
    def same(s, o): return E('same', BOOL, (s, s._lift(o)))   # bit-for-bit equality
    def band(s, o): return E('land', BOOL, (s, o))
    def bor(s, o): return E('lor', BOOL, (s, o))
    def bnot(s): return E('lnot', BOOL, (s,))
    def bitand(s, o): return E('and', s.ty, (s, s._lift(o)))
    def bitor(s, o): return E('or', s.ty, (s, s._lift(o)))
    def bitxor(s, o): return E('xor', s.ty, (s, s._lift(o)))
    @staticmethod
    def sel(c, a, b): return E('sel', a.ty, (c, a, b))
    @staticmethod
    def vmin(a, b): return E('min', a.ty, (a, b))
    @staticmethod
    def vmax(a, b): return E('max', a.ty, (a, b))
    def cast(s, ty): return E('cast', ty, (s,))
    @staticmethod
    def total(terms, ty):
        if not terms: return E.const(0, ty)
        r = terms[0]
        for t in terms[1:]: r = r + t
        return r

    # ---- CBMC rendering -------------------------------------------------------------------
    def c(s, ctx):
        """ctx: dict(mode=..., pre=callable(buf,kexpr)->C expr of pre-state element, argname=callable(sc))."""
        op = s.op; ty = s.ty; mode = ctx['mode']
        A = [a.c(ctx) for a in s.args]
        b = ty.bits; car = ty.carrier
        if op == 'in':
            buf, k = s.data
            ke = k.c(ctx) if isinstance(k, E) else str(k)
            return ctx['pre'](buf, ke)
        if op == 'post':
            buf, k = s.data
            return ctx['post'](buf, k.c(ctx) if isinstance(k, E) else str(k))
        if op == 'arg':
            return ctx['argname'](s.data)
        if op == 'const':
            v = s.data
            if ty.kind == 'float':
                d = float(v)
                if b == 32: bits = struct.unpack('<I', struct.pack('<f', d))[0]
                else: bits = struct.unpack('<Q', struct.pack('<d', d))[0]
                isint = d == int(d) and abs(d) < 2 ** 15 and not (d == 0 and str(d).startswith('-'))
                return 'FC_%d(0x%xULL, %dLL, %d)' % (b, bits, int(d) if isint else 0, 1 if isint else 0)
            return '((%s)%dULL)' % (car, int(v) & ((1 << b) - 1))
        if ty.kind == 'float' and op in ('add', 'sub', 'mul', 'div'):
            return 'F%s_%d(%s, %s)' % (op.upper(), b, A[0], A[1])
        if ty.kind == 'float' and op == 'neg': return 'FNEG_%d(%s)' % (b, A[0])
        if ty.kind == 'float' and op == 'abs': return 'FABS_%d(%s)' % (b, A[0])
        if ty.kind == 'float' and op == 'sqrt': return 'FSQRT_%d(%s)' % (b, A[0])
        if ty.kind == 'float' and op == 'fma': return 'FMA_%d(%s, %s, %s)' % (b, A[0], A[1], A[2])
        if ty.kind == 'float' and op == 'libm': return 'FLIBM_%s_%d(%s)' % (s.data, b, A[0])
        if ty.kind == 'int' and op in ('add', 'sub', 'mul'):
            if mode in ATOMS_LIKE: return 'I%s_%d(%s, %s)' % (op.upper(), b, A[0], A[1])
            return '(%s)(%s %s %s)' % (car, A[0], {'add': '+', 'sub': '-', 'mul': '*'}[op], A[1])
        if ty.kind == 'int' and op == 'div':
            if ty.signed: return '(%s)((%s)%s / (%s)%s)' % (car, ty.scar, A[0], ty.scar, A[1])
            return '(%s)(%s / %s)' % (car, A[0], A[1])
        if ty.kind == 'int' and op == 'neg':
            if mode in ATOMS_LIKE: return 'ISUB_%d((%s)0, %s)' % (b, car, A[0])
            return '(%s)(0 - %s)' % (car, A[0])
        if ty.kind == 'int' and op == 'abs':
            return '(((%s)%s < 0) ? (%s)(0 - %s) : %s)' % (ty.scar, A[0], car, A[0], A[0])
        if op in ('and', 'or', 'xor'):
            return '(%s)(%s %s %s)' % (car, A[0], {'and': '&', 'or': '|', 'xor': '^'}[op], A[1])
        if op == 'cmp':
            at = s.args[0].ty; pred = s.data
            if at.kind == 'float':
                fp = {'lt': 'olt', 'le': 'ole', 'gt': 'ogt', 'ge': 'oge', 'eq': 'oeq', 'ne': 'une'}[pred]
                return 'FCMP_%s_%d(%s, %s)' % (fp, at.bits, A[0], A[1])
            cop = {'lt': '<', 'le': '<=', 'gt': '>', 'ge': '>=', 'eq': '==', 'ne': '!='}[pred]
            if at.signed and at.kind == 'int':
                return '((u8)((%s)%s %s (%s)%s))' % (at.scar, A[0], cop, at.scar, A[1])
            return '((u8)(%s %s %s))' % (A[0], cop, A[1])
        if op == 'same': return '((u8)((%s) == (%s)))' % (A[0], A[1])
        if op == 'ringval': return '((u8)((((u64)(%s)) & PROD_MASK) == 0))' % A[0]
        if op == 'land': return '((u8)((%s) && (%s)))' % (A[0], A[1])
        if op == 'lor': return '((u8)((%s) || (%s)))' % (A[0], A[1])
        if op == 'lnot': return '((u8)(!(%s)))' % A[0]
        if op == 'sel': return '((%s) ? (%s) : (%s))' % (A[0], A[1], A[2])
        if op in ('min', 'max'):
            # definition used throughout: min(a,b) = (b < a) ? b : a  is *not* assumed; the clause generators
            # that need "is the least element" use cmp/sel explicitly.  This node is the C++ std::min/std::max.
            c = E('cmp', BOOL, (s.args[1], s.args[0]) if op == 'min' else (s.args[0], s.args[1]), 'lt').c(ctx)
            return '((%s) ? (%s) : (%s))' % (c, A[1], A[0])
        if op == 'cast':
            st = s.args[0].ty
            if st.kind in ('int', 'bool') and ty.kind in ('int', 'bool'):
                if st.signed and st.kind == 'int' and ty.bits > st.bits:
                    return '((%s)(%s)(%s)%s)' % (car, ty.scar, st.scar, A[0])
                if ty.kind == 'bool': return '((u8)((%s) != 0))' % A[0]
                return '((%s)%s)' % (car, A[0])
            if st.kind in ('int', 'bool') and ty.kind == 'float':
                return 'CV_%s_%d_%d(%s)' % ('sitofp' if st.signed else 'uitofp', st.bits, ty.bits, A[0])
            if st.kind == 'float' and ty.kind == 'int':
                return '((%s)CV_%s_%d_%d(%s))' % (car, 'fptosi' if ty.signed else 'fptoui', st.bits, ty.bits, A[0])
            if st.kind == 'float' and ty.kind == 'float':
                if st.bits == ty.bits: return A[0]
                return 'CV_%s_%d_%d(%s)' % ('fpext' if ty.bits > st.bits else 'fptrunc', st.bits, ty.bits, A[0])
        raise ValueError('E.c: %s on %r' % (op, ty))

    # ---- native C++ rendering -------------------------------------------------------------
    def cpp(s, ctx):
        op = s.op; ty = s.ty
        A = [a.cpp(ctx) for a in s.args]
        if op == 'in':
            buf, k = s.data
            ke = k.cpp(ctx) if isinstance(k, E) else str(k)
            return '%s_pre[%s]' % (buf.name, ke)
        if op == 'post':
            buf, k = s.data
            return '%s[%s]' % (buf.name, k.cpp(ctx) if isinstance(k, E) else str(k))
        if op == 'arg': return s.data.name
        if op == 'const':
            v = s.data
            if ty.kind == 'float':
                return '((%s)%r)' % (ty.cpp, float(v))
            return '((%s)%dLL)' % (ty.cpp, int(v))
        T = ty.cpp
        if op in ('add', 'sub', 'mul', 'div'):
            cop = {'add': '+', 'sub': '-', 'mul': '*', 'div': '/'}[op]
            if ty.kind == 'int' and op != 'div':   # wrap-around arithmetic without signed-overflow UB
                U = 'unsigned long long' if ty.bits == 64 else 'unsigned int'
                return '((%s)((%s)%s %s (%s)%s))' % (T, U, A[0], cop, U, A[1])
            return '((%s)(%s %s %s))' % (T, A[0], cop, A[1])
        if op == 'neg':
            if ty.kind == 'int':
                U = 'unsigned long long' if ty.bits == 64 else 'unsigned int'
                return '((%s)(0 - (%s)%s))' % (T, U, A[0])
            return '(-%s)' % A[0]
        if op == 'abs':
            if ty.kind == 'float': return 'std::fabs(%s)' % A[0]
            U = 'unsigned long long' if ty.bits == 64 else 'unsigned int'
            return '((%s) < 0 ? (%s)(0 - (%s)%s) : %s)' % (A[0], T, U, A[0], A[0])
        if op == 'sqrt': return 'std::sqrt(%s)' % A[0]
        if op == 'fma': return 'std::fma(%s, %s, %s)' % (A[0], A[1], A[2])
        if op == 'libm': return 'std::%s(%s)' % (s.data, A[0])
        if op in ('and', 'or', 'xor'):
            return '((%s)(%s %s %s))' % (T, A[0], {'and': '&', 'or': '|', 'xor': '^'}[op], A[1])
        if op == 'cmp':
            cop = {'lt': '<', 'le': '<=', 'gt': '>', 'ge': '>=', 'eq': '==', 'ne': '!='}[s.data]
            return '(%s %s %s)' % (A[0], cop, A[1])
        if op == 'same': return 'same<%s>(%s, %s)' % (s.args[0].ty.cpp, A[0], A[1])
        if op == 'ringval': return '(true)' if len(A) == 1 else '(%s == %s)' % (A[0], A[1])
        if op == 'land': return '(%s && %s)' % (A[0], A[1])
        if op == 'lor': return '(%s || %s)' % (A[0], A[1])
        if op == 'lnot': return '(!%s)' % A[0]
        if op == 'sel': return '(%s ? %s : %s)' % (A[0], A[1], A[2])
        if op == 'min': return '((%s < %s) ? %s : %s)' % (A[1], A[0], A[1], A[0])
        if op == 'max': return '((%s < %s) ? %s : %s)' % (A[0], A[1], A[1], A[0])
        if op == 'cast': return '((%s)%s)' % (T, A[0])
        raise ValueError('E.cpp: %s' % op)

    def count(s, ops):
        return (1 if s.op in ops else 0) + sum(a.count(ops) for a in s.args)

# ----------------------------------------------------------------------------------------------
# cases
# ----------------------------------------------------------------------------------------------
class Buf:
    """A caller-provided buffer of n elements of type ty.  role: 'in' (read only), 'out' (every element
    specified by an ensures clause; nondeterministic on entry), 'inout'."""
    def __init__(s, name, ty, n, role, atoms=None):
        s.name = name; s.ty = ty; s.n = n; s.role = role
        s.atoms = atoms   # ATOMS mode: 'A' | 'B' | 'LIN' | dict k->('zero'|...) ; None = symbolic

class Scalar:
    """A by-value scalar argument, symbolic within [lo,hi] (inclusive)."""
    def __init__(s, name, ty, lo=None, hi=None):
        s.name = name; s.ty = ty; s.lo = lo; s.hi = hi

class Case:
    def __init__(s, cid, prop, body, bufs, ensures, mode='SYM', cfg=None, scalars=(), requires=(), note='',
                 zero_in=None, pre='', dw=None, unwind=None, replay_values=None, timeout=None, form='dfcc',
                 expect_throw=False, extra_asserts=(), bounded=False, fs_array=None, b01=False):
        s.cid = cid; s.prop = prop; s.body = body; s.bufs = list(bufs); s.ensures = list(ensures)
        s.mode = mode; s.cfg = cfg or Cfg(); s.scalars = list(scalars); s.requires = list(requires)
        s.note = note
        s.zero_in = zero_in or {}     # {bufname: set(k)} input elements constrained to zero (tmatmul triangles)
        s.pre = pre                   # C++ text placed before the entry (helper types)
        s.dw = dw                     # ATOMS data width override
        s.unwind = unwind; s.timeout = timeout; s.form = os.environ.get('VERIF_FORM', form)
        s.replay_values = replay_values
        s.expect_throw = expect_throw
        s.extra_asserts = list(extra_asserts)
        s.fs_array = fs_array
        s.b01 = b01                   # B01: integer inputs are constructed single bits {0,1}; bounded stand-in
        if b01: bounded = True
        s.bounded = bounded           # B01: result is labelled bounded, never counted as proved
    def buf(s, name):
        for b in s.bufs:
            if b.name == name: return b
        raise KeyError(name)
    def safe_id(s):
        return re.sub(r'[^A-Za-z0-9_.-]', '_', s.cid)

def entry_signature(case, name):
    ps = []
    for b in case.bufs:
        ps.append('%s%s *%s' % ('const ' if b.role == 'in' else '', b.ty.cpp, b.name))
    for sc in case.scalars:
        ps.append('%s %s' % (sc.ty.cpp, sc.name))
    return 'extern "C" void %s(%s)' % (name, ', '.join(ps))

def unit_text(cases_named, extra_pre=''):
    """C++ translation unit with one extern "C" entry per case."""
    out = ['#include <Fastor/Fastor.h>', 'using namespace Fastor;', 'enum {I_,J_,K_,L_,M_,N_,O_,P_,Q_,R_};', extra_pre]
    seen = set()
    for name, case in cases_named:
        if case.pre and case.pre not in seen:
            seen.add(case.pre); out.append(case.pre)
    for name, case in cases_named:
        out.append(entry_signature(case, name) + ' {\n' + case.body + '\n}')
    return '\n'.join(out) + '\n'

# ----------------------------------------------------------------------------------------------
# contract text
# ----------------------------------------------------------------------------------------------
def param_c_names(case):
    """translated parameter names: ir2c names parameter i `r_<i>`."""
    names = {}
    i = 0
    for b in case.bufs:
        names[b.name] = 'r_%d' % i; i += 1
    for sc in case.scalars:
        names[sc.name] = 'r_%d' % i; i += 1
    return names

def atom_value(case, b, k):
    """ATOMS: concrete / table value given to input element k of buffer b (C expression)."""
    if k in case.zero_in.get(b.name, ()): return '((%s)0)' % b.ty.carrier
    if case.mode == 'TAGS':
        if b.atoms[0] == 'TR': return '((%s)(1u << (20 + %d)))' % (b.ty.carrier, b.atoms[2] + k // b.atoms[1])   # one operand per row of b.atoms[1] elements
        return '((%s)(1u << (20 + %d)))' % (b.ty.carrier, b.atoms[1])
    if case.mode == 'BASIS':
        if b.atoms[0] == 'TR': return '((%s)(pos_%s_%d == %du))' % (b.ty.carrier, b.name, k // b.atoms[1], k % b.atoms[1])
        return '((%s)(pos_%s == %du))' % (b.ty.carrier, b.name, k)
    if b.atoms in ('A', 'AA'): return '((%s)(ATOM_A0 + %d))' % (b.ty.carrier, b.aoff + k)   # 'AA': A-atoms that may be multiplied with each other (quadratic forms: norm)
    if b.atoms == 'B': return '((%s)(ATOM_B0 + %d))' % (b.ty.carrier, b.aoff + k)
    if b.atoms == 'LIN':
        idx = b.aoff + k
        return '((%s)(((VERIF_W[%d] >> %d) & 1) << PROD_SHIFT))' % (b.ty.carrier, idx // 64, idx % 64)
    raise ValueError('buffer %s has no atoms role' % b.name)

def assign_atom_offsets(case):
    na = nb = 0
    for b in case.bufs:
        if b.atoms in ('A', 'LIN', 'AA'): b.aoff = na; na += b.n
        elif b.atoms == 'B': b.aoff = nb; nb += b.n
    return na, nb

def scalar_requires(case, nm):
    out = []
    for sc in case.scalars:
        x = nm(sc)
        if sc.lo is not None:
            if sc.ty.signed and sc.ty.kind == 'int':
                out.append('((%s)%s >= %d && (%s)%s <= %d)' % (sc.ty.scar, x, sc.lo, sc.ty.scar, x, sc.hi))
            else:
                out.append('(%s >= %dULL && %s <= %dULL)' % (x, sc.lo, x, sc.hi))
    return out

def full_tag(case, outbuf):
    """TAGS mode: the tag every output element must carry = union of the operand tags (degree exactly 1 in every operand)."""
    t = 0
    for b in case.bufs:
        if isinstance(b.atoms, tuple) and b.atoms[0] == 'T': t |= 1 << (20 + b.atoms[1])
        if isinstance(b.atoms, tuple) and b.atoms[0] == 'TR':
            for r in range(b.n // b.atoms[1]): t |= 1 << (20 + b.atoms[2] + r)
    if getattr(case, 'tags_expect_wrong', False): t |= 1 << 30
    return '((%s)%dULL)' % (outbuf.ty.carrier, t)

def contract_text(case, fname='w', mutable_globals=()):
    """DFCC contract clauses for the translated entry."""
    pn = param_c_names(case)
    assign_atom_offsets(case)
    L = []
    for b in case.bufs:
        if case.mode in ATOMS_LIKE or case.b01:
            # provenance-concrete mode: the harness owns exact-extent buffers that already hold the atom ids
            # (is_fresh would replace them by nondeterministic objects and every id would become symbolic)
            L.append('__CPROVER_requires(__CPROVER_%s(%s, %d))' % ('r_ok' if b.role == 'in' else 'rw_ok', pn[b.name], b.n * b.ty.bits // 8))
        else:
            L.append('__CPROVER_requires(__CPROVER_is_fresh(%s, %d))' % (pn[b.name], b.n * b.ty.bits // 8))
    L.append('__CPROVER_requires(VERIF_threw == 0 && VERIF_illtyped == 0%s)' % (' && VERIF_softtyped == 0' if case.mode in ATOMS_LIKE else ''))
    ctx = {'mode': case.mode,
           'argname': lambda sc: pn[sc.name]}
    def pre(buf, ke):
        e = '((%s*)%s)[%s]' % (buf.ty.carrier, pn[buf.name], ke)
        if case.mode in ('ATOMS', 'TAGS') and buf.atoms and ke.isdigit(): return atom_value(case, buf, int(ke))
        return '__CPROVER_old(%s)' % e if buf.role != 'in' else e
    ctx['pre'] = pre
    for r in scalar_requires(case, lambda sc: pn[sc.name]):
        L.append('__CPROVER_requires(%s)' % r)
    if case.b01:
        for b in case.bufs:
            if b.role != 'out' and b.ty.kind == 'int':
                for k in range(b.n):
                    L.append('__CPROVER_requires(((%s*)%s)[%d] <= 1)' % (b.ty.carrier, pn[b.name], k))   # the stated bound of B01
    if case.mode == 'BASIS':
        for b in case.bufs:
            if b.atoms:
                for k in range(b.n):
                    L.append('__CPROVER_requires(((%s*)%s)[%d] <= 1)' % (b.ty.carrier, pn[b.name], k))   # one-hot basis element (built by the harness)
    elif case.mode in ATOMS_LIKE:
        for b in case.bufs:
            if b.atoms:
                for k in range(b.n):
                    L.append('__CPROVER_requires(((%s*)%s)[%d] == %s)' % (b.ty.carrier, pn[b.name], k, atom_value(case, b, k)))
    for b in case.bufs:
        if case.mode in ATOMS_LIKE and b.atoms: continue      # zero elements of atom buffers are part of the atom assignment above
        for k in sorted(case.zero_in.get(b.name, ())):
            L.append('__CPROVER_requires(((%s*)%s)[%d] == 0)' % (b.ty.carrier, pn[b.name], k))
    for r in case.requires:
        L.append('__CPROVER_requires(%s)' % r.c(ctx))
    asg = ['__CPROVER_object_whole(%s)' % pn[b.name] for b in case.bufs if b.role != 'in']
    asg += ['VERIF_threw', 'VERIF_illtyped'] + (['VERIF_softtyped'] if case.mode in ATOMS_LIKE else [])
    # function-local statics of the library (guard variable + cached constant) belong to the frame; the contract
    # describes the first call: guards are 0 on entry (DFCC havocs non-const statics otherwise)
    for g in mutable_globals:
        asg.append(g['name'] if g['scalar'] else '__CPROVER_object_whole(%s)' % g['name'])
        if g['scalar'] and g['zero_init']: L.append('__CPROVER_requires(%s == 0)' % g['name'])
    L.append('__CPROVER_assigns(%s)' % ', '.join(asg))
    if case.mode in ATOMS_LIKE:
        L.append('__CPROVER_ensures(VERIF_illtyped == 0)')      # applicability obligation: postcondition.1
    ctx['post'] = lambda buf, ke: '((%s*)%s)[%s]' % (buf.ty.carrier, pn[buf.name], ke)
    for (b, k, e) in case.ensures:
        if b == 'bool':
            L.append('__CPROVER_ensures(%s)' % e.c(ctx))
        elif case.mode == 'TAGS':
            L.append('__CPROVER_ensures(((%s*)%s)[%d] == %s)' % (b.ty.carrier, pn[b.name], k, full_tag(case, b)))
        else:
            L.append('__CPROVER_ensures(((%s*)%s)[%d] == %s)' % (b.ty.carrier, pn[b.name], k, e.c(ctx)))
    if case.mode in ATOMS_LIKE:
        L.append('__CPROVER_ensures(VERIF_softtyped == 0)')     # diagnostic only (last clause): no operation at all left the typing
    return '\n'.join(L) + '\n'

def dfcc_main(case, fname='w'):
    ps = []
    decl = []
    i = 0
    assign_atom_offsets(case)
    if case.mode == 'BASIS':
        for b in case.bufs:
            if b.atoms and b.atoms[0] == 'TR':
                for r in range(b.n // b.atoms[1]): decl.append('u32 pos_%s_%d = nondet_u32(); __CPROVER_assume(pos_%s_%d < %du);' % (b.name, r, b.name, r, b.atoms[1]))
            elif b.atoms: decl.append('u32 pos_%s = nondet_u32(); __CPROVER_assume(pos_%s < %du);' % (b.name, b.name, b.n))
    for b in case.bufs:
        if case.mode in ATOMS_LIKE or case.b01:
            c = b.ty.carrier
            decl.append('%s %s[%d];' % (c, b.name, b.n))
            for k in range(b.n):
                if case.mode in ATOMS_LIKE and b.atoms: decl.append('%s[%d] = %s;' % (b.name, k, atom_value(case, b, k)))
                elif k in case.zero_in.get(b.name, ()): decl.append('%s[%d] = 0;' % (b.name, k))
                elif case.b01 and b.role != 'out' and b.ty.kind == 'int': decl.append('%s[%d] = (%s)(nondet_u8() & 1);' % (b.name, k, c))
                else: decl.append('%s[%d] = nondet_%s();' % (b.name, k, c))
            decl.append('ptr_t p%d = (ptr_t)%s;' % (i, b.name)); ps.append('p%d' % i); i += 1
            continue
        decl.append('ptr_t p%d;' % i); ps.append('p%d' % i); i += 1
    for sc in case.scalars:
        decl.append('%s p%d = nondet_%s();' % (sc.ty.carrier, i, sc.ty.carrier)); ps.append('p%d' % i); i += 1
    return ('int main(void) {\n  %s\n  %s(%s);\n  __CPROVER_assert(0, "VACUITY-CANARY reachable end of harness");\n  return 0;\n}\n'
            % ('\n  '.join(decl), fname, ', '.join(ps)))

def harness_main(case, fname='w'):
    """Plain-assertion form of the same contract (no DFCC): used to extract counterexample inputs and as the
    stated fallback where contract instrumentation is too slow."""
    L = ['int main(void) {']
    assign_atom_offsets(case)
    if case.mode in ATOMS_LIKE:
        # the 0/1 product table must be nondeterministic: without --dfcc nothing havocs the (zero-initialised) global,
        # every product would be 0 and the clauses would hold vacuously
        L.append('  for (int k = 0; k < VERIF_NWORDS; k++) VERIF_W[k] = nondet_u64();')
    if case.mode == 'BASIS':
        for b in case.bufs:
            if b.atoms and b.atoms[0] == 'TR':
                for r in range(b.n // b.atoms[1]): L.append('  u32 pos_%s_%d = nondet_u32(); __CPROVER_assume(pos_%s_%d < %du);' % (b.name, r, b.name, r, b.atoms[1]))
            elif b.atoms: L.append('  u32 pos_%s = nondet_u32(); __CPROVER_assume(pos_%s < %du);' % (b.name, b.name, b.n))
    for b in case.bufs:
        c = b.ty.carrier
        L.append('  %s %s[%d]; %s %s_pre[%d];' % (c, b.name, b.n, c, b.name, b.n))
        for k in range(b.n):
            if case.mode in ATOMS_LIKE and b.atoms:
                L.append('  %s[%d] = %s;' % (b.name, k, atom_value(case, b, k)))
            elif k in case.zero_in.get(b.name, ()):
                L.append('  %s[%d] = 0;' % (b.name, k))
            elif case.b01 and b.role != 'out' and b.ty.kind == 'int':
                L.append('  %s[%d] = (%s)(nondet_u8() & 1);' % (b.name, k, c))
            else:
                L.append('  %s[%d] = nondet_%s();' % (b.name, k, c))
        L.append('  for (int k = 0; k < %d; k++) %s_pre[k] = %s[k];' % (b.n, b.name, b.name))
    for sc in case.scalars:
        L.append('  %s %s = nondet_%s();' % (sc.ty.carrier, sc.name, sc.ty.carrier))
    ctx = {'mode': case.mode, 'argname': lambda sc: sc.name,
           'pre': lambda buf, ke: '%s_pre[%s]' % (buf.name, ke)}
    for r in scalar_requires(case, lambda sc: sc.name):
        L.append('  __CPROVER_assume(%s);' % r)
    for r in case.requires:
        L.append('  __CPROVER_assume(%s);' % r.c(ctx))
    args = ['(ptr_t)%s' % b.name for b in case.bufs] + [sc.name for sc in case.scalars]
    L.append('  %s(%s);' % (fname, ', '.join(args)))
    if case.mode in ATOMS_LIKE:
        L.append('  __CPROVER_assert(VERIF_illtyped == 0, "post.applicability");')
    n = 0
    ctx['post'] = lambda buf, ke: '%s[%s]' % (buf.name, ke)
    for (b, k, e) in case.ensures:
        n += 1
        if b == 'bool':
            L.append('  __CPROVER_assert(%s, "post.%d %s");' % (e.c(ctx), n, k))
        elif case.mode == 'TAGS':
            L.append('  __CPROVER_assert(%s[%d] == %s, "post.%d %s[%d] carries the full operand tag");' % (b.name, k, full_tag(case, b), n, b.name, k))
        else:
            L.append('  __CPROVER_assert(%s[%d] == %s, "post.%d %s[%d]");' % (b.name, k, e.c(ctx), n, b.name, k))
    for b in case.bufs:
        if b.role == 'in':
            L.append('  for (int k = 0; k < %d; k++) __CPROVER_assert(%s[k] == %s_pre[k], "frame.%s input unchanged");' % (b.n, b.name, b.name, b.name))
    if case.mode in ATOMS_LIKE:
        L.append('  __CPROVER_assert(VERIF_softtyped == 0, "diagnostic.softtyped");')
    L.append('  __CPROVER_assert(0, "VACUITY-CANARY reachable end of harness");')
    L.append('  return 0;\n}')
    return '\n'.join(L) + '\n'

def case_data_bits(case):
    if case.dw: return case.dw
    bs = [b.ty.bits for b in case.bufs if b.ty.bits in (32, 64)]
    return max(bs) if bs and len(set(bs)) == 1 else (min(bs) if bs else 32)

def prelude_text(case):
    t = open(os.path.join(HERE, 'prelude', 'base.h')).read()
    if case.mode == 'BASIS':
        t += open(os.path.join(HERE, 'prelude', 'mode_ring.h')).read()
    elif case.mode in ATOMS_LIKE:
        na, nb = assign_atom_offsets(case)
        dw = case_data_bits(case)
        if case.mode == 'TAGS': na, nb = 1, 0; t += '#define VERIF_TAGS 1\n'
        t += '#define VERIF_NA %d\n#define VERIF_NB %d\n#define VERIF_DW %d\n' % (max(na, 1), nb, dw)
        if any(b.atoms == 'AA' for b in case.bufs): t += '#define VERIF_SQ 1\n'   # squares of A-atoms are table bits (NA entries) + opaque sqrt
        t += open(os.path.join(HERE, 'prelude', 'mode_atoms.h')).read()
    elif case.mode == 'UF':
        t += open(os.path.join(HERE, 'prelude', 'mode_uf.h')).read()
    else:
        t += open(os.path.join(HERE, 'prelude', 'mode_sym.h')).read()
    if case.mode not in ATOMS_LIKE:
        t += open(os.path.join(HERE, 'prelude', 'libm.h')).read()
    return t

# ----------------------------------------------------------------------------------------------
# running tools
# ----------------------------------------------------------------------------------------------
MEM_KB = int(os.environ.get('VERIF_MEM_KB', str(6 * 1024 * 1024)))

def run(cmd, timeout, cwd=None, mem_kb=None):
    """run with a wall-clock and an address-space limit; returns (rc, stdout, stderr, seconds); rc None = timeout."""
    t0 = time.time()
    lim = mem_kb or MEM_KB
    sh = ('ulimit -v %d; exec "$@"' % lim) if lim != 'unlimited' else 'exec "$@"'
    try:
        p = subprocess.run(['bash', '-c', sh, 'x'] + cmd, cwd=cwd, capture_output=True, text=True, timeout=timeout)
        return p.returncode, p.stdout, p.stderr, time.time() - t0
    except subprocess.TimeoutExpired as e:
        return None, (e.stdout or b'').decode('utf8', 'replace') if isinstance(e.stdout, bytes) else (e.stdout or ''), 'TIMEOUT', time.time() - t0

class Undecided(Exception):
    pass

def compile_group(gdir, cfg, named_cases):
    """one clang++ run for all entries of a configuration group -> parsed IR module."""
    os.makedirs(gdir, exist_ok=True)
    cpp = os.path.join(gdir, 'unit.cpp'); ll = os.path.join(gdir, 'unit.ll')
    open(cpp, 'w').write(unit_text(named_cases))
    if cfg.pipe == 'P0':
        ll0 = os.path.join(gdir, 'unit0.ll')
        cmd = ['clang++-14'] + cfg.cxxflags() + ['-O0', '-Xclang', '-disable-O0-optnone'] + CLANG_COMMON + [cpp, '-o', ll0]
        rc, so, se, dt = run(cmd, 600, mem_kb=16 * 1024 * 1024)
        if rc != 0: return None, 'clang++ failed: ' + (se or so)[-3000:], cmd
        cmd2 = ['opt-14', '-S', '-passes=' + P0_PASSES, ll0, '-o', ll]
        rc, so, se, dt2 = run(cmd2, 600, mem_kb=16 * 1024 * 1024)
        if rc != 0: return None, 'opt failed: ' + (se or so)[-3000:], cmd2
        os.unlink(ll0)
    else:
        opt = {'P1': '-O1', 'P2': '-O2', 'P3': '-O3'}[cfg.pipe]
        cmd = ['clang++-14'] + cfg.cxxflags() + [opt] + CLANG_COMMON + [cpp, '-o', ll]
        rc, so, se, dt = run(cmd, 600, mem_kb=16 * 1024 * 1024)
        if rc != 0: return None, 'clang++ failed: ' + (se or so)[-3000:], cmd
    return ll, None, cmd

RESULT_RE = re.compile(r'^\[([^\]]+)\] (?:line \d+ )?(.*): (SUCCESS|FAILURE|UNKNOWN|ERROR)$', re.M)

def cbmc_flags(case, unwind):
    return ['--bounds-check', '--pointer-check', '--div-by-zero-check', '--undefined-shift-check',
            '--unwind', str(unwind), '--unwinding-assertions', '--object-bits', '12', '--slice-formula',
            '--max-field-sensitivity-array-size', str(case.fs_array or 256),
            '--verbosity', '8'] + ['--sat-solver', case_solver(case)]

def case_solver(case):
    """SAT back end: CaDiCaL by default (cbmc's default MiniSat was observed to hang in its second incremental call
    on tiny UF instances and is slower on the adder-equivalence problems here); a unit may set case.solver."""
    return getattr(case, 'solver', None) or os.environ.get('VERIF_SAT', 'cadical')

def default_unwind(case):
    if case.unwind: return case.unwind
    n = max([b.n for b in case.bufs] + [8])
    # goto-style nested loops out of clang (odometer index loops of rank-r views/permutations) are counted by cbmc across
    # the iterations of the enclosing loop: r * n back-edges for rank r <= 6, hence 8n (4n was too small for rank 6, n = 144)
    return 8 * n + 64

def stage_translate(args):
    """worker: compile one configuration group, translate every case in it. Returns list of per-case dicts."""
    gdir, cfg, named = args
    res = []
    t0 = time.time()
    try:
        ll, err, cmd = compile_group(gdir, cfg, named)
    except Exception as e:
        ll, err, cmd = None, 'compile exception: %r' % e, []
    tcompile = time.time() - t0
    if ll is None:
        # try each case alone so that one unit that does not compile does not take the group down
        if len(named) > 1:
            out = []
            for i, (name, case) in enumerate(named):
                out += stage_translate((os.path.join(gdir, 's%d' % i), cfg, [(name, case)]))
            return out
        name, case = named[0]
        return [dict(cid=case.cid, status='COMPILE_ERROR', detail=err, cmd=' '.join(cmd), t_compile=tcompile)]
    try:
        mod = ir2c.parse_module(open(ll).read())
    except ir2c.Unsupported as e:
        return [dict(cid=c.cid, status='UNDECIDED', detail='ir2c parse: %s' % e, t_compile=tcompile) for _, c in named]
    for name, case in named:
        d = dict(cid=case.cid, t_compile=tcompile / len(named), clang_cmd=' '.join(cmd), gdir=gdir, entry=name)
        try:
            t1 = time.time()
            pre = prelude_text(case)
            db = case_data_bits(case)
            pb = [b.ty.bits for b in case.bufs]
            ctext_h, info = ir2c.translate(mod, [name], atoms=(case.mode in ATOMS_LIKE), contracts={}, data_bits=db, param_bits=pb)
            hfile = os.path.join(gdir, name + '.h.c')
            open(hfile, 'w').write(pre + ctext_h + harness_main(case, name))
            d['hfile'] = hfile
            cfile = hfile
            if case.form == 'dfcc':
                ctext, info = ir2c.translate(mod, [name], atoms=(case.mode in ATOMS_LIKE), contracts={name: contract_text(case, name, info.get('mutable_globals', ()))}, data_bits=db, param_bits=pb)
                cfile = os.path.join(gdir, name + '.c')
                open(cfile, 'w').write(pre + ctext + dfcc_main(case, name))
            d.update(status='TRANSLATED', cfile=cfile, info=info, t_ir2c=time.time() - t1)
        except ir2c.Unsupported as e:
            d.update(status='UNDECIDED', detail='ir2c: %s' % e)
        except Exception as e:
            d.update(status='UNDECIDED', detail='translate exception: %s' % traceback.format_exc()[-1500:])
        res.append(d)
    return res

def run_cbmc_on(cfile, entry, form, unwind, timeout, extra=(), mem_kb=None):
    """goto-cc + (goto-instrument --dfcc) + cbmc. returns dict(status, results{name:(desc,verdict)}, log...)"""
    base = cfile[:-2]
    d = dict()
    rc, so, se, dt = run(['goto-cc', cfile, '-o', base + '.gb'], 300)
    d['t_gotocc'] = dt
    if rc != 0:
        d.update(status='UNDECIDED', detail='goto-cc failed: ' + (se + so)[-2000:]); return d
    gb = base + '.gb'
    if form == 'dfcc':
        rc, so, se, dt = run(['goto-instrument', '--dfcc', 'main', '--enforce-contract', entry, gb, base + '.i.gb'], 300)
        d['t_instrument'] = dt
        if rc != 0:
            d.update(status='UNDECIDED', detail='goto-instrument --dfcc failed: ' + (se + so)[-2000:]); return d
        gb = base + '.i.gb'
    cmd = ['cbmc', gb] + list(extra)
    rc, so, se, dt = run(cmd, timeout, mem_kb=mem_kb)
    d['t_cbmc'] = dt; d['cbmc_cmd'] = ' '.join(cmd)
    log = so + '\n' + se
    open(base + '.log', 'w').write(log)
    d['log'] = base + '.log'
    if rc is None:
        d.update(status='UNDECIDED', detail='cbmc timeout after %ds' % timeout); return d
    if rc not in (0, 10):
        d.update(status='UNDECIDED', detail='cbmc rc=%s: %s' % (rc, log[-1500:])); return d
    for pat in ('no body for', 'ignoring forall', 'ignoring exists', 'undefined function'):
        if pat in log:
            # uninterpreted functions legitimately have no body; cbmc does not warn for __CPROVER_uninterpreted_*
            bad = [l for l in log.splitlines() if pat in l and '__CPROVER_uninterpreted' not in l and 'nondet_' not in l]
            if bad:
                d.update(status='UNDECIDED', detail='vacuity guard: ' + bad[0]); return d
    results = {}
    for m in RESULT_RE.finditer(so):
        results[m.group(1)] = (m.group(2), m.group(3))
    d['results'] = results
    m = re.search(r'Runtime Solver: ([\d.]+)s', so); d['t_solver'] = float(m.group(1)) if m else 0.0
    m = re.search(r'Runtime Symex: ([\d.]+)s', so); d['t_symex'] = float(m.group(1)) if m else 0.0
    m = re.search(r'(\d+) variables, (\d+) clauses', so); d['sat_size'] = (int(m.group(1)), int(m.group(2))) if m else None
    d['status'] = 'RAN'
    return d

def classify(case, d):
    """turn cbmc results into PASS / FAIL / UNDECIDED and obligation counts."""
    res = d.get('results', {})
    canary = [k for k, (desc, v) in res.items() if 'VACUITY-CANARY' in desc]
    if not canary:
        d.update(status='UNDECIDED', detail='vacuity guard: canary assertion missing from results'); return
    if res[canary[0]][1] != 'FAILURE':
        d.update(status='UNDECIDED', detail='vacuity guard: end of harness unreachable under the preconditions'); return
    # ATOMS: the last ensures clause / the "diagnostic.softtyped" assertion is informational, not an obligation
    diag = []
    if case.mode in ATOMS_LIKE:
        diag = [k for k, (desc, v) in res.items() if desc.startswith('diagnostic.softtyped')]
        pcs = sorted([k for k, (desc, v) in res.items() if re.match(r'.*\.postcondition\.\d+$', k) and 'ensures' in desc], key=natural_key)
        if pcs and not diag: diag = [pcs[-1]]
    d['soft_illtyped'] = any(res[k][1] != 'SUCCESS' for k in diag)
    obl = {k: v for k, v in res.items() if k not in canary and k not in diag}
    failed = {k: v for k, v in obl.items() if v[1] != 'SUCCESS'}
    d['n_obligations'] = len(obl)
    d['n_discharged'] = len(obl) - len(failed)
    n_post = len([k for k, v in obl.items() if 'ensures' in v[0] or v[0].startswith('post.')])
    need = len(case.ensures) + (1 if case.mode in ATOMS_LIKE else 0)
    if n_post < need:
        d.update(status='UNDECIDED', detail='vacuity guard: %d postcondition obligations for %d clauses' % (n_post, need)); return
    if not failed:
        d['status'] = 'PASS'; return
    unw = [k for k, v in failed.items() if 'unwinding assertion' in v[0]]
    if unw:
        d.update(status='UNDECIDED', detail='unwinding assertion failed (%s): bound too small' % unw[0]); return
    d['failed'] = {k: v[0] for k, v in failed.items()}
    names = []
    for k, (desc, v) in sorted(failed.items(), key=lambda kv: natural_key(kv[0])):
        names.append(describe_obligation(case, k, desc))
    d['failed_names'] = names
    if case.mode in ATOMS_LIKE and (d['soft_illtyped'] or any('applicability' in n for n in names)):
        # some operation left the provenance typing: the abstraction cannot decide; native replay on the real code does
        d['status'] = 'INAPPLICABLE'; d['detail'] = 'ATOMS: an operation left the provenance typing (abstraction not applicable)'; return
    d['status'] = 'FAIL'

def natural_key(s):
    return [int(t) if t.isdigit() else t for t in re.split(r'(\d+)', s)]

def describe_obligation(case, key, desc):
    m = re.match(r'.*\.postcondition\.(\d+)$', key)
    if m and 'ensures' in desc:
        n = int(m.group(1))
        off = 1 if case.mode in ATOMS_LIKE else 0
        if case.mode in ATOMS_LIKE and n == 1: return '%s: applicability (VERIF_illtyped == 0)' % key
        i = n - 1 - off
        if 0 <= i < len(case.ensures):
            b, k, e = case.ensures[i]
            if b == 'bool': return '%s: ensures %s' % (key, k)
            return '%s: ensures %s[%d] == spec' % (key, b.name, k)
    m = re.match(r'post\.(\d+|applicability)', desc)
    if m:
        return '%s: %s' % (key, desc)
    return '%s: %s' % (key, desc)

DFCC_BUDGET = int(os.environ.get('VERIF_DFCC_BUDGET', '45'))

def stage_verify(args):
    """enforce the contract with goto-instrument --dfcc within a time/memory budget; where the instrumented
    program does not fit the budget, check the *same* clauses in assertion form (frame = exact-extent objects +
    inputs unchanged) and say so (form_used='assertion')."""
    case, d, keep = args
    if d['status'] != 'TRANSLATED': return d
    unwind = default_unwind(case)
    timeout = case.timeout or int(os.environ.get('VERIF_CASE_TIMEOUT', '300'))
    form = case.form
    if form == 'dfcc':
        r = run_cbmc_on(d['cfile'], d['entry'], 'dfcc', unwind, min(timeout, DFCC_BUDGET), cbmc_flags(case, unwind), mem_kb=4 * 1024 * 1024)
        det = r.get('detail', '')
        if r['status'] == 'UNDECIDED' and ('timeout' in det or 'rc=6' in det or 'out of memory' in det.lower() or '__CPROVER_contracts' in det or 'rc=-' in det):
            d['dfcc_fallback'] = det[:200]
            d['t_dfcc_wasted'] = r.get('t_cbmc', 0)
            form = 'harness'
        else:
            d.update(r); d['form_used'] = 'dfcc'
    if form == 'harness':
        r = run_cbmc_on(d['hfile'], d['entry'], 'harness', unwind, timeout, cbmc_flags(case, unwind))
        d.update(r); d['form_used'] = 'assertion'
    if d['status'] == 'RAN':
        classify(case, d)
        if d['status'] == 'UNDECIDED' and d.get('form_used') == 'dfcc' and '__CPROVER_contracts' in d.get('detail', ''):
            d['dfcc_fallback'] = d['detail'][:200]
            d['status'] = 'TRANSLATED'
            r = run_cbmc_on(d['hfile'], d['entry'], 'harness', unwind, timeout, cbmc_flags(case, unwind))
            d.update(r); d['form_used'] = 'assertion'
            if d['status'] == 'RAN': classify(case, d)
    d.pop('results', None)
    return d

# ----------------------------------------------------------------------------------------------
# native replay of a failed case on the real code
# ----------------------------------------------------------------------------------------------
def parse_trace_inputs(case, log):
    """pull the harness inputs out of a cbmc --trace text: the harness assigns every input element explicitly."""
    vals = {}
    names = {b.name for b in case.bufs}
    for m in re.finditer(r'^\s+(\w+)\[(\d+)l?\]=(-?\d+)[ul]*\s', log, re.M):
        n, k, v = m.group(1), int(m.group(2)), int(m.group(3))
        if n in names and (n, k) not in vals: vals[(n, k)] = v   # first assignment = the nondet input
    sc = {}
    snames = {s.name for s in case.scalars}
    for m in re.finditer(r'^\s+(\w+)=(-?\d+)[ul]*\s', log, re.M):
        if m.group(1) in snames and m.group(1) not in sc: sc[m.group(1)] = int(m.group(2))
    return vals, sc

def cpp_literal(ty, carrier_value):
    b = ty.bits
    v = carrier_value & ((1 << b) - 1)
    if ty.kind == 'float':
        return 'bits_to_%s(0x%xULL)' % (ty.name, v)
    if ty.kind == 'bool': return '%d' % (1 if v else 0)
    if ty.signed and v >= 1 << (b - 1): v -= 1 << b
    if ty.bits == 64: return '((%s)%d%s)' % (ty.cpp, v, 'LL' if ty.signed else 'ULL') if v != -(1 << 63) else '((%s)(-9223372036854775807LL-1))' % ty.cpp
    return '((%s)%d%s)' % (ty.cpp, v, '' if ty.signed else 'U') if v != -(1 << 31) else '((%s)(-2147483647-1))' % ty.cpp

def replay_source(case, vectors):
    """C++ program: the case's entry on the real headers + oracle from the contract; vectors = list of
    dict(bufs={(name,k):carrier}, scalars={name:val}) explicit inputs; plus seeded generic inputs."""
    L = ['#include <Fastor/Fastor.h>', '#include <cstdio>', '#include <cstring>', '#include <cstdlib>', '#include <cmath>', '#include <cstdint>',
         'using namespace Fastor;', 'enum {I_,J_,K_,L_,M_,N_,O_,P_,Q_,R_};', case.pre,
         entry_signature(case, 'w') + ' {\n' + case.body + '\n}',
         'static float bits_to_float(unsigned long long b){ unsigned u=(unsigned)b; float f; std::memcpy(&f,&u,4); return f; }',
         'static double bits_to_double(unsigned long long b){ double f; std::memcpy(&f,&b,8); return f; }',
         'static unsigned long long rng_state = 88172645463325252ULL;',
         'static unsigned long long rng(){ rng_state ^= rng_state << 13; rng_state ^= rng_state >> 7; rng_state ^= rng_state << 17; return rng_state; }',
         'template<class T> static bool same(T x, T y){ return std::memcmp(&x,&y,sizeof(T))==0; }',
         'template<class T> static void show(const char*n, T v){ unsigned long long b=0; std::memcpy(&b,&v,sizeof(T)); std::printf("%s=%.17g(0x%llx) ", n, (double)v, b); }']
    exact = case.mode in ATOMS_LIKE or case.bounded
    L.append('static int run(int trial, %s) {' % ', '.join(['%s *%s' % (b.ty.cpp, b.name) for b in case.bufs] + ['%s %s' % (s.ty.cpp, s.name) for s in case.scalars]))
    for b in case.bufs:
        L.append('  %s %s_pre[%d]; for (int k=0;k<%d;k++) %s_pre[k]=%s[k];' % (b.ty.cpp, b.name, b.n, b.n, b.name, b.name))
    L.append('  w(%s);' % ', '.join([b.name for b in case.bufs] + [s.name for s in case.scalars]))
    L.append('  int bad = 0;')
    ctx = {}
    for i, (b, k, e) in enumerate(case.ensures):
        if b == 'bool':
            L.append('  { if (!(%s)) { if (!bad) std::printf("MISMATCH trial %%d clause %d: %s\\n", trial); bad++; } }' % (e.cpp(ctx), i + 1, k))
            continue
        L.append('  { %s want = %s; %s got = %s[%d]; if (%s && !(want != want && got != got)) { if (!bad) { std::printf("MISMATCH trial %%d clause %d: %s[%d] ", trial); show("got", got); show("want", want); std::printf("\\n"); } bad++; } }'
                 % (b.ty.cpp, e.cpp(ctx), b.ty.cpp, b.name, k, '!(got == want)' if (exact and b.ty.kind == 'float') else '!same(got, want)', i + 1, b.name, k))
    for b in case.bufs:
        if b.role == 'in':
            L.append('  for (int k=0;k<%d;k++) if (!same(%s[k], %s_pre[k])) { if (!bad) std::printf("MISMATCH trial %%d frame: input %s[%%d] modified\\n", trial, k); bad++; }' % (b.n, b.name, b.name, b.name))
    L.append('  if (bad) { std::printf("INPUT trial %d:", trial);')
    for b in case.bufs:
        L.append('    std::printf(" %s={"); for (int k=0;k<%d;k++) std::printf("%%.17g,", (double)%s_pre[k]); std::printf("}");' % (b.name, b.n, b.name))
    for s_ in case.scalars:
        L.append('    std::printf(" %s=%%lld", (long long)%s);' % (s_.name, s_.name))
    L.append('    std::printf("\\n"); }')
    L.append('  return bad; }')
    L.append('int main(int argc, char **argv) {')
    L.append('  unsigned long long seed = argc > 1 ? std::strtoull(argv[1], 0, 10) : 1; rng_state ^= seed * 0x9E3779B97F4A7C15ULL; if (!rng_state) rng_state = 1;')
    L.append('  int bad = 0, trial = 0;')
    # buffers: exact-extent heap blocks so that an AddressSanitizer build sees any access outside them
    for b in case.bufs:
        L.append('  %s *%s = (%s*)std::malloc(%d * sizeof(%s));' % (b.ty.cpp, b.name, b.ty.cpp, b.n, b.ty.cpp))
    def call():
        return '  bad += run(trial++, %s);' % ', '.join([b.name for b in case.bufs] + [s.name for s in case.scalars])
    for s_ in case.scalars:
        L.append('  %s %s = %s;' % (s_.ty.cpp, s_.name, '0'))
    for vec in vectors:
        for b in case.bufs:
            for k in range(b.n):
                v = vec['bufs'].get((b.name, k), 0)
                L.append('  %s[%d] = %s;' % (b.name, k, cpp_literal(b.ty, v)))
        for s_ in case.scalars:
            L.append('  %s = %s;' % (s_.name, cpp_literal(s_.ty, vec['scalars'].get(s_.name, s_.lo or 0))))
        L.append(call())
    # generic inputs
    L.append('  for (int t = 0; t < 64; t++) {')
    for b in case.bufs:
        zs = sorted(case.zero_in.get(b.name, ()))
        if b.ty.kind == 'float':
            if exact: gen = '(%s)(long long)(rng() %% 19) - 9' % b.ty.cpp
            else: gen = '(t %% 4 == 3) ? bits_to_%s(rng()) : (%s)((long long)(rng() %% 2001) - 1000) / (%s)(1 + rng() %% 7)' % (b.ty.name, b.ty.cpp, b.ty.cpp)
        elif b.ty.kind == 'bool': gen = '(bool)(rng() & 1)'
        else:
            if exact: gen = '(%s)((long long)(rng() %% 19) - 9)' % b.ty.cpp
            else: gen = '(t %% 3 == 0) ? (%s)rng() : (%s)((long long)(rng() %% 41) - 20)' % (b.ty.cpp, b.ty.cpp)
        L.append('    for (int k = 0; k < %d; k++) %s[k] = %s;' % (b.n, b.name, gen))
        for k in zs: L.append('    %s[%d] = 0;' % (b.name, k))
    for s_ in case.scalars:
        if s_.lo is not None:
            L.append('    %s = (%s)(%d + (long long)(rng() %% %d));' % (s_.name, s_.ty.cpp, s_.lo, s_.hi - s_.lo + 1))
    # replay_hook: cases may constrain generic inputs (e.g. duplicate-free index vectors)
    if case.replay_values: L.append(case.replay_values)
    L.append('  ' + call())
    L.append('  }')
    for b in case.bufs: L.append('  std::free(%s);' % b.name)
    L.append('  std::printf("REPLAY trials=%d mismatching=%d\\n", trial, bad);')
    L.append('  return bad ? 1 : 0; }')
    return '\n'.join(x for x in L if x is not None) + '\n'

def native_replay(case, gdir, vectors, seed):
    """build and run the replay program with g++ (the pinned suite's compiler) and clang++ under ASan."""
    out = {'runs': []}
    src = os.path.join(gdir, 'replay_%s.cpp' % case.safe_id())
    open(src, 'w').write(replay_source(case, vectors))
    out['source'] = src
    flags = case.cfg.cxxflags() + ['-ffp-contract=off']
    builds = [('g++ -O2', ['g++', '-O2'] + flags), ('clang++ -O1 -fsanitize=address', ['clang++-14', '-O1', '-fsanitize=address', '-fno-omit-frame-pointer'] + flags)]
    reproduced = False
    for label, cmd in builds:
        exe = src[:-4] + ('.gcc' if label.startswith('g++') else '.asan')
        rc, so, se, dt = run(cmd + [src, '-o', exe], 600, mem_kb=32 * 1024 * 1024 * 4)
        if rc != 0:
            out['runs'].append(dict(build=label, status='build failed', detail=(se or so)[-1500:])); continue
        rc, so, se, dt = run([exe, str(seed)], 120, mem_kb='unlimited')
        text = (so + se)[-4000:]
        bad = (rc == 1 and 'MISMATCH' in so) or 'ERROR: AddressSanitizer' in se or 'runtime error:' in se
        out['runs'].append(dict(build=label, rc=rc, output=text))
        if bad: reproduced = True
        try: os.unlink(exe)
        except OSError: pass
    out['reproduced'] = reproduced
    return out

def stage_replay(args):
    """worker for a failed case: extract a counterexample with the assertion form, replay natively."""
    case, d, seed = args
    gdir = d['gdir']; name = d['entry']
    vectors = []
    rep = {'case': case.cid, 'property': case.prop, 'config': case.cfg.tag(), 'mode': case.mode,
           'failed_obligations': d.get('failed_names', []), 'verifier_log': d.get('log'),
           'cbmc_cmd': d.get('cbmc_cmd'), 'unit': os.path.join(gdir, 'unit.cpp')}
    try:
        log = open(d['log']).read()
        rep['verifier_output_tail'] = '\n'.join(l for l in log.splitlines() if 'FAILURE' in l)[:6000]
    except Exception:
        pass
    if case.mode in ('SYM', 'UF') and not case.bounded:
        try:
            mod = ir2c.parse_module(open(os.path.join(gdir, 'unit.ll')).read())
            ctext, info = ir2c.translate(mod, [name], atoms=False, contracts={}, data_bits=case_data_bits(case), param_bits=[b.ty.bits for b in case.bufs])
            hfile = os.path.join(gdir, name + '.cex.c')
            # counterexample search: drop the (always failing) vacuity canary, otherwise --stop-on-fail may stop at it
            htext = '\n'.join(l for l in harness_main(case, name).split('\n') if 'VACUITY-CANARY' not in l)
            open(hfile, 'w').write(prelude_text(case) + ctext + htext)
            unwind = default_unwind(case)
            r = run_cbmc_on(hfile, name, 'harness', unwind, 300, cbmc_flags(case, unwind) + ['--trace', '--stop-on-fail'])
            if r.get('log'):
                tl = open(r['log']).read()
                if 'VACUITY-CANARY' in tl and tl.count('Violated property') == 1 and 'VACUITY-CANARY' in tl.split('Violated property')[1][:400]:
                    rep['cex_note'] = 'assertion-form harness found no failing clause (only the canary)'
                else:
                    vals, sc = parse_trace_inputs(case, tl)
                    if vals or sc:
                        vectors.append({'bufs': vals, 'scalars': sc})
                        rep['counterexample'] = {'bufs': {'%s[%d]' % k: v for k, v in sorted(vals.items())}, 'scalars': sc}
        except Exception as e:
            rep['cex_error'] = traceback.format_exc()[-800:]
    try:
        nr = native_replay(case, gdir, vectors, seed)
        rep['native'] = nr
        if nr.get('source'):
            rep['replay_source_text'] = open(nr['source']).read()
    except Exception as e:
        rep['native'] = {'error': traceback.format_exc()[-800:], 'reproduced': False}
    d['replay'] = rep
    return d

# ----------------------------------------------------------------------------------------------
# known findings
# ----------------------------------------------------------------------------------------------
def load_known_findings(path=None):
    path = path or os.path.join(VERIF, 'known_findings.txt')
    out = []
    if not os.path.exists(path): return out
    for line in open(path):
        line = line.strip()
        m = re.match(r'finding:\s*property=(\S+)\s+case=(\S+)\s+obligation=(\S+)\s*::\s*(.*)$', line)
        if m: out.append(dict(prop=m.group(1), case=re.compile(m.group(2)), obl=re.compile(m.group(3)), text=m.group(4)))
    return out

def match_finding(findings, case, d):
    names = d.get('failed_names') or [d.get('detail', '')]
    for f in findings:
        if f['prop'] != case.prop or not f['case'].fullmatch(case.cid): continue
        if all(f['obl'].search(n) for n in names): return f
    return None

# ----------------------------------------------------------------------------------------------
# property runner
# ----------------------------------------------------------------------------------------------
TRUSTED_BASE = [
    'clang++-14 front end and the fixed IR pipeline (P1: -O1 -fno-vectorize -fno-slp-vectorize -fno-unroll-loops -ffp-contract=off; P0: -O0 + opt always-inline,sroa,early-cse,simplifycfg,inline,dce)',
    'tools/ir2c.py LLVM-IR -> C translation and its intrinsic table (must-fire: unknown construct => undecided)',
    'tools/prelude/*.h (mode macros, exception/allocation stubs)',
    'CBMC 6.11.0 (goto-cc, goto-instrument --dfcc, cbmc, CaDiCaL SAT back end) and its C library models',
    'GCC code generation is not modelled (clang IR only); strict-aliasing UB is invisible (memory is bytes)',
]
DROPPED = [
    'metadata (!tbaa, !alias.scope, !noalias, !llvm.loop, debug info), parameter/return attributes',
    'poison flags nsw/nuw/exact/inbounds and fast-math flags: integer arithmetic wraps; inbounds replaced by pointer checks on the access',
    'undef/poison and undef shuffle lanes become fresh nondeterministic values',
    'llvm.lifetime/invariant/assume/noalias.scope.decl are no-ops (use-after-scope not detected)',
    'exception edges: invoke = call + normal edge; landingpad/resume = assume(false); __cxa_throw sets VERIF_threw and ends the path',
    'atomic loads / guard variables of function-local statics: single-threaded semantics',
    'empty inline asm (Fastor unused()) dropped',
]
MODE_ASSUMPTIONS = {
    'SYM': 'SYM: element values fully symbolic, real two\'s-complement / IEEE semantics (sqrt and fused multiply-add opaque)',
    'UF': 'UF: fadd fsub fmul fdiv fma sqrt and int<->float conversions are uninterpreted functions on bit patterns (fadd, fmul commutative); a clause proved for every interpretation holds for IEEE-754; machine float arithmetic is otherwise not interpreted',
    'ATOMS': 'ATOMS: provenance-concrete evaluation; proves out[e] equals the specified sum of products for every 0/1 product table and that no operation leaves the provenance typing; the lift to all element values is the linear-form lemma of DESIGN.md section 4 (coefficients compared modulo 2^14 for 32-bit, 2^46 for 64-bit carriers); float units are verified in the ring reinterpretation, i.e. exact for integer-valued data; rounding bounds are not machine-checked',
    'TAGS': 'TAGS: degree typing by concrete tags -- proves every output element is a sum of products with exactly one factor from each operand (multilinear) and that no control decision, address or non-ring operation sees data; paired with a BASIS run of the same code',
    'BASIS': 'BASIS: the code (proved multilinear and oblivious by its TAGS run) is evaluated in the integer ring on every tuple of basis elements at once (each operand one-hot at a symbolic position); a multilinear map is determined by these values (lemma, pen and paper), so the Einstein-sum clauses hold for all element values; float units in the ring reinterpretation (exact for integer-valued data)',
    'B01': 'B01: inputs restricted to {0,1} (exhaustive by SAT); bounded, not counted as proved',
}

def chunks(lst, n):
    for i in range(0, len(lst), n): yield lst[i:i + n]

def make_controls(cases, seed):
    """negative controls (vacuity guard for the whole pipeline): for up to two cases per arithmetic mode, a copy whose first
    postcondition is deliberately falsified, once under contract enforcement and once in assertion form.  Every control
    MUST be refuted by the verifier; a control that verifies means the pipeline proves anything (exit 2)."""
    import copy
    out = []
    per_mode = {}
    rng = random.Random(seed + 77)
    findings = load_known_findings()
    pool = [c for c in cases if c.ensures and not getattr(c, 'safety_only', False)
            and not any(f['prop'] == c.prop and f['case'].fullmatch(c.cid) for f in findings)]   # a recorded defect may satisfy a falsified clause
    rng.shuffle(pool)
    for c in pool:
        if per_mode.get(c.mode, 0) >= 2: continue
        b, k, e = c.ensures[0]
        if b == 'bool': bad = ('bool', 'NEGATED ' + str(k), e.bnot())
        elif b.ty.kind == 'float' and c.mode != 'ATOMS': bad = (b, k, -e)
        elif c.mode == 'TAGS': bad = (b, k, e)
        elif c.mode in ('ATOMS', 'BASIS'): bad = (b, k, e + e)
        elif b.ty.kind == 'bool': bad = (b, k, e.bnot())
        else: bad = (b, k, e + 1)
        per_mode[c.mode] = per_mode.get(c.mode, 0) + 1
        for form in ('dfcc', 'harness'):
            cc = copy.copy(c)
            cc.ensures = [bad] + list(c.ensures[1:])
            cc.cid = c.cid + '#control-' + ('dfcc' if form == 'dfcc' else 'assert')
            cc.form = form; cc.control = True
            if c.mode == 'TAGS': cc.tags_expect_wrong = True
            out.append(cc)
    return out

def run_property(prop, cases, tier, seed, jobs=None, keep=False, group_size=10, level_note='', extra_evidence=None, quiet=False, level='proof'):
    """run all cases of one property; write evidence/<prop>.json; print VIOLATION / KNOWN-FINDING lines; return exit code."""
    t_start = time.time()
    jobs = jobs or int(os.environ.get('VERIF_JOBS', str(os.cpu_count() or 8)))
    work = os.path.join(VERIF, '.work', '%s_%s_%d' % (prop, tier, os.getpid()))
    shutil.rmtree(work, ignore_errors=True); os.makedirs(work)
    rdir = os.path.join(VERIF, 'replays', prop)
    ids = set()
    for c in cases:
        assert c.cid not in ids, 'duplicate case id ' + c.cid
        ids.add(c.cid)
    controls = make_controls(cases, seed) if os.environ.get('VERIF_NO_CONTROLS') is None else []
    real_cases = cases
    cases = list(cases) + controls
    # group by configuration
    groups = {}
    for c in cases: groups.setdefault(c.cfg.key(), []).append(c)
    tasks = []
    gi = 0
    for key, cs in groups.items():
        for ch in chunks(cs, group_size):
            named = [('w%d' % i, c) for i, c in enumerate(ch)]
            tasks.append((os.path.join(work, 'g%d' % gi), ch[0].cfg, named)); gi += 1
    bycid = {c.cid: c for c in cases}
    results = {}
    def log(msg):
        if not quiet: print(msg, flush=True)
    log('[%s] %d cases in %d translation units, %d jobs' % (prop, len(cases), len(tasks), jobs))
    with ProcessPoolExecutor(max_workers=jobs) as ex:
        futs = [ex.submit(stage_translate, t) for t in tasks]
        vf = []
        for f in as_completed(futs):
            for d in f.result():
                results[d['cid']] = d
                if d['status'] == 'TRANSLATED':
                    vf.append(ex.submit(stage_verify, (bycid[d['cid']], d, keep)))
        for f in as_completed(vf):
            d = f.result(); results[d['cid']] = d
        # alternative groups: cases that carry the same `alt_group` state the same clause set for the admissible
        # floating-point evaluation orders of one formula (plain / fused multiply-add variants); the group holds when one
        # member is proved, and only then are the other members' refutations disregarded (they are not run through replay)
        alt_pass = {}; alt_open = {}
        for cid, d in results.items():
            g = getattr(bycid[cid], 'alt_group', None)
            if g and not getattr(bycid[cid], 'control', False):
                alt_pass[g] = alt_pass.get(g, False) or d['status'] == 'PASS'
                alt_open[g] = alt_open.get(g, False) or d['status'] not in ('PASS', 'FAIL')     # a member the verifier did not decide
        # replay stage
        rp = []
        for cid, d in results.items():
            if getattr(bycid[cid], 'alt_group', None) and (alt_pass.get(bycid[cid].alt_group) or alt_open.get(bycid[cid].alt_group)) and not getattr(bycid[cid], 'control', False): continue
            if d['status'] in ('FAIL', 'INAPPLICABLE') and not getattr(bycid[cid], 'control', False):
                rp.append(ex.submit(stage_replay, (bycid[cid], d, seed)))
        for f in as_completed(rp):
            d = f.result(); results[d['cid']] = d
    findings = load_known_findings()
    violations = []; known = []; undecided = []; compile_errors = []
    n_obl = n_dis = 0; n_obl_b = n_dis_b = 0
    t_solver = t_symex = t_cbmc = t_clang = 0.0
    funcs = []; passed = 0; forms = {}; t_wasted = 0.0
    by_mode = {}
    control_report = []
    alt_seen_fail = set(); alt_skipped = 0
    for cid in sorted(results, key=natural_key):
        d = results[cid]; c = bycid[cid]
        st = d['status']
        g = getattr(c, 'alt_group', None)
        if g and not getattr(c, 'control', False) and st != 'PASS':
            if alt_pass.get(g): alt_skipped += 1; continue                 # another admissible evaluation order was proved
            if st in ('FAIL', 'INAPPLICABLE'):
                if alt_open.get(g):                                      # an undecided member could be the evaluation order the code uses
                    if g not in alt_seen_fail: undecided.append((cid, 'alternative group undecided: no member proved, at least one member not decided (timeout)'))
                    alt_seen_fail.add(g); alt_skipped += 1; continue
                if g in alt_seen_fail: alt_skipped += 1; continue        # every member refuted: the first one reports the violation
                alt_seen_fail.add(g)
            elif alt_open.get(g) and g in alt_seen_fail: alt_skipped += 1; continue
        if getattr(c, 'control', False):
            ok = st in ('FAIL', 'INAPPLICABLE')
            control_report.append({'control': cid, 'refuted': ok, 'status': st, 'enforced_by': d.get('form_used'), 'failed': (d.get('failed_names') or [])[:2]})
            if not ok and st == 'PASS':
                undecided.append((cid, 'VACUITY: negative control (deliberately false postcondition) was NOT refuted'))
            continue
        t_solver += d.get('t_solver', 0) or 0; t_symex += d.get('t_symex', 0) or 0; t_cbmc += d.get('t_cbmc', 0) or 0
        t_clang += d.get('t_compile', 0) or 0
        if st in ('PASS', 'FAIL', 'INAPPLICABLE'):
            if c.bounded:
                n_obl_b += d.get('n_obligations', 0); n_dis_b += d.get('n_discharged', 0)
            else:
                n_obl += d.get('n_obligations', 0); n_dis += d.get('n_discharged', 0)
            by_mode[c.mode] = by_mode.get(c.mode, 0) + 1
        if st in ('PASS', 'FAIL', 'INAPPLICABLE'):
            forms[d.get('form_used', '?')] = forms.get(d.get('form_used', '?'), 0) + 1
            t_wasted += d.get('t_dfcc_wasted', 0) or 0
        if st == 'PASS':
            passed += 1
            if len(funcs) < 2000:
                funcs.append({'case': cid, 'entry_functions': d.get('info', {}).get('functions', [])[:6], 'ir_instructions': d.get('info', {}).get('instructions'),
                              'obligations': d.get('n_obligations'), 'mode': c.mode, 'config': c.cfg.tag(),
                              'enforced_by': d.get('form_used'), 'cbmc_s': round(d.get('t_cbmc', 0) or 0, 2)})
        elif st in ('FAIL', 'INAPPLICABLE'):
            rep = d.get('replay', {})
            reproduced = rep.get('native', {}).get('reproduced', False)
            if st == 'INAPPLICABLE' and not reproduced:
                undecided.append((cid, d.get('detail', '') + ' (native replay found no mismatch)')); continue
            f = match_finding(findings, c, d)
            if f:
                known.append((cid, f['text'], d.get('failed_names', [])))
                # a known finding's failed obligations are not "discharged"; they are accounted separately
                continue
            os.makedirs(rdir, exist_ok=True)
            rpath = os.path.join(rdir, c.safe_id() + '.json')
            rep['verdict'] = 'reproduced on the real code' if reproduced else 'no-failing-input-found'
            json.dump(rep, open(rpath, 'w'), indent=1, default=str)
            violations.append((cid, rpath, reproduced, d.get('failed_names', [])))
        elif st == 'COMPILE_ERROR':
            compile_errors.append((cid, d.get('detail', '')))
        else:
            undecided.append((cid, d.get('detail', st)))
    for cid, text, names in known:
        print('KNOWN-FINDING: property=%s %s: %s [%s]' % (prop, cid, text[:150], '; '.join(n.split(':')[0] for n in names[:3])))
    for cid, rpath, reproduced, names in violations:
        print('VIOLATION property=%s replay=%s case=%s obligations=%s%s' % (prop, rpath, cid, '|'.join(n.split(':')[0] for n in names[:4]), '' if reproduced else ' no-failing-input-found'))
    for cid, why in undecided[:40]:
        log('UNDECIDED %s: %s' % (cid, why.replace('\n', ' ')[:300]))
    for cid, why in compile_errors[:20]:
        log('COMPILE-ERROR %s: %s' % (cid, why.replace('\n', ' ')[-400:]))
    wall = time.time() - t_start
    # known findings' failing obligations are excluded from both counters so that discharged == obligations
    # exactly when nothing unexplained failed
    kn_obl = sum(results[cid].get('n_obligations', 0) for cid, _, _ in known if not bycid[cid].bounded)
    kn_dis = sum(results[cid].get('n_discharged', 0) for cid, _, _ in known if not bycid[cid].bounded)
    knb_obl = sum(results[cid].get('n_obligations', 0) for cid, _, _ in known if bycid[cid].bounded)
    knb_dis = sum(results[cid].get('n_discharged', 0) for cid, _, _ in known if bycid[cid].bounded)
    n_obl_b -= knb_obl; n_dis_b -= knb_dis
    kb = sum(1 for cid, _, _ in known if bycid[cid].bounded)
    samples = [f for f in funcs[:3]]
    for cid, rpath, reproduced, names in violations[:3]:
        samples.append({'case': cid, 'failed': names[:5], 'replay': rpath})
    if not samples and cases:
        samples.append({'case': cases[0].cid, 'status': results.get(cases[0].cid, {}).get('status')})
    modes = sorted(by_mode)
    ev = {
        'property_id': prop, 'tier': tier, 'seed': seed, 'level': level,
        'coverage': {
            'obligations': n_obl - kn_obl, 'discharged': n_dis - kn_dis,
            'evaluations': len(real_cases), 'distinct_nontrivial': passed,
            'rule': 'one case = one instantiation (API form, element type, shape/pattern, configuration) with its contract; distinct by case id; non-trivial = at least one postcondition clause or safety obligation was generated and discharged',
            'checker_cmd': 'clang++-14 <cfg> -S -emit-llvm | tools/ir2c.py | goto-cc | goto-instrument --dfcc main --enforce-contract <entry> | cbmc ' + ' '.join(cbmc_flags(cases[0], 'N')) if cases else '',
            'trusted_base': TRUSTED_BASE,
            'backend': 'cbmc 6.11.0 with --sat-solver %s; contracts enforced by goto-instrument --dfcc' % (case_solver(cases[0]) if cases else 'cadical'),
            'cases': len(real_cases), 'cases_proved': passed, 'cases_by_mode': by_mode,
            'cases_by_enforcement': forms,
            'enforcement_note': 'dfcc = contract enforced by goto-instrument --dfcc (requires/assigns/ensures instrumentation); assertion = the same requires/ensures clauses as assume/assert around a call on exact-extent nondeterministic objects, frame checked as inputs-unchanged + pointer checks (used where the DFCC-instrumented program exceeded the %ds / 4 GB budget)' % DFCC_BUDGET,
            'dfcc_seconds_spent_before_fallback': round(t_wasted, 1),
            'cases_undecided': len(undecided), 'cases_compile_error': len(compile_errors), 'cases_known_finding': len(known),
            'undecided': [{'case': c_, 'reason': w[:300]} for c_, w in undecided[:100]],
            'compile_errors': [{'case': c_, 'reason': w[-300:]} for c_, w in compile_errors[:50]],
            'known_findings': [{'case': c_, 'finding': t, 'obligations': n[:4]} for c_, t, n in known[:200]],
            'bounded_obligations': n_obl_b, 'bounded_discharged': n_dis_b,
            'solver_seconds': round(t_solver, 2), 'symex_seconds': round(t_symex, 2), 'cbmc_seconds_total': round(t_cbmc, 2), 'clang_seconds_total': round(t_clang, 2),
            'functions_under_contract': funcs[:400],
            'functions_under_contract_total': len(funcs),
            'configurations': sorted({c.cfg.tag() for c in cases}),
            'extraction_drops': DROPPED,
            'alternative_groups': {'groups': len(alt_pass), 'groups_with_a_proved_member': sum(1 for v in alt_pass.values() if v), 'members_disregarded': alt_skipped,
                                   'note': 'members of a group state one formula under the admissible floating-point evaluation orders (plain, or one product fused into an FMA); a group holds when one member is proved'},
            'negative_controls': control_report,
            'negative_controls_note': 'copies of real cases with the first postcondition falsified; each must be refuted (under --dfcc and in assertion form); not counted as obligations',
            'samples': samples,
            'exhaustive': False,
            'explanation': level_note,
        },
        'assumptions': TRUSTED_BASE + [MODE_ASSUMPTIONS[m] for m in modes if m in MODE_ASSUMPTIONS] + scan_assumes(),
        'wall_s': round(wall, 1),
        'violations': len(violations),
    }
    if extra_evidence: ev['coverage'].update(extra_evidence)
    evdir = os.path.join(VERIF, 'evidence', '.partial') if os.environ.get('VERIF_PARTIAL') else os.path.join(VERIF, 'evidence')
    os.makedirs(evdir, exist_ok=True)
    json.dump(ev, open(os.path.join(evdir, prop + '.json'), 'w'), indent=1, default=str)
    log('[%s] %s: cases=%d proved=%d known=%d violations=%d undecided=%d compile_errors=%d obligations=%d discharged=%d wall=%.0fs'
        % (prop, tier, len(real_cases), passed, len(known), len(violations), len(undecided), len(compile_errors), n_obl - kn_obl, n_dis - kn_dis, wall)
        + ' controls_refuted=%d/%d' % (sum(1 for c_ in control_report if c_['refuted']), len(control_report)))
    if not keep: shutil.rmtree(work, ignore_errors=True)
    if violations: return 1
    if compile_errors or undecided:
        hard = [u for u in undecided if 'timeout' not in u[1] and 'out of memory' not in u[1].lower()] + compile_errors
        if hard: return 2
    return 0

_ASSUME_CACHE = None
def scan_assumes():
    """mechanical scan: every __CPROVER_assume in the fixed prelude / translator text."""
    global _ASSUME_CACHE
    if _ASSUME_CACHE is not None: return _ASSUME_CACHE
    out = []
    for root in (os.path.join(HERE, 'prelude'), HERE):
        for fn in sorted(os.listdir(root)):
            p = os.path.join(root, fn)
            if not os.path.isfile(p) or not fn.endswith(('.h', '.py')): continue
            for i, line in enumerate(open(p), 1):
                if '__CPROVER_assume(' in line and 'scan' not in line and '#define __CPROVER_assume' not in line:
                    out.append('assume at tools/%s:%d: %s' % (os.path.relpath(p, HERE), i, line.strip()[:140]))
    _ASSUME_CACHE = out
    return out

# ----------------------------------------------------------------------------------------------
# violations found by a module's own supporting static check (C06 acceptance matrix)
# ----------------------------------------------------------------------------------------------
class _Pseudo:
    def __init__(s, prop, cid): s.prop = prop; s.cid = cid

def merge_extra_violations(prop, extra, viols, rc):
    """viols: list of dict(case=<id>, names=[obligation-like strings], replay=<json-able dict>).  Applies the known-findings
    file, prints KNOWN-FINDING / VIOLATION lines, merges `extra` and the counts into evidence/<prop>.json; returns exit code."""
    findings = load_known_findings()
    evp = os.path.join(VERIF, 'evidence', '.partial' if os.environ.get('VERIF_PARTIAL') else '', prop + '.json')
    ev = json.load(open(evp))
    nv = 0; known = []
    for v in viols:
        d = {'failed_names': v['names']}
        f = match_finding(findings, _Pseudo(prop, v['case']), d)
        if f:
            print('KNOWN-FINDING: property=%s %s: %s [%s]' % (prop, v['case'], f['text'][:150], '; '.join(v['names'][:3])[:200]))
            known.append({'case': v['case'], 'finding': f['text'], 'obligations': v['names'][:6]})
            continue
        rdir = os.path.join(VERIF, 'replays', prop); os.makedirs(rdir, exist_ok=True)
        rpath = os.path.join(rdir, re.sub(r'[^A-Za-z0-9_.-]', '_', v['case']) + '.json')
        json.dump(v['replay'], open(rpath, 'w'), indent=1, default=str)
        print('VIOLATION property=%s replay=%s case=%s obligations=%s no-failing-input-found' % (prop, rpath, v['case'], '|'.join(v['names'][:3])[:200].replace(' ', '_')))
        nv += 1
    ev['coverage'].update(extra)
    ev['coverage']['known_findings'] = ev['coverage'].get('known_findings', []) + known
    ev['coverage']['cases_known_finding'] = ev['coverage'].get('cases_known_finding', 0) + len(known)
    ev['violations'] = ev.get('violations', 0) + nv
    json.dump(ev, open(evp, 'w'), indent=1, default=str)
    if nv: return 1
    return rc

def multilinear_cases(case):
    """For code that is multilinear in k >= 2 operands (network einsum, product chains, determinants by rows): the pair
    of runs (TAGS, BASIS) that together prove the case's Einstein-sum clauses for all element values.  The operand
    buffers must have atoms=('T', i) with distinct i."""
    import copy
    t = copy.copy(case); t.mode = 'TAGS'; t.cid = case.cid + '#tags'; t.b01 = False; t.bounded = False
    b = copy.copy(case); b.mode = 'BASIS'; b.cid = case.cid + '#basis'; b.b01 = False; b.bounded = False
    return [t, b]
