#!/usr/bin/env python3
"""vf -- driver of the contract-based verification of romeric/Fastor (see /verif/DESIGN.md).

A *case* = one use of the public Fastor API (C++ body of an extern "C" entry) + a contract for it written from
the property text (requires / assigns / ensures as an expression tree) + an arithmetic mode + a build configuration.
Pipeline per case:   unit.cpp --clang++-14--> IR --tools/ir2c.py--> C + contract --goto-cc, goto-instrument --dfcc
                     --enforce-contract--> cbmc --> named obligations.
"""
import os, sys, re, json, time, subprocess, hashlib, shutil, random, struct, traceback
from concurrent.futures import ProcessPoolExecutor, as_completed

HERE = os.path.dirname(os.path.abspath(__file__))
VERIF = os.path.dirname(HERE)
REPO = os.environ.get('VERIF_REPO', '/repo')
sys.path.insert(0, HERE)
import ir2c

# ----------------------------------------------------------------------------------------------
# configurations
# ----------------------------------------------------------------------------------------------
ISA_FLAGS = {
    'scalar': ['-msse2', '-DFASTOR_DONT_VECTORISE'],
    'sse2':   ['-msse2'],
    'sse4.2': ['-msse4.2'],
    'avx':    ['-mavx'],
    'avx2':   ['-mavx2', '-mfma'],
    'avx512': ['-mavx512f', '-mavx512vl', '-mavx512dq', '-mavx512bw', '-mavx512cd', '-mavx2', '-mfma'],
}
ISA_VEC_BYTES = {'scalar': 0, 'sse2': 16, 'sse4.2': 16, 'avx': 32, 'avx2': 32, 'avx512': 64}
GUARD = 'FASTOR_VERIF'

class Cfg:
    def __init__(s, isa='sse2', std='c++14', macros=(), pipe='P1', checks=False):
        s.isa = isa; s.std = std; s.macros = tuple(macros); s.pipe = pipe; s.checks = checks
    def key(s):
        return (s.isa, s.std, s.macros, s.pipe, s.checks)
    def tag(s):
        t = '%s,%s,%s' % (s.isa, s.std, s.pipe)
        if s.macros: t += ',' + '+'.join(m.replace('FASTOR_', '') for m in s.macros)
        if s.checks: t += ',checks'
        return t
    def cxxflags(s):
        f = ['-std=' + s.std, '-I' + REPO, '-D' + GUARD + '=1'] + ISA_FLAGS[s.isa] + ['-D' + m for m in s.macros]
        f += ['-DFASTOR_ENABLE_RUNTIME_CHECKS=1'] if s.checks else ['-DNDEBUG']
        return f

CLANG_COMMON = ['-S', '-emit-llvm', '-fno-vectorize', '-fno-slp-vectorize', '-fno-unroll-loops', '-ffp-contract=off',
                '-fno-exceptions-dummy']
CLANG_COMMON.remove('-fno-exceptions-dummy')
P0_PASSES = 'always-inline,function(sroa,early-cse,simplifycfg),inline,function(sroa,early-cse,simplifycfg,dce),globaldce'

# ----------------------------------------------------------------------------------------------
# element types
# ----------------------------------------------------------------------------------------------
class Ty:
    def __init__(s, name, cpp, bits, kind, signed=True):
        s.name = name; s.cpp = cpp; s.bits = bits; s.kind = kind; s.signed = signed
        s.carrier = 'u%d' % bits; s.scar = 's%d' % bits
    def __repr__(s): return s.name
INT = Ty('int', 'int', 32, 'int')
UINT = Ty('uint', 'unsigned int', 32, 'int', signed=False)
I64 = Ty('int64', 'long long', 64, 'int')
U64 = Ty('size_t', 'unsigned long', 64, 'int', signed=False)
FLT = Ty('float', 'float', 32, 'float')
DBL = Ty('double', 'double', 64, 'float')
BOOL = Ty('bool', 'bool', 8, 'bool', signed=False)
TYPES = {t.name: t for t in (INT, UINT, I64, U64, FLT, DBL, BOOL)}

# ----------------------------------------------------------------------------------------------
# specification expressions
# ----------------------------------------------------------------------------------------------
class E:
    """Expression tree of a postcondition.  Leaves: pre-state elements of the buffers, scalar arguments,
    constants.  Rendered (a) to CBMC C over bit-pattern carriers, the operators going through the same mode
    macros as the translated code, and (b) to plain C++ for the native replay oracle."""
    def __init__(s, op, ty, args=(), data=None):
        s.op = op; s.ty = ty; s.args = tuple(args); s.data = data
    # leaves
    @staticmethod
    def inp(buf, k):       # pre-state element k of buffer `buf` (k: int or E of integer type)
        return E('in', buf.ty, (), (buf, k))
    @staticmethod
    def arg(sc):           # scalar argument
        return E('arg', sc.ty, (), sc)
    @staticmethod
    def const(v, ty):
        return E('const', ty, (), v)
    def _lift(s, o):
        return o if isinstance(o, E) else E.const(o, s.ty)
    def __add__(s, o): return E('add', s.ty, (s, s._lift(o)))
    def __radd__(s, o): return E('add', s.ty, (s._lift(o), s))
    def __sub__(s, o): return E('sub', s.ty, (s, s._lift(o)))
    def __rsub__(s, o): return E('sub', s.ty, (s._lift(o), s))
    def __mul__(s, o): return E('mul', s.ty, (s, s._lift(o)))
    def __rmul__(s, o): return E('mul', s.ty, (s._lift(o), s))
    def __truediv__(s, o): return E('div', s.ty, (s, s._lift(o)))
    def __rtruediv__(s, o): return E('div', s.ty, (s._lift(o), s))
    def __neg__(s): return E('neg', s.ty, (s,))
    def fabs(s): return E('abs', s.ty, (s,))
    def sqrt(s): return E('sqrt', s.ty, (s,))
    def fn(s, name): return E('libm', s.ty, (s,), name)
    def cmp(s, pred, o): return E('cmp', BOOL, (s, s._lift(o)), pred)   # pred in lt le gt ge eq ne
    def band(s, o): return E('land', BOOL, (s, o))
    def bor(s, o): return E('lor', BOOL, (s, o))
    def bnot(s): return E('lnot', BOOL, (s,))
    def bitand(s, o): return E('and', s.ty, (s, s._lift(o)))
    def bitor(s, o): return E('or', s.ty, (s, s._lift(o)))
    def bitxor(s, o): return E('xor', s.ty, (s, s._lift(o)))
    @staticmethod
    def sel(c, a, b): return E('sel', a.ty, (c, a, b))
    @staticmethod
    def vmin(a, b): return E('min', a.ty, (a, b))
    @staticmethod
    def vmax(a, b): return E('max', a.ty, (a, b))
    def cast(s, ty): return E('cast', ty, (s,))
    @staticmethod
    def total(terms, ty):
        if not terms: return E.const(0, ty)
        r = terms[0]
        for t in terms[1:]: r = r + t
        return r

    # ---- CBMC rendering -------------------------------------------------------------------
    def c(s, ctx):
        """ctx: dict(mode=..., pre=callable(buf,kexpr)->C expr of pre-state element, argname=callable(sc))."""
        op = s.op; ty = s.ty; mode = ctx['mode']
        A = [a.c(ctx) for a in s.args]
        b = ty.bits; car = ty.carrier
        if op == 'in':
            buf, k = s.data
            ke = k.c(ctx) if isinstance(k, E) else str(k)
            return ctx['pre'](buf, ke)
        if op == 'arg':
            return ctx['argname'](s.data)
        if op == 'const':
            v = s.data
            if ty.kind == 'float':
                d = float(v)
                if b == 32: bits = struct.unpack('<I', struct.pack('<f', d))[0]
                else: bits = struct.unpack('<Q', struct.pack('<d', d))[0]
                isint = d == int(d) and abs(d) < 2 ** 15 and not (d == 0 and str(d).startswith('-'))
                return 'FC_%d(0x%xULL, %dLL, %d)' % (b, bits, int(d) if isint else 0, 1 if isint else 0)
            return '((%s)%dULL)' % (car, int(v) & ((1 << b) - 1))
        if ty.kind == 'float' and op in ('add', 'sub', 'mul', 'div'):
            return 'F%s_%d(%s, %s)' % (op.upper(), b, A[0], A[1])
        if ty.kind == 'float' and op == 'neg': return 'FNEG_%d(%s)' % (b, A[0])
        if ty.kind == 'float' and op == 'abs': return 'FABS_%d(%s)' % (b, A[0])
        if ty.kind == 'float' and op == 'sqrt': return 'FSQRT_%d(%s)' % (b, A[0])
        if ty.kind == 'float' and op == 'libm': return 'FLIBM_%s_%d(%s)' % (s.data, b, A[0])
        if ty.kind == 'int' and op in ('add', 'sub', 'mul'):
            if mode == 'ATOMS': return 'I%s_%d(%s, %s)' % (op.upper(), b, A[0], A[1])
            return '(%s)(%s %s %s)' % (car, A[0], {'add': '+', 'sub': '-', 'mul': '*'}[op], A[1])
        if ty.kind == 'int' and op == 'div':
            if ty.signed: return '(%s)((%s)%s / (%s)%s)' % (car, ty.scar, A[0], ty.scar, A[1])
            return '(%s)(%s / %s)' % (car, A[0], A[1])
        if ty.kind == 'int' and op == 'neg':
            if mode == 'ATOMS': return 'ISUB_%d((%s)0, %s)' % (b, car, A[0])
            return '(%s)(0 - %s)' % (car, A[0])
        if ty.kind == 'int' and op == 'abs':
            return '(((%s)%s < 0) ? (%s)(0 - %s) : %s)' % (ty.scar, A[0], car, A[0], A[0])
        if op in ('and', 'or', 'xor'):
            return '(%s)(%s %s %s)' % (car, A[0], {'and': '&', 'or': '|', 'xor': '^'}[op], A[1])
        if op == 'cmp':
            at = s.args[0].ty; pred = s.data
            if at.kind == 'float':
                fp = {'lt': 'olt', 'le': 'ole', 'gt': 'ogt', 'ge': 'oge', 'eq': 'oeq', 'ne': 'une'}[pred]
                return 'FCMP_%s_%d(%s, %s)' % (fp, at.bits, A[0], A[1])
            cop = {'lt': '<', 'le': '<=', 'gt': '>', 'ge': '>=', 'eq': '==', 'ne': '!='}[pred]
            if at.signed and at.kind == 'int':
                return '((u8)((%s)%s %s (%s)%s))' % (at.scar, A[0], cop, at.scar, A[1])
            return '((u8)(%s %s %s))' % (A[0], cop, A[1])
        if op == 'land': return '((u8)((%s) && (%s)))' % (A[0], A[1])
        if op == 'lor': return '((u8)((%s) || (%s)))' % (A[0], A[1])
        if op == 'lnot': return '((u8)(!(%s)))' % A[0]
        if op == 'sel': return '((%s) ? (%s) : (%s))' % (A[0], A[1], A[2])
        if op in ('min', 'max'):
            # definition used throughout: min(a,b) = (b < a) ? b : a  is *not* assumed; the clause generators
            # that need "is the least element" use cmp/sel explicitly.  This node is the C++ std::min/std::max.
            c = E('cmp', BOOL, (s.args[1], s.args[0]) if op == 'min' else (s.args[0], s.args[1]), 'lt').c(ctx)
            return '((%s) ? (%s) : (%s))' % (c, A[1], A[0])
        if op == 'cast':
            st = s.args[0].ty
            if st.kind in ('int', 'bool') and ty.kind in ('int', 'bool'):
                if st.signed and st.kind == 'int' and ty.bits > st.bits:
                    return '((%s)(%s)(%s)%s)' % (car, ty.scar, st.scar, A[0])
                if ty.kind == 'bool': return '((u8)((%s) != 0))' % A[0]
                return '((%s)%s)' % (car, A[0])
            if st.kind in ('int', 'bool') and ty.kind == 'float':
                return 'CV_%s_%d_%d(%s)' % ('sitofp' if st.signed else 'uitofp', st.bits, ty.bits, A[0])
            if st.kind == 'float' and ty.kind == 'int':
                return '((%s)CV_%s_%d_%d(%s))' % (car, 'fptosi' if ty.signed else 'fptoui', st.bits, ty.bits, A[0])
            if st.kind == 'float' and ty.kind == 'float':
                if st.bits == ty.bits: return A[0]
                return 'CV_%s_%d_%d(%s)' % ('fpext' if ty.bits > st.bits else 'fptrunc', st.bits, ty.bits, A[0])
        raise ValueError('E.c: %s on %r' % (op, ty))

    # ---- native C++ rendering -------------------------------------------------------------
    def cpp(s, ctx):
        op = s.op; ty = s.ty
        A = [a.cpp(ctx) for a in s.args]
        if op == 'in':
            buf, k = s.data
            ke = k.cpp(ctx) if isinstance(k, E) else str(k)
            return '%s_pre[%s]' % (buf.name, ke)
        if op == 'arg': return s.data.name
        if op == 'const':
            v = s.data
            if ty.kind == 'float':
                return '((%s)%r)' % (ty.cpp, float(v))
            return '((%s)%dLL)' % (ty.cpp, int(v))
        T = ty.cpp
        if op in ('add', 'sub', 'mul', 'div'):
            cop = {'add': '+', 'sub': '-', 'mul': '*', 'div': '/'}[op]
            if ty.kind == 'int' and op != 'div':   # wrap-around arithmetic without signed-overflow UB
                U = 'unsigned long long' if ty.bits == 64 else 'unsigned int'
                return '((%s)((%s)%s %s (%s)%s))' % (T, U, A[0], cop, U, A[1])
            return '((%s)(%s %s %s))' % (T, A[0], cop, A[1])
        if op == 'neg':
            if ty.kind == 'int':
                U = 'unsigned long long' if ty.bits == 64 else 'unsigned int'
                return '((%s)(0 - (%s)%s))' % (T, U, A[0])
            return '(-%s)' % A[0]
        if op == 'abs':
            if ty.kind == 'float': return 'std::fabs(%s)' % A[0]
            U = 'unsigned long long' if ty.bits == 64 else 'unsigned int'
            return '((%s) < 0 ? (%s)(0 - (%s)%s) : %s)' % (A[0], T, U, A[0], A[0])
        if op == 'sqrt': return 'std::sqrt(%s)' % A[0]
        if op == 'libm': return 'std::%s(%s)' % (s.data, A[0])
        if op in ('and', 'or', 'xor'):
            return '((%s)(%s %s %s))' % (T, A[0], {'and': '&', 'or': '|', 'xor': '^'}[op], A[1])
        if op == 'cmp':
            cop = {'lt': '<', 'le': '<=', 'gt': '>', 'ge': '>=', 'eq': '==', 'ne': '!='}[s.data]
            return '(%s %s %s)' % (A[0], cop, A[1])
        if op == 'land': return '(%s && %s)' % (A[0], A[1])
        if op == 'lor': return '(%s || %s)' % (A[0], A[1])
        if op == 'lnot': return '(!%s)' % A[0]
        if op == 'sel': return '(%s ? %s : %s)' % (A[0], A[1], A[2])
        if op == 'min': return '((%s < %s) ? %s : %s)' % (A[1], A[0], A[1], A[0])
        if op == 'max': return '((%s < %s) ? %s : %s)' % (A[0], A[1], A[1], A[0])
        if op == 'cast': return '((%s)%s)' % (T, A[0])
        raise ValueError('E.cpp: %s' % op)

    def count(s, ops):
        return (1 if s.op in ops else 0) + sum(a.count(ops) for a in s.args)

# ----------------------------------------------------------------------------------------------
# cases
# ----------------------------------------------------------------------------------------------
class Buf:
    """A caller-provided buffer of n elements of type ty.  role: 'in' (read only), 'out' (every element
    specified by an ensures clause; nondeterministic on entry), 'inout'."""
    def __init__(s, name, ty, n, role, atoms=None):
        s.name = name; s.ty = ty; s.n = n; s.role = role
        s.atoms = atoms   # ATOMS mode: 'A' | 'B' | 'LIN' | dict k->('zero'|...) ; None = symbolic

class Scalar:
    """A by-value scalar argument, symbolic within [lo,hi] (inclusive)."""
    def __init__(s, name, ty, lo=None, hi=None):
        s.name = name; s.ty = ty; s.lo = lo; s.hi = hi

class Case:
    def __init__(s, cid, prop, body, bufs, ensures, mode='SYM', cfg=None, scalars=(), requires=(), note='',
                 zero_in=None, pre='', dw=None, unwind=None, replay_values=None, timeout=None, form='dfcc',
                 expect_throw=False, extra_asserts=(), bounded=False, fs_array=None):
        s.cid = cid; s.prop = prop; s.body = body; s.bufs = list(bufs); s.ensures = list(ensures)
        s.mode = mode; s.cfg = cfg or Cfg(); s.scalars = list(scalars); s.requires = list(requires)
        s.note = note
        s.zero_in = zero_in or {}     # {bufname: set(k)} input elements constrained to zero (tmatmul triangles)
        s.pre = pre                   # C++ text placed before the entry (helper types)
        s.dw = dw                     # ATOMS data width override
        s.unwind = unwind; s.timeout = timeout; s.form = form
        s.replay_values = replay_values
        s.expect_throw = expect_throw
        s.extra_asserts = list(extra_asserts)
        s.fs_array = fs_array
        s.bounded = bounded           # B01: result is labelled bounded, never counted as proved
    def buf(s, name):
        for b in s.bufs:
            if b.name == name: return b
        raise KeyError(name)
    def safe_id(s):
        return re.sub(r'[^A-Za-z0-9_.-]', '_', s.cid)

def entry_signature(case, name):
    ps = []
    for b in case.bufs:
        ps.append('%s%s *%s' % ('const ' if b.role == 'in' else '', b.ty.cpp, b.name))
    for sc in case.scalars:
        ps.append('%s %s' % (sc.ty.cpp, sc.name))
    return 'extern "C" void %s(%s)' % (name, ', '.join(ps))

def unit_text(cases_named, extra_pre=''):
    """C++ translation unit with one extern "C" entry per case."""
    out = ['#include <Fastor/Fastor.h>', 'using namespace Fastor;', 'enum {I_,J_,K_,L_,M_,N_,O_,P_,Q_,R_};', extra_pre]
    seen = set()
    for name, case in cases_named:
        if case.pre and case.pre not in seen:
            seen.add(case.pre); out.append(case.pre)
    for name, case in cases_named:
        out.append(entry_signature(case, name) + ' {\n' + case.body + '\n}')
    return '\n'.join(out) + '\n'

# ----------------------------------------------------------------------------------------------
# contract text
# ----------------------------------------------------------------------------------------------
def param_c_names(case):
    """translated parameter names: ir2c names parameter i `r_<i>`."""
    names = {}
    i = 0
    for b in case.bufs:
        names[b.name] = 'r_%d' % i; i += 1
    for sc in case.scalars:
        names[sc.name] = 'r_%d' % i; i += 1
    return names

def atom_value(case, b, k):
    """ATOMS: concrete / table value given to input element k of buffer b (C expression)."""
    if k in case.zero_in.get(b.name, ()): return '((%s)0)' % b.ty.carrier
    if b.atoms == 'A': return '((%s)(ATOM_A0 + %d))' % (b.ty.carrier, b.aoff + k)
    if b.atoms == 'B': return '((%s)(ATOM_B0 + %d))' % (b.ty.carrier, b.aoff + k)
    if b.atoms == 'LIN':
        idx = b.aoff + k
        return '((%s)(((VERIF_W[%d] >> %d) & 1) << PROD_SHIFT))' % (b.ty.carrier, idx // 64, idx % 64)
    raise ValueError('buffer %s has no atoms role' % b.name)

def assign_atom_offsets(case):
    na = nb = 0
    for b in case.bufs:
        if b.atoms in ('A', 'LIN'): b.aoff = na; na += b.n
        elif b.atoms == 'B': b.aoff = nb; nb += b.n
    return na, nb

def scalar_requires(case, nm):
    out = []
    for sc in case.scalars:
        x = nm(sc)
        if sc.lo is not None:
            if sc.ty.signed and sc.ty.kind == 'int':
                out.append('((%s)%s >= %d && (%s)%s <= %d)' % (sc.ty.scar, x, sc.lo, sc.ty.scar, x, sc.hi))
            else:
                out.append('(%s >= %dULL && %s <= %dULL)' % (x, sc.lo, x, sc.hi))
    return out

def contract_text(case, fname='w'):
    """DFCC contract clauses for the translated entry."""
    pn = param_c_names(case)
    assign_atom_offsets(case)
    L = []
    for b in case.bufs:
        if case.mode == 'ATOMS':
            # provenance-concrete mode: the harness owns exact-extent buffers that already hold the atom ids
            # (is_fresh would replace them by nondeterministic objects and every id would become symbolic)
            L.append('__CPROVER_requires(__CPROVER_%s(%s, %d))' % ('r_ok' if b.role == 'in' else 'rw_ok', pn[b.name], b.n * b.ty.bits // 8))
        else:
            L.append('__CPROVER_requires(__CPROVER_is_fresh(%s, %d))' % (pn[b.name], b.n * b.ty.bits // 8))
    L.append('__CPROVER_requires(VERIF_threw == 0 && VERIF_illtyped == 0)')
    ctx = {'mode': case.mode,
           'argname': lambda sc: pn[sc.name]}
    def pre(buf, ke):
        e = '((%s*)%s)[%s]' % (buf.ty.carrier, pn[buf.name], ke)
        if case.mode == 'ATOMS' and buf.atoms and ke.isdigit(): return atom_value(case, buf, int(ke))
        return '__CPROVER_old(%s)' % e if buf.role != 'in' else e
    ctx['pre'] = pre
    for r in scalar_requires(case, lambda sc: pn[sc.name]):
        L.append('__CPROVER_requires(%s)' % r)
    if case.mode == 'ATOMS':
        for b in case.bufs:
            if b.atoms:
                for k in range(b.n):
                    L.append('__CPROVER_requires(((%s*)%s)[%d] == %s)' % (b.ty.carrier, pn[b.name], k, atom_value(case, b, k)))
    else:
        for b in case.bufs:
            for k in sorted(case.zero_in.get(b.name, ())):
                L.append('__CPROVER_requires(((%s*)%s)[%d] == 0)' % (b.ty.carrier, pn[b.name], k))
    for r in case.requires:
        L.append('__CPROVER_requires(%s)' % r.c(ctx))
    asg = ['__CPROVER_object_whole(%s)' % pn[b.name] for b in case.bufs if b.role != 'in']
    asg += ['VERIF_threw', 'VERIF_illtyped']
    L.append('__CPROVER_assigns(%s)' % ', '.join(asg))
    if case.mode == 'ATOMS':
        L.append('__CPROVER_ensures(VERIF_illtyped == 0)')      # applicability obligation: postcondition.1
    for (b, k, e) in case.ensures:
        L.append('__CPROVER_ensures(((%s*)%s)[%d] == %s)' % (b.ty.carrier, pn[b.name], k, e.c(ctx)))
    return '\n'.join(L) + '\n'

def dfcc_main(case, fname='w'):
    ps = []
    decl = []
    i = 0
    assign_atom_offsets(case)
    for b in case.bufs:
        if case.mode == 'ATOMS':
            c = b.ty.carrier
            decl.append('%s %s[%d];' % (c, b.name, b.n))
            for k in range(b.n):
                if b.atoms: decl.append('%s[%d] = %s;' % (b.name, k, atom_value(case, b, k)))
                else: decl.append('%s[%d] = nondet_%s();' % (b.name, k, c))
            decl.append('ptr_t p%d = (ptr_t)%s;' % (i, b.name)); ps.append('p%d' % i); i += 1
            continue
        decl.append('ptr_t p%d;' % i); ps.append('p%d' % i); i += 1
    for sc in case.scalars:
        decl.append('%s p%d = nondet_%s();' % (sc.ty.carrier, i, sc.ty.carrier)); ps.append('p%d' % i); i += 1
    return ('int main(void) {\n  %s\n  %s(%s);\n  __CPROVER_assert(0, "VACUITY-CANARY reachable end of harness");\n  return 0;\n}\n'
            % ('\n  '.join(decl), fname, ', '.join(ps)))

def harness_main(case, fname='w'):
    """Plain-assertion form of the same contract (no DFCC): used to extract counterexample inputs and as the
    stated fallback where contract instrumentation is too slow."""
    L = ['int main(void) {']
    assign_atom_offsets(case)
    for b in case.bufs:
        c = b.ty.carrier
        L.append('  %s %s[%d]; %s %s_pre[%d];' % (c, b.name, b.n, c, b.name, b.n))
        for k in range(b.n):
            if case.mode == 'ATOMS' and b.atoms:
                L.append('  %s[%d] = %s;' % (b.name, k, atom_value(case, b, k)))
            elif k in case.zero_in.get(b.name, ()):
                L.append('  %s[%d] = 0;' % (b.name, k))
            else:
                L.append('  %s[%d] = nondet_%s();' % (b.name, k, c))
        L.append('  for (int k = 0; k < %d; k++) %s_pre[k] = %s[k];' % (b.n, b.name, b.name))
    for sc in case.scalars:
        L.append('  %s %s = nondet_%s();' % (sc.ty.carrier, sc.name, sc.ty.carrier))
    ctx = {'mode': case.mode, 'argname': lambda sc: sc.name,
           'pre': lambda buf, ke: '%s_pre[%s]' % (buf.name, ke)}
    for r in scalar_requires(case, lambda sc: sc.name):
        L.append('  __CPROVER_assume(%s);' % r)
    for r in case.requires:
        L.append('  __CPROVER_assume(%s);' % r.c(ctx))
    args = ['(ptr_t)%s' % b.name for b in case.bufs] + [sc.name for sc in case.scalars]
    L.append('  %s(%s);' % (fname, ', '.join(args)))
    if case.mode == 'ATOMS':
        L.append('  __CPROVER_assert(VERIF_illtyped == 0, "post.applicability");')
    n = 0
    for (b, k, e) in case.ensures:
        n += 1
        L.append('  __CPROVER_assert(%s[%d] == %s, "post.%d %s[%d]");' % (b.name, k, e.c(ctx), n, b.name, k))
    for b in case.bufs:
        if b.role == 'in':
            L.append('  for (int k = 0; k < %d; k++) __CPROVER_assert(%s[k] == %s_pre[k], "frame.%s input unchanged");' % (b.n, b.name, b.name, b.name))
    L.append('  __CPROVER_assert(0, "VACUITY-CANARY reachable end of harness");')
    L.append('  return 0;\n}')
    return '\n'.join(L) + '\n'

def case_data_bits(case):
    if case.dw: return case.dw
    bs = [b.ty.bits for b in case.bufs if b.ty.bits in (32, 64)]
    return max(bs) if bs and len(set(bs)) == 1 else (min(bs) if bs else 32)

def prelude_text(case):
    t = open(os.path.join(HERE, 'prelude', 'base.h')).read()
    if case.mode == 'ATOMS':
        na, nb = assign_atom_offsets(case)
        dw = case_data_bits(case)
        t += '#define VERIF_NA %d\n#define VERIF_NB %d\n#define VERIF_DW %d\n' % (max(na, 1), nb, dw)
        t += open(os.path.join(HERE, 'prelude', 'mode_atoms.h')).read()
    elif case.mode == 'UF':
        t += open(os.path.join(HERE, 'prelude', 'mode_uf.h')).read()
    else:
        t += open(os.path.join(HERE, 'prelude', 'mode_sym.h')).read()
    if case.mode != 'ATOMS':
        t += open(os.path.join(HERE, 'prelude', 'libm.h')).read()
    return t

# ----------------------------------------------------------------------------------------------
# running tools
# ----------------------------------------------------------------------------------------------
MEM_KB = int(os.environ.get('VERIF_MEM_KB', str(6 * 1024 * 1024)))

def run(cmd, timeout, cwd=None, mem_kb=None):
    """run with a wall-clock and an address-space limit; returns (rc, stdout, stderr, seconds); rc None = timeout."""
    t0 = time.time()
    lim = mem_kb or MEM_KB
    sh = 'ulimit -v %d; exec "$@"' % lim
    try:
        p = subprocess.run(['bash', '-c', sh, 'x'] + cmd, cwd=cwd, capture_output=True, text=True, timeout=timeout)
        return p.returncode, p.stdout, p.stderr, time.time() - t0
    except subprocess.TimeoutExpired as e:
        return None, (e.stdout or b'').decode('utf8', 'replace') if isinstance(e.stdout, bytes) else (e.stdout or ''), 'TIMEOUT', time.time() - t0

class Undecided(Exception):
    pass

def compile_group(gdir, cfg, named_cases):
    """one clang++ run for all entries of a configuration group -> parsed IR module."""
    os.makedirs(gdir, exist_ok=True)
    cpp = os.path.join(gdir, 'unit.cpp'); ll = os.path.join(gdir, 'unit.ll')
    open(cpp, 'w').write(unit_text(named_cases))
    if cfg.pipe == 'P0':
        ll0 = os.path.join(gdir, 'unit0.ll')
        cmd = ['clang++-14'] + cfg.cxxflags() + ['-O0', '-Xclang', '-disable-O0-optnone'] + CLANG_COMMON + [cpp, '-o', ll0]
        rc, so, se, dt = run(cmd, 600, mem_kb=16 * 1024 * 1024)
        if rc != 0: return None, 'clang++ failed: ' + (se or so)[-3000:], cmd
        cmd2 = ['opt-14', '-S', '-passes=' + P0_PASSES, ll0, '-o', ll]
        rc, so, se, dt2 = run(cmd2, 600, mem_kb=16 * 1024 * 1024)
        if rc != 0: return None, 'opt failed: ' + (se or so)[-3000:], cmd2
        os.unlink(ll0)
    else:
        opt = {'P1': '-O1', 'P2': '-O2', 'P3': '-O3'}[cfg.pipe]
        cmd = ['clang++-14'] + cfg.cxxflags() + [opt] + CLANG_COMMON + [cpp, '-o', ll]
        rc, so, se, dt = run(cmd, 600, mem_kb=16 * 1024 * 1024)
        if rc != 0: return None, 'clang++ failed: ' + (se or so)[-3000:], cmd
    return ll, None, cmd

RESULT_RE = re.compile(r'^\[([^\]]+)\] (?:line \d+ )?(.*): (SUCCESS|FAILURE|UNKNOWN|ERROR)$', re.M)

def cbmc_flags(case, unwind):
    return ['--bounds-check', '--pointer-check', '--div-by-zero-check', '--undefined-shift-check',
            '--unwind', str(unwind), '--unwinding-assertions', '--object-bits', '12', '--slice-formula',
            '--max-field-sensitivity-array-size', str(case.fs_array or 256),
            '--verbosity', '8']

def default_unwind(case):
    if case.unwind: return case.unwind
    n = max([b.n for b in case.bufs] + [8])
    return 4 * n + 64

def stage_translate(args):
    """worker: compile one configuration group, translate every case in it. Returns list of per-case dicts."""
    gdir, cfg, named = args
    res = []
    t0 = time.time()
    try:
        ll, err, cmd = compile_group(gdir, cfg, named)
    except Exception as e:
        ll, err, cmd = None, 'compile exception: %r' % e, []
    tcompile = time.time() - t0
    if ll is None:
        # try each case alone so that one unit that does not compile does not take the group down
        if len(named) > 1:
            out = []
            for i, (name, case) in enumerate(named):
                out += stage_translate((os.path.join(gdir, 's%d' % i), cfg, [(name, case)]))
            return out
        name, case = named[0]
        return [dict(cid=case.cid, status='COMPILE_ERROR', detail=err, cmd=' '.join(cmd), t_compile=tcompile)]
    try:
        mod = ir2c.parse_module(open(ll).read())
    except ir2c.Unsupported as e:
        return [dict(cid=c.cid, status='UNDECIDED', detail='ir2c parse: %s' % e, t_compile=tcompile) for _, c in named]
    for name, case in named:
        d = dict(cid=case.cid, t_compile=tcompile / len(named), clang_cmd=' '.join(cmd), gdir=gdir, entry=name)
        try:
            t1 = time.time()
            contracts = {name: contract_text(case, name)} if case.form == 'dfcc' else {}
            ctext, info = ir2c.translate(mod, [name], atoms=(case.mode == 'ATOMS'), contracts=contracts, data_bits=case_data_bits(case))
            main = dfcc_main(case, name) if case.form == 'dfcc' else harness_main(case, name)
            cfile = os.path.join(gdir, name + '.c')
            open(cfile, 'w').write(prelude_text(case) + ctext + main)
            d.update(status='TRANSLATED', cfile=cfile, info=info, t_ir2c=time.time() - t1)
        except ir2c.Unsupported as e:
            d.update(status='UNDECIDED', detail='ir2c: %s' % e)
        except Exception as e:
            d.update(status='UNDECIDED', detail='translate exception: %s' % traceback.format_exc()[-1500:])
        res.append(d)
    return res

def run_cbmc_on(cfile, entry, form, unwind, timeout, extra=()):
    """goto-cc + (goto-instrument --dfcc) + cbmc. returns dict(status, results{name:(desc,verdict)}, log...)"""
    base = cfile[:-2]
    d = dict()
    rc, so, se, dt = run(['goto-cc', cfile, '-o', base + '.gb'], 300)
    d['t_gotocc'] = dt
    if rc != 0:
        d.update(status='UNDECIDED', detail='goto-cc failed: ' + (se + so)[-2000:]); return d
    gb = base + '.gb'
    if form == 'dfcc':
        rc, so, se, dt = run(['goto-instrument', '--dfcc', 'main', '--enforce-contract', entry, gb, base + '.i.gb'], 300)
        d['t_instrument'] = dt
        if rc != 0:
            d.update(status='UNDECIDED', detail='goto-instrument --dfcc failed: ' + (se + so)[-2000:]); return d
        gb = base + '.i.gb'
    cmd = ['cbmc', gb] + list(extra)
    rc, so, se, dt = run(cmd, timeout)
    d['t_cbmc'] = dt; d['cbmc_cmd'] = ' '.join(cmd)
    log = so + '\n' + se
    open(base + '.log', 'w').write(log)
    d['log'] = base + '.log'
    if rc is None:
        d.update(status='UNDECIDED', detail='cbmc timeout after %ds' % timeout); return d
    if rc not in (0, 10):
        d.update(status='UNDECIDED', detail='cbmc rc=%s: %s' % (rc, log[-1500:])); return d
    for pat in ('no body for', 'ignoring forall', 'ignoring exists', 'undefined function'):
        if pat in log:
            # uninterpreted functions legitimately have no body; cbmc does not warn for __CPROVER_uninterpreted_*
            bad = [l for l in log.splitlines() if pat in l and '__CPROVER_uninterpreted' not in l and 'nondet_' not in l]
            if bad:
                d.update(status='UNDECIDED', detail='vacuity guard: ' + bad[0]); return d
    results = {}
    for m in RESULT_RE.finditer(so):
        results[m.group(1)] = (m.group(2), m.group(3))
    d['results'] = results
    m = re.search(r'Runtime Solver: ([\d.]+)s', so); d['t_solver'] = float(m.group(1)) if m else 0.0
    m = re.search(r'Runtime Symex: ([\d.]+)s', so); d['t_symex'] = float(m.group(1)) if m else 0.0
    m = re.search(r'(\d+) variables, (\d+) clauses', so); d['sat_size'] = (int(m.group(1)), int(m.group(2))) if m else None
    d['status'] = 'RAN'
    return d

def classify(case, d):
    """turn cbmc results into PASS / FAIL / UNDECIDED and obligation counts."""
    res = d.get('results', {})
    canary = [k for k, (desc, v) in res.items() if 'VACUITY-CANARY' in desc]
    if not canary:
        d.update(status='UNDECIDED', detail='vacuity guard: canary assertion missing from results'); return
    if res[canary[0]][1] != 'FAILURE':
        d.update(status='UNDECIDED', detail='vacuity guard: end of harness unreachable under the preconditions'); return
    obl = {k: v for k, v in res.items() if k not in canary}
    failed = {k: v for k, v in obl.items() if v[1] != 'SUCCESS'}
    d['n_obligations'] = len(obl)
    d['n_discharged'] = len(obl) - len(failed)
    n_post = len([k for k, v in obl.items() if 'ensures' in v[0] or v[0].startswith('post.')])
    need = len(case.ensures) + (1 if case.mode == 'ATOMS' else 0)
    if n_post < need:
        d.update(status='UNDECIDED', detail='vacuity guard: %d postcondition obligations for %d clauses' % (n_post, need)); return
    if not failed:
        d['status'] = 'PASS'; return
    unw = [k for k, v in failed.items() if 'unwinding assertion' in v[0]]
    if unw:
        d.update(status='UNDECIDED', detail='unwinding assertion failed (%s): bound too small' % unw[0]); return
    d['failed'] = {k: v[0] for k, v in failed.items()}
    # name the clauses
    names = []
    for k, (desc, v) in sorted(failed.items(), key=lambda kv: natural_key(kv[0])):
        names.append(describe_obligation(case, k, desc))
    d['failed_names'] = names
    if case.mode == 'ATOMS':
        appl = [n for n in names if 'applicability' in n]
        if appl:
            d['status'] = 'INAPPLICABLE'; d['detail'] = 'ATOMS applicability obligation failed (an operation left the provenance typing)'; return
    d['status'] = 'FAIL'

def natural_key(s):
    return [int(t) if t.isdigit() else t for t in re.split(r'(\d+)', s)]

def describe_obligation(case, key, desc):
    m = re.match(r'.*\.postcondition\.(\d+)$', key)
    if m and 'ensures' in desc:
        n = int(m.group(1))
        off = 1 if case.mode == 'ATOMS' else 0
        if case.mode == 'ATOMS' and n == 1: return '%s: applicability (VERIF_illtyped == 0)' % key
        i = n - 1 - off
        if 0 <= i < len(case.ensures):
            b, k, e = case.ensures[i]
            return '%s: ensures %s[%d] == spec' % (key, b.name, k)
    m = re.match(r'post\.(\d+|applicability)', desc)
    if m:
        return '%s: %s' % (key, desc)
    return '%s: %s' % (key, desc)

def stage_verify(args):
    case, d, keep = args
    if d['status'] != 'TRANSLATED': return d
    unwind = default_unwind(case)
    timeout = case.timeout or int(os.environ.get('VERIF_CASE_TIMEOUT', '300'))
    r = run_cbmc_on(d['cfile'], d['entry'], case.form, unwind, timeout, cbmc_flags(case, unwind))
    d.update(r)
    if d['status'] == 'RAN':
        classify(case, d)
    d.pop('results', None)
    return d
