#!/usr/bin/env python3
"""LLVM-14 textual IR -> C translator for CBMC.

Usage (debug CLI): ir2c.py in.ll entry[,entry2..] [--atoms] [--contracts file.h] > out.c
Library use: translate(ll_text, entries, atoms=False, contracts={}) -> C text (without prelude).

Must-fire principle: anything not understood raises Unsupported -> exit 2.

Conventions of the emitted C (the preludes in tools/prelude/ give them meaning):
  * every float/double value is carried as its u32/u64 bit pattern; float arithmetic goes through
    FADD_32(x,y) ... macros, so one translation serves real-IEEE (SYM), uninterpreted (UF) and ring (ATOMS) modes;
  * with atoms=True every 32/64-bit integer operation that is not a pure move goes through the
    range-typing macros IADD_32, IMUL_32, CTL_32 ... of prelude/mode_atoms.h;
  * vectors are structs of lanes; every vector instruction is emitted lane by lane.
"""
import re, sys, struct, math

class Unsupported(Exception):
    pass

# ----------------------------------------------------------------------------
# Tokenizer
# ----------------------------------------------------------------------------
TOK_RE = re.compile(r'''
    (?P<ws>\s+)
  | (?P<comment>;.*$)
  | (?P<cstr>c"(?:[^"\\]|\\[0-9A-Fa-f]{2}|\\\\)*")
  | (?P<str>"(?:[^"\\]|\\.)*")
  | (?P<local>%(?:"(?:[^"\\]|\\.)*"|[-a-zA-Z$._0-9]+))
  | (?P<global>@(?:"(?:[^"\\]|\\.)*"|[-a-zA-Z$._0-9]+))
  | (?P<meta>!(?:[-a-zA-Z$._0-9]+)?)
  | (?P<attr>\#[0-9]+)
  | (?P<hex>0x[KLMHR]?[0-9A-Fa-f]+)
  | (?P<num>-?[0-9]+\.[0-9]*(?:[eE][-+]?[0-9]+)?|-?[0-9]+)
  | (?P<dots>\.\.\.)
  | (?P<id>[a-zA-Z_$.][-a-zA-Z$._0-9]*)
  | (?P<punct>[()\[\]{}<>,=*:|])
''', re.X)

def tokenize(line):
    out = []
    pos = 0
    while pos < len(line):
        m = TOK_RE.match(line, pos)
        if not m:
            raise Unsupported("tokenize: %r at %d in %r" % (line[pos:pos+20], pos, line))
        pos = m.end()
        k = m.lastgroup
        if k in ('ws', 'comment'):
            continue
        out.append((k, m.group(k)))
    return out

# ----------------------------------------------------------------------------
# Types
# ----------------------------------------------------------------------------
class Ty:
    pass

class IntTy(Ty):
    def __init__(s, bits): s.bits = bits
    def __repr__(s): return 'i%d' % s.bits
    def key(s): return ('i', s.bits)
class FloatTy(Ty):
    def __init__(s, bits): s.bits = bits
    def __repr__(s): return 'f%d' % s.bits
    def key(s): return ('f', s.bits)
class VoidTy(Ty):
    def __repr__(s): return 'void'
    def key(s): return ('void',)
class PtrTy(Ty):
    def __init__(s, pointee): s.pointee = pointee
    def __repr__(s): return 'ptr'
    def key(s): return ('p',)
class VecTy(Ty):
    def __init__(s, n, elem): s.n = n; s.elem = elem
    def __repr__(s): return '<%d x %r>' % (s.n, s.elem)
    def key(s): return ('v', s.n, s.elem.key())
class ArrTy(Ty):
    def __init__(s, n, elem): s.n = n; s.elem = elem
    def __repr__(s): return '[%d x %r]' % (s.n, s.elem)
    def key(s): return ('a', s.n, s.elem.key())
class StructTy(Ty):
    def __init__(s, elems, packed=False, name=None): s.elems = elems; s.packed = packed; s.name = name
    def __repr__(s): return 'struct(%s)' % (s.name or ','.join(map(repr, s.elems)))
    def key(s): return ('s', s.name) if s.name else ('s', s.packed, tuple(e.key() for e in s.elems))
class FuncTy(Ty):
    def __init__(s, ret, params, vararg): s.ret = ret; s.params = params; s.vararg = vararg
    def key(s): return ('fn',)
class OpaqueTy(Ty):
    def key(s): return ('opaque',)
class MetaTy(Ty):
    def key(s): return ('meta',)
class LabelTy(Ty):
    def key(s): return ('label',)

VOID = VoidTy()

class Module:
    def __init__(s):
        s.named_types = {}   # name -> StructTy (elems filled lazily)
        s.globals = {}       # name -> (ty, init_tokens/const, is_const, align)
        s.functions = {}     # name -> Function
        s.declares = {}

def size_align(t):
    """x86-64 datalayout: returns (alloc size in bytes, abi alignment)."""
    if isinstance(t, IntTy):
        if t.bits <= 8: return 1, 1
        if t.bits <= 16: return 2, 2
        if t.bits <= 32: return 4, 4
        if t.bits <= 64: return 8, 8
        if t.bits <= 128: return 16, 16
        raise Unsupported("int width %d" % t.bits)
    if isinstance(t, FloatTy):
        return t.bits // 8, t.bits // 8
    if isinstance(t, PtrTy):
        return 8, 8
    if isinstance(t, VecTy):
        es, _ = size_align(t.elem)
        if isinstance(t.elem, IntTy) and t.elem.bits == 1:
            bits = t.n
            sz = max(1, (bits + 7) // 8)
        else:
            sz = es * t.n
        p = 1
        while p < sz: p *= 2
        return p, p
    if isinstance(t, ArrTy):
        es, ea = size_align(t.elem)
        return es * t.n, ea
    if isinstance(t, StructTy):
        off = 0; al = 1
        for e in t.elems:
            es, ea = size_align(e)
            if t.packed: ea = 1
            off = (off + ea - 1) // ea * ea
            off += es
            al = max(al, ea)
        off = (off + al - 1) // al * al
        return off, al
    raise Unsupported("size of %r" % (t,))

def struct_offsets(t):
    off = 0; res = []
    for e in t.elems:
        es, ea = size_align(e)
        if t.packed: ea = 1
        off = (off + ea - 1) // ea * ea
        res.append(off)
        off += es
    return res

# ----------------------------------------------------------------------------
# Parser helpers
# ----------------------------------------------------------------------------
class P:
    """Token stream parser."""
    def __init__(s, toks, mod):
        s.t = toks; s.i = 0; s.mod = mod
    def peek(s, k=0):
        return s.t[s.i + k] if s.i + k < len(s.t) else (None, None)
    def next(s):
        tok = s.peek(); s.i += 1; return tok
    def eat(s, val):
        if s.peek()[1] == val:
            s.i += 1; return True
        return False
    def expect(s, val):
        if not s.eat(val):
            raise Unsupported("expected %r got %r in %r" % (val, s.peek(), s.t))
    def done(s):
        return s.i >= len(s.t)

    def parse_type(s):
        k, v = s.next()
        if k == 'id':
            if v == 'void': t = VOID
            elif re.fullmatch(r'i[0-9]+', v): t = IntTy(int(v[1:]))
            elif v == 'float': t = FloatTy(32)
            elif v == 'double': t = FloatTy(64)
            elif v == 'ptr': t = PtrTy(None)
            elif v == 'metadata': t = MetaTy()
            elif v == 'label': t = LabelTy()
            elif v == 'opaque': t = OpaqueTy()
            else: raise Unsupported("type %s" % v)
        elif k == 'local':
            name = v
            if name not in s.mod.named_types:
                s.mod.named_types[name] = StructTy(None, False, name)
            t = s.mod.named_types[name]
        elif v == '<':
            if s.peek()[1] == '{':
                s.next()
                elems = s._type_list('}')
                s.expect('>')
                t = StructTy(elems, True)
            else:
                n = int(s.next()[1]); s.expect('x'); e = s.parse_type(); s.expect('>')
                t = VecTy(n, e)
        elif v == '[':
            n = int(s.next()[1]); s.expect('x'); e = s.parse_type(); s.expect(']')
            t = ArrTy(n, e)
        elif v == '{':
            elems = s._type_list('}')
            t = StructTy(elems, False)
        else:
            raise Unsupported("type token %r %r" % (k, v))
        # suffixes
        while True:
            if s.peek()[1] == '*':
                s.next(); t = PtrTy(t)
            elif s.peek()[1] == '(' and not isinstance(t, (MetaTy,)):
                # function type
                s.next()
                params = []; vararg = False
                while not s.eat(')'):
                    if s.peek()[0] == 'dots':
                        s.next(); vararg = True
                    else:
                        params.append(s.parse_type())
                    s.eat(',')
                t = FuncTy(t, params, vararg)
            elif s.peek()[1] == 'addrspace':
                raise Unsupported("addrspace")
            else:
                break
        return t

    def _type_list(s, close):
        elems = []
        while not s.eat(close):
            elems.append(s.parse_type())
            s.eat(',')
        return elems

    PARAM_ATTRS = set('''noundef nocapture readonly writeonly nonnull noalias signext zeroext inreg
        returned immarg nofree readnone nest swiftself swifterror'''.split())
    def skip_param_attrs(s):
        """Skip parameter attributes; return dict of interesting ones."""
        info = {}
        while True:
            k, v = s.peek()
            if k == 'id' and v in s.PARAM_ATTRS:
                s.next()
            elif k == 'id' and v in ('align', 'dereferenceable', 'dereferenceable_or_null'):
                s.next()
                if s.eat('('):
                    info[v] = int(s.next()[1]); s.expect(')')
                else:
                    info[v] = int(s.next()[1])
            elif k == 'id' and v in ('sret', 'byval', 'byref', 'preallocated', 'inalloca', 'elementtype'):
                s.next(); s.expect('('); info[v] = s.parse_type(); s.expect(')')
            else:
                break
        return info

    # ---- values ----
    def parse_value(s, ty):
        """Parse a value of known type ty; returns Val tree."""
        k, v = s.next()
        if k == 'local': return ('local', v, ty)
        if k == 'global': return ('global', v, ty)
        if k == 'num':
            if isinstance(ty, FloatTy):
                return ('fconst', float(v), ty)
            return ('iconst', int(v), ty)
        if k == 'hex':
            if isinstance(ty, FloatTy):
                if v[2] in 'KLMHR': raise Unsupported("fp literal %s" % v)
                bits = int(v, 16)
                d = struct.unpack('<d', struct.pack('<Q', bits))[0]
                return ('fconst', d, ty)
            raise Unsupported("hex int literal")
        if k == 'id':
            if v == 'true': return ('iconst', 1, ty)
            if v == 'false': return ('iconst', 0, ty)
            if v == 'null': return ('null', None, ty)
            if v in ('undef', 'poison'): return ('undef', None, ty)
            if v == 'zeroinitializer': return ('zero', None, ty)
            if v in ('getelementptr', 'bitcast', 'inttoptr', 'ptrtoint', 'addrspacecast',
                     'add', 'sub', 'mul', 'trunc', 'zext', 'sext'):
                return s.parse_constexpr(v, ty)
            raise Unsupported("value id %s" % v)
        if k == 'cstr':
            return ('cstr', v, ty)
        if v == '<':
            if s.peek()[1] == '{':
                s.next(); elems = s._val_list('}'); s.expect('>')
                return ('agg', elems, ty)
            elems = s._val_list('>')
            return ('agg', elems, ty)
        if v == '[':
            return ('agg', s._val_list(']'), ty)
        if v == '{':
            return ('agg', s._val_list('}'), ty)
        raise Unsupported("value token %r %r" % (k, v))

    def _val_list(s, close):
        elems = []
        while not s.eat(close):
            t = s.parse_type()
            elems.append(s.parse_value(t))
            s.eat(',')
        return elems

    def parse_typed_value(s):
        t = s.parse_type()
        s.skip_param_attrs()
        return s.parse_value(t)

    def parse_constexpr(s, op, ty):
        if op == 'getelementptr':
            s.eat('inbounds')
            s.expect('(')
            srcty = s.parse_type(); s.expect(',')
            base = s.parse_typed_value()
            idx = []
            while s.eat(','):
                s.eat('inrange')
                idx.append(s.parse_typed_value())
            s.expect(')')
            return ('ce_gep', (srcty, base, idx), ty)
        if op in ('bitcast', 'inttoptr', 'ptrtoint', 'addrspacecast', 'trunc', 'zext', 'sext'):
            s.expect('(')
            v = s.parse_typed_value()
            s.expect('to'); t2 = s.parse_type(); s.expect(')')
            return ('ce_cast', (op, v, t2), ty)
        raise Unsupported("constexpr %s" % op)

# ----------------------------------------------------------------------------
# Module parsing
# ----------------------------------------------------------------------------
class Function:
    def __init__(s):
        s.name = None; s.ret = None; s.params = []; s.blocks = []  # [(label, [instr tokens])]

def parse_module(text):
    mod = Module()
    lines = text.split('\n')
    i = 0
    while i < len(lines):
        line = lines[i]
        i += 1
        st = line.strip()
        if not st or st.startswith(';'): continue
        if st.startswith('source_filename') or st.startswith('target ') or st.startswith('attributes ') or st.startswith('!'):
            continue
        if st.startswith('%') and ' = type ' in st:
            toks = tokenize(st)
            p = P(toks, mod)
            name = p.next()[1]; p.expect('='); p.expect('type')
            if p.peek()[1] == 'opaque':
                mod.named_types.setdefault(name, StructTy(None, False, name)).elems = None
                continue
            t = p.parse_type()
            if not isinstance(t, StructTy): raise Unsupported("named non-struct type")
            nt = mod.named_types.setdefault(name, StructTy(None, False, name))
            nt.elems = t.elems; nt.packed = t.packed
            continue
        if st.startswith('@'):
            toks = tokenize(st)
            p = P(toks, mod)
            name = p.next()[1]; p.expect('=')
            is_const = False; external = False
            while True:
                k, v = p.peek()
                if v in ('internal', 'private', 'linkonce_odr', 'weak_odr', 'dso_local', 'unnamed_addr', 'local_unnamed_addr',
                         'hidden', 'appending', 'common', 'weak', 'linkonce', 'thread_local'):
                    p.next()
                elif v in ('external', 'extern_weak', 'available_externally'):
                    external = True; p.next()
                elif v == 'global': p.next(); break
                elif v == 'constant': p.next(); is_const = True; break
                elif v == 'alias' or v == 'ifunc':
                    raise Unsupported("alias")
                else:
                    raise Unsupported("global decl %r" % st)
            ty = p.parse_type()
            init = None
            if not external and not p.done() and p.peek()[1] != ',':
                init = p.parse_value(ty)
            align = None
            while p.eat(','):
                k, v = p.next()
                if v == 'align': align = int(p.next()[1])
                elif v in ('comdat', 'section'):
                    if p.peek()[1] == '(':
                        p.next(); p.next(); p.expect(')')
                    elif v == 'section': p.next()
                elif k == 'meta':
                    p.next()
                else:
                    pass
            mod.globals[name] = (ty, init, is_const, align)
            continue
        if st.startswith('$'):
            continue
        if st.startswith('declare'):
            toks = tokenize(st)
            p = P(toks, mod); p.next()
            f = parse_func_header(p, mod)
            mod.declares[f.name] = f
            continue
        if st.startswith('define'):
            toks = tokenize(st)
            p = P(toks, mod); p.next()
            f = parse_func_header(p, mod)
            cur = None
            while True:
                line = lines[i]; i += 1
                st2 = line.strip()
                if st2 == '}': break
                if not st2 or st2.startswith(';'): continue
                m = re.match(r'^([-a-zA-Z$._0-9]+|"[^"]*"):', st2)
                if m and not line.startswith('  '):
                    cur = (m.group(1), [])
                    f.blocks.append(cur)
                    continue
                if cur is None:
                    nunnamed = sum(1 for (t, n, info) in f.params if n is None or re.fullmatch(r'%[0-9]+', n))
                    cur = (str(nunnamed), [])
                    f.blocks.append(cur)
                # switch spans multiple lines
                if st2.startswith('switch') and st2.endswith('['):
                    while not st2.endswith(']'):
                        st2 += ' ' + lines[i].strip(); i += 1
                if st2 == 'cleanup' or st2.startswith(('catch ', 'filter ')):
                    continue    # clause lines of the preceding landingpad (exception paths are cut there)
                # invoke: the "to label %a unwind label %b" part is on a continuation line
                if re.match(r'^(%[-\w.$"]+ = )?invoke\b', st2) and ' to label ' not in st2 and lines[i].strip().startswith('to label'):
                    st2 += ' ' + lines[i].strip(); i += 1
                cur[1].append(tokenize(st2))
            mod.functions[f.name] = f
            continue
        raise Unsupported("module line %r" % st)
    return mod

FN_PREFIX_KW = set('''dso_local internal private linkonce_odr weak_odr hidden external available_externally
   fastcc ccc coldcc noundef zeroext signext noalias nonnull weak linkonce unnamed_addr local_unnamed_addr
   x86_vectorcallcc x86_regcallcc protected'''.split())

def parse_func_header(p, mod):
    f = Function()
    while p.peek()[1] in FN_PREFIX_KW or p.peek()[1] in ('align', 'dereferenceable', 'dereferenceable_or_null'):
        p.skip_param_attrs()
        if p.peek()[1] in FN_PREFIX_KW: p.next()
    f.ret = p.parse_type_noFn() if hasattr(p, 'parse_type_noFn') else parse_ret_type(p)
    k, v = p.next()
    if k != 'global': raise Unsupported("func name %r" % v)
    f.name = v
    p.expect('(')
    f.vararg = False
    n = 0
    while not p.eat(')'):
        if p.peek()[0] == 'dots':
            p.next(); f.vararg = True; p.eat(','); continue
        t = p.parse_type()
        info = p.skip_param_attrs()
        if p.peek()[0] == 'local':
            name = p.next()[1]
        else:
            name = None
        f.params.append((t, name, info))
        p.eat(',')
    return f

def parse_ret_type(p):
    # parse a type but do not treat following '(' as a function type: the name comes first
    # return types are followed by @name so parse_type works fine
    return p.parse_type()

# ----------------------------------------------------------------------------
# C emission
# ----------------------------------------------------------------------------
def cname(n):
    """Mangle LLVM identifier into a C identifier."""
    s = n[1:]
    if s.startswith('"'): s = s[1:-1]
    s = re.sub(r'[^A-Za-z0-9_]', lambda m: '_%02x' % ord(m.group(0)), s)
    return s

class Emitter:
    def __init__(s, mod, atoms=False, data_bits=32):
        s.mod = mod
        s.atoms = atoms
        s.data_bits = data_bits
        s.typedefs = {}     # key -> c name
        s.typedef_code = []
        s.helper_code = {}
        s.out = []
        s.stats = {'instructions': 0, 'dropped_flags': 0, 'align_asserts': 0}

    # ---- types ----
    def cty(s, t):
        if isinstance(t, IntTy):
            if t.bits == 1: return 'u8'
            if t.bits <= 8: return 'u8'
            if t.bits <= 16: return 'u16'
            if t.bits <= 32: return 'u32'
            if t.bits <= 64: return 'u64'
            if t.bits <= 128: return 'u128'
        if isinstance(t, FloatTy):
            if t.bits not in (32, 64): raise Unsupported("float width %d" % t.bits)
            return 'u32' if t.bits == 32 else 'u64'
        if isinstance(t, PtrTy): return 'ptr_t'
        if isinstance(t, VoidTy): return 'void'
        if isinstance(t, VecTy):
            key = t.key()
            if key not in s.typedefs:
                en = s.cty(t.elem)
                tag = ('i%d' % t.elem.bits if isinstance(t.elem, IntTy) else 'f%d' % t.elem.bits if isinstance(t.elem, FloatTy) else 'p')
                name = 'v%d%s' % (t.n, tag)
                s.typedefs[key] = name
                s.typedef_code.append('typedef struct { %s e[%d]; } %s;' % (en, t.n, name))
            return s.typedefs[key]
        if isinstance(t, ArrTy):
            key = t.key()
            if key not in s.typedefs:
                en = s.cty(t.elem)
                name = 'arr%d_%s' % (t.n, re.sub(r'\W', '_', en))
                if name in s.typedefs.values(): name += '_%d' % len(s.typedefs)
                s.typedefs[key] = name
                s.typedef_code.append('typedef struct { %s e[%d]; } %s;' % (en, max(t.n, 1), name))
            return s.typedefs[key]
        if isinstance(t, StructTy):
            key = t.key() if t.name is None else ('s', t.name)
            if key not in s.typedefs:
                name = 'st_%s' % cname(t.name) if t.name else 'anon_st%d' % len(s.typedefs)
                s.typedefs[key] = name
                if t.elems is None: raise Unsupported("opaque struct by value %s" % t.name)
                # by-value structs: emit fields with explicit padding to match LLVM layout
                offs = struct_offsets(t)
                size, _ = size_align(t)
                fields = []; cur = 0
                for i, (e, o) in enumerate(zip(t.elems, offs)):
                    if o > cur: fields.append('u8 pad%d[%d];' % (i, o - cur))
                    fields.append('%s f%d;' % (s.cty(e), i))
                    cur = o + size_align(e)[0]
                if size > cur: fields.append('u8 padend[%d];' % (size - cur))
                s.typedef_code.append('typedef struct __attribute__((packed)) { %s } %s;' % (' '.join(fields), name))
            return s.typedefs[key]
        raise Unsupported("cty %r" % (t,))

    # ---- constants / values ----
    def fconst(s, d, t):
        """float constant -> FC_w(bit pattern, integer value, is-integer flag); the prelude picks."""
        if t.bits == 32:
            bits = struct.unpack('<I', struct.pack('<f', d))[0]
        else:
            bits = struct.unpack('<Q', struct.pack('<d', d))[0]
        isint = (d == d) and d not in (float('inf'), float('-inf')) and d == int(d) and abs(d) < 2**15 and not (d == 0 and math.copysign(1, d) < 0)
        return 'FC_%d(0x%xULL, %dLL, %d)' % (t.bits, bits, int(d) if isint else 0, 1 if isint else 0)

    def val(s, v, fn=None):
        kind, data, ty = v
        if kind == 'local':
            return fn.regname(data)
        if kind == 'global':
            g = cname(data)
            if data in s.mod.functions:
                s.need_fn.add(data)
                return '((ptr_t)&%s)' % g
            if data in s.mod.declares:
                # address of an external function (e.g. a destructor handed to __cxa_throw): an opaque object
                s.helper_code['extfn_' + g] = 'extern u8 EXTFN_%s[1];' % g
                return '((ptr_t)EXTFN_%s)' % g
            return '((ptr_t)&g_%s)' % g
        if kind == 'iconst':
            if isinstance(ty, IntTy):
                m = (1 << ty.bits) - 1
                x = data & m
                if ty.bits > 64: raise Unsupported("i128 const")
                return '((%s)%dULL)' % (s.cty(ty), x)
            if isinstance(ty, FloatTy):
                return s.fconst(float(data), ty)
            raise Unsupported("iconst of %r" % (ty,))
        if kind == 'fconst':
            return s.fconst(data, ty)
        if kind == 'null':
            return '((ptr_t)0)'
        if kind in ('undef', 'zero'):
            return s.zero_or_nondet(ty, kind == 'undef')
        if kind == 'agg':
            ct = s.cty(ty)
            if isinstance(ty, (VecTy, ArrTy)):
                return '((%s){{%s}})' % (ct, ', '.join(s.val(e, fn) for e in data))
            if isinstance(ty, StructTy):
                return '((%s){%s})' % (ct, ', '.join('.f%d = %s' % (i, s.val(e, fn)) for i, e in enumerate(data)))
        if kind == 'ce_cast':
            op, v2, t2 = data
            if op in ('bitcast', 'addrspacecast') and isinstance(t2, PtrTy):
                return s.val(v2, fn)
            if op == 'ptrtoint': return '((%s)(%s))' % (s.cty(t2), s.val(v2, fn))
            if op == 'inttoptr': return '((ptr_t)(%s))' % s.val(v2, fn)
            raise Unsupported("const cast %s" % op)
        if kind == 'ce_gep':
            srcty, base, idx = data
            return s.gep_expr(srcty, s.val(base, fn), [(i[2], s.val(i, fn), i) for i in idx])
        raise Unsupported("val %s" % kind)

    def zero_or_nondet(s, ty, undef):
        ct = s.cty(ty)
        if isinstance(ty, (IntTy, FloatTy)):
            if undef and s.atoms and ty.bits in (32, 64): return 'VT_undef_%d()' % ty.bits   # arbitrary value of the product class
            if undef: return 'nondet_%s()' % ct
            return '((%s)0)' % ct
        if isinstance(ty, PtrTy):
            return '((ptr_t)0)'
        if isinstance(ty, (VecTy,)):
            if undef:
                return '((%s){{%s}})' % (ct, ', '.join(s.zero_or_nondet(ty.elem, True) for _ in range(ty.n)))
            return '((%s){{0}})' % ct
        if isinstance(ty, (ArrTy, StructTy)):
            if undef:
                s.helper_code['nondet_' + ct] = '%s nondet_%s(void);' % (ct, ct)
                return 'nondet_%s()' % ct
            return '((%s){0})' % ct
        raise Unsupported("zero %r" % (ty,))

    def gep_expr(s, srcty, base, idx):
        """idx: list of (type, cexpr, rawval)."""
        terms = []
        const = 0
        cur = srcty
        first = True
        for (ity, ce, raw) in idx:
            if first:
                stride = size_align(cur)[0]
                first = False
            else:
                if isinstance(cur, StructTy):
                    if raw[0] != 'iconst': raise Unsupported("non-const struct index")
                    const += struct_offsets(cur)[raw[1]]
                    cur = cur.elems[raw[1]]
                    continue
                elif isinstance(cur, (ArrTy, VecTy)):
                    cur = cur.elem
                    stride = size_align(cur)[0]
                else:
                    raise Unsupported("gep into %r" % (cur,))
            if raw[0] == 'iconst':
                v = raw[1]
                if v >= (1 << (ity.bits - 1)): v -= (1 << ity.bits)
                const += v * stride
            else:
                if isinstance(ity, VecTy): raise Unsupported("vector gep")
                # sign-extend index to 64 bits
                if s.atoms and ity.bits in (32, 64): ce = 'CTL_%d(%s)' % (ity.bits, ce)
                sx = s.sext_expr(ce, ity, 64)
                terms.append('(s64)%s * %dLL' % (sx, stride))
        e = base
        off = ' + '.join(terms + ([str(const) + 'LL'] if const or not terms else []))
        return '(%s + (%s))' % (e, off)

    def sext_expr(s, ce, ity, tobits):
        st = {8: 's8', 16: 's16', 32: 's32', 64: 's64'}
        if ity.bits in st:
            return '((%s)(%s)%s)' % (st[tobits], st[ity.bits], ce)
        if ity.bits == 1:
            return '((%s)-(s64)(%s))' % (st[tobits], ce)
        # odd width
        sh = 64 - ity.bits
        return '((%s)(((s64)((u64)%s << %d)) >> %d))' % (st[tobits], ce, sh, sh)


class FnEmitter:
    def __init__(s, em, f):
        s.em = em; s.f = f
        s.regs = {}     # llvm name -> (cname, type)
        s.p2i = {}      # llvm integer register defined by ptrtoint -> C expression of the pointer
        s.objty = {}    # llvm pointer register -> element bits of the backing array of the alloca it points into
        s.lines = []
        s.decls = []
        s.tmpn = 0

    def regname(s, n):
        return 'r_' + cname(n)

    def defreg(s, n, ty):
        rn = s.regname(n)
        if n not in s.regs:
            s.regs[n] = (rn, ty)
            s.decls.append('%s %s;' % (s.em.cty(ty), rn))
        return rn

    def tmp(s, cty):
        s.tmpn += 1
        n = 't%d' % s.tmpn
        s.decls.append('%s %s;' % (cty, n))
        return n

    def emit(s, line):
        s.lines.append('  ' + line)

    def V(s, v):
        return s.em.val(v, s)

    # -- helpers for lane-wise emission
    def lanes(s, ty):
        return ty.n if isinstance(ty, VecTy) else None

    def lane(s, expr, ty, i):
        return '%s.e[%d]' % (expr, i) if isinstance(ty, VecTy) else expr

    def scalar_ty(s, ty):
        return ty.elem if isinstance(ty, VecTy) else ty

    def translate(s):
        f = s.f; em = s.em
        # collect phi info first: for each block, list of (dest, ty, [(val,pred)])
        s.phis = {}
        parsed = []
        for (label, instrs) in f.blocks:
            pl = []
            for toks in instrs:
                pl.append(toks)
            parsed.append((label, pl))
        # pre-scan phis
        for (label, instrs) in parsed:
            for toks in instrs:
                if len(toks) > 3 and toks[1][1] == '=' and toks[2][1] == 'phi':
                    p = P(toks, em.mod)
                    dest = p.next()[1]; p.next(); p.next()
                    ty = p.parse_type()
                    inc = []
                    while True:
                        p.expect('[')
                        v = p.parse_value(ty); p.expect(',')
                        pred = p.next()[1]
                        p.expect(']')
                        inc.append((v, pred))
                        if not p.eat(','): break
                    s.phis.setdefault(label, []).append((dest, ty, inc))
                    s.defreg(dest, ty)
        # ATOMS: clang's sign-extension idiom  %a = shl i64 %x, C ; %b = ashr [exact] i64 %a, C  (C = 32/48/56, %a used
        # nowhere else) is emitted as  %b = sext(trunc %x to i(64-C))  -- the same function of %x, typed like trunc+sext
        sext_idiom = {}    # id(toks of the ashr) -> (dest, x token, C);  skip_shl: id(toks of the shl)
        skip_shl = set()
        if em.atoms:
            uses = {}
            for (label, instrs) in parsed:
                for toks in instrs:
                    for (k, t) in toks[2:] if (len(toks) > 2 and toks[1][1] == '=') else toks:
                        if k == 'local': uses[t] = uses.get(t, 0) + 1
            for (label, instrs) in parsed:
                for t0, t1 in zip(instrs, instrs[1:]):
                    a0 = [t for (k, t) in t0 if t not in ('nuw', 'nsw', 'exact')]
                    a1 = [t for (k, t) in t1 if t not in ('nuw', 'nsw', 'exact')]
                    if (len(a0) == 7 and len(a1) == 7 and a0[1] == '=' and a0[2] == 'shl' and a0[3] == 'i64' and a0[5] == ',' and a0[6] in ('32', '48', '56')
                            and a1[1] == '=' and a1[2] == 'ashr' and a1[3] == 'i64' and a1[4] == a0[0] and a1[5] == ',' and a1[6] == a0[6]
                            and a0[4].startswith('%') and uses.get(a0[0], 0) == 1):
                        skip_shl.add(id(t0)); sext_idiom[id(t1)] = (a1[0], a0[4], int(a0[6]))
        s.cur_label = None
        s.emitted_labels = set()
        for (label, instrs) in parsed:
            s.cur_label = label
            s.emitted_labels.add(label)
            s.lines.append(' L_%s: ;' % cname('%' + label))
            for toks in instrs:
                if len(toks) > 3 and toks[1][1] == '=' and toks[2][1] == 'phi':
                    continue
                if id(toks) in skip_shl:
                    em.stats['instructions'] += 1; continue
                if id(toks) in sext_idiom:
                    dest, xtok, C = sext_idiom[id(toks)]
                    nb = 64 - C
                    d = s.defreg(dest, IntTy(64))
                    x = s.V(P([('local', xtok)], em.mod).parse_value(IntTy(64)))
                    x = '(u%d)TRUNCSRC_64_%d(%s)' % (nb, nb, x)
                    if nb == 32: x = 'CTLA_32(%s)' % x
                    s.emit('%s = (u64)%s;' % (d, em.sext_expr(x, IntTy(nb), 64)))
                    em.stats['instructions'] += 1; continue
                s.instr(toks)
                em.stats['instructions'] += 1

    def goto(s, target_tok):
        """emit phi copies for edge cur_label -> target, then goto."""
        tgt = target_tok[1:] if target_tok.startswith('%') else target_tok
        if tgt.startswith('"'): pass
        phis = s.phis.get(tgt, [])
        stmts = []
        if phis:
            tmps = []
            for (dest, ty, inc) in phis:
                v = None
                for (val, pred) in inc:
                    if pred[1:] == s.cur_label or pred == '%' + s.cur_label:
                        v = val; break
                if v is None:
                    raise Unsupported("phi has no incoming for %s in %s" % (s.cur_label, dest))
                t = s.tmp(s.em.cty(ty))
                stmts.append('%s = %s;' % (t, s.V(v)))
                tmps.append((dest, t))
            for (dest, t) in tmps:
                stmts.append('%s = %s;' % (s.regname(dest), t))
        stmts.append('goto L_%s;' % cname('%' + tgt))
        return '{ ' + ' '.join(stmts) + ' }'

    # ------------------------------------------------------------------
    def instr(s, toks):
        em = s.em
        p = P(toks, em.mod)
        dest = None
        if p.peek(1)[1] == '=' and p.peek()[0] == 'local':
            dest = p.next()[1]; p.next()
        op = p.next()[1]
        if op in ('tail', 'musttail', 'notail'):
            op = p.next()[1]
        handler = getattr(s, 'i_' + op, None)
        if handler is None:
            raise Unsupported("instruction %s" % op)
        handler(p, dest)

    BINOPS = {'add': '+', 'sub': '-', 'mul': '*', 'and': '&', 'or': '|', 'xor': '^',
              'fadd': '+', 'fsub': '-', 'fmul': '*', 'fdiv': '/'}

    def skip_flags(s, p):
        while p.peek()[1] in ('nuw', 'nsw', 'exact', 'inbounds', 'fast', 'nnan', 'ninf', 'nsz', 'arcp', 'contract', 'afn', 'reassoc'):
            p.next(); s.em.stats['dropped_flags'] += 1

    def binop(s, p, dest, op):
        s.skip_flags(p)
        ty = p.parse_type()
        a = p.parse_value(ty); p.expect(','); b = p.parse_value(ty)
        d = s.defreg(dest, ty)
        if op == 'sub' and isinstance(ty, IntTy) and ty.bits == 64 and a[0] == 'local' and b[0] == 'local' and a[1] in s.p2i and b[1] in s.p2i:
            # (u64)p - (u64)q of two pointers is their distance: emit it as a pointer difference so that CBMC
            # sees the offsets (its integer-address model made memmove lengths from std::copy non-constant)
            s.emit('%s = (u64)(%s - %s);' % (d, s.p2i[a[1]], s.p2i[b[1]])); return
        A = s.V(a); B = s.V(b)
        if isinstance(ty, VecTy) and not A.startswith('r_'):
            t = s.tmp(s.em.cty(ty)); s.emit('%s = %s;' % (t, A)); A = t
        if isinstance(ty, VecTy) and not B.startswith('r_'):
            t = s.tmp(s.em.cty(ty)); s.emit('%s = %s;' % (t, B)); B = t
        st = s.scalar_ty(ty)
        n = s.lanes(ty) or 1
        for i in range(n):
            x = s.lane(A, ty, i); y = s.lane(B, ty, i)
            s.emit('%s = %s;' % (s.lane(d, ty, i), s.scalar_binop(op, st, x, y)))

    def scalar_binop(s, op, st, x, y):
        ct = s.em.cty(st)
        if isinstance(st, FloatTy):
            if op in ('fadd', 'fsub', 'fmul', 'fdiv'):
                return '%s_%d(%s, %s)' % (op.upper(), st.bits, x, y)
            raise Unsupported("float op %s" % op)
        if not isinstance(st, IntTy): raise Unsupported("binop %s on %r" % (op, st))
        if s.em.atoms and st.bits in (32, 64):
            b = st.bits
            if op in ('add', 'sub', 'mul', 'and', 'or', 'xor', 'shl', 'lshr'):
                return 'I%s_%d(%s, %s)' % (op.upper(), b, x, y)
            x = 'CTL_%d(%s)' % (b, x); y = 'CTL_%d(%s)' % (b, y)
        if op in s.BINOPS:
            e = '(%s)(%s %s %s)' % (ct, x, s.BINOPS[op], y)
        elif op == 'shl':
            e = '(%s)((%s) << (%s))' % (ct, x, y)   # shift >= width is poison; flagged by --undefined-shift-check
        elif op == 'lshr':
            e = '(%s)((%s) >> (%s))' % (ct, x, y)
        elif op == 'ashr':
            sct = 's' + ct[1:]
            if st.bits not in (8, 16, 32, 64): raise Unsupported("ashr on i%d" % st.bits)
            e = '(%s)((%s)(%s) >> (%s))' % (ct, sct, x, y)
        elif op in ('udiv', 'urem'):
            e = '(%s)((%s) %s (%s))' % (ct, x, '/' if op == 'udiv' else '%', y)
        elif op in ('sdiv', 'srem'):
            sct = 's' + ct[1:]
            if st.bits not in (8, 16, 32, 64): raise Unsupported("sdiv on i%d" % st.bits)
            e = '(%s)((%s)(%s) %s (%s)(%s))' % (ct, sct, x, '/' if op == 'sdiv' else '%', sct, y)
        else:
            raise Unsupported(op)
        if st.bits not in (8, 16, 32, 64, 128):
            e = '(%s)(%s & %dULL)' % (ct, e, (1 << st.bits) - 1)
        return e

    for _op in ['add', 'sub', 'mul', 'and', 'or', 'xor', 'fadd', 'fsub', 'fmul', 'fdiv', 'shl', 'lshr', 'ashr', 'udiv', 'urem', 'sdiv', 'srem']:
        exec("def i_%s(s, p, dest): s.binop(p, dest, %r)" % (_op, _op))

    def i_fneg(s, p, dest):
        s.skip_flags(p)
        ty = p.parse_type(); a = p.parse_value(ty)
        d = s.defreg(dest, ty); A = s.V(a); st = s.scalar_ty(ty)
        if isinstance(ty, VecTy): A = s.mat(A, ty)
        for i in range(s.lanes(ty) or 1):
            s.emit('%s = FNEG_%d(%s);' % (s.lane(d, ty, i), st.bits, s.lane(A, ty, i)))

    def i_alloca(s, p, dest):
        ty = p.parse_type()
        n = 1
        align = None
        while p.eat(','):
            if p.eat('align'): align = int(p.next()[1])
            else:
                t = p.parse_type(); v = p.parse_value(t)
                if v[0] != 'iconst': raise Unsupported("dynamic alloca")
                n = v[1]
        size, al = size_align(ty)
        size *= n
        align = align or al
        d = s.defreg(dest, PtrTy(ty))
        # choose an element type for the backing array
        leaf = leaf_scalar(ty)
        if leaf is not None and size % size_align(leaf)[0] == 0:
            ect = s.em.cty(leaf); cnt = size // size_align(leaf)[0]
        else:
            ect = 'u8'; cnt = size
        # worst-case placement: object base is 64-aligned, storage starts at offset A (A<64) so that it is
        # aligned to exactly `align` and no more.
        pad = align if align < 64 else 0
        esz = {'u8': 1, 'u16': 2, 'u32': 4, 'u64': 8, 'float': 4, 'double': 8, 'ptr_t': 8}[ect]
        if pad % esz: pad = 0
        s.decls.append('%s %s_mem[%d];' % (ect, d, cnt + pad // esz))
        s.emit('%s = (ptr_t)%s_mem + %d;' % (d, d, pad))
        s.objty[dest] = esz * 8

    def i_bitcast(s, p, dest):
        t1 = p.parse_type(); v = p.parse_value(t1); p.expect('to'); t2 = p.parse_type()
        d = s.defreg(dest, t2)
        if isinstance(t1, PtrTy) and isinstance(t2, PtrTy):
            if v[0] == 'local' and v[1] in s.objty: s.objty[dest] = s.objty[v[1]]
            s.emit('%s = %s;' % (d, s.V(v))); return
        s.bitcast_val(d, t2, s.V(v), t1)

    def bitcast_val(s, d, t2, A, t1):
        """value bitcast, little endian, emitted as whole-lane moves (shift/or/truncate) -- no unions, so CBMC
        never sees byte_extract on vector structs."""
        em = s.em
        # i1 vectors <-> ints
        if isinstance(t1, VecTy) and isinstance(t1.elem, IntTy) and t1.elem.bits == 1 and isinstance(t2, IntTy):
            A = s.mat(A, t1)
            s.emit('%s = (%s)(%s);' % (d, em.cty(t2), ' | '.join('((u64)(%s.e[%d] & 1) << %d)' % (A, i, i) for i in range(t1.n))))
            return
        if isinstance(t2, VecTy) and isinstance(t2.elem, IntTy) and t2.elem.bits == 1 and isinstance(t1, IntTy):
            for i in range(t2.n):
                s.emit('%s.e[%d] = (u8)((%s >> %d) & 1);' % (d, i, A, i))
            return
        def lanes_of(t):
            if isinstance(t, VecTy):
                if not isinstance(t.elem, (IntTy, FloatTy)): raise Unsupported("bitcast of %r" % (t,))
                return t.n, t.elem.bits
            if isinstance(t, (IntTy, FloatTy)): return 1, t.bits
            raise Unsupported("bitcast of %r" % (t,))
        n1, b1 = lanes_of(t1); n2, b2 = lanes_of(t2)
        if n1 * b1 != n2 * b2 or b1 not in (8, 16, 32, 64) or b2 not in (8, 16, 32, 64):
            raise Unsupported("bitcast %r -> %r" % (t1, t2))
        if isinstance(t1, VecTy): A = s.mat(A, t1)
        src = (lambda i: '%s.e[%d]' % (A, i)) if isinstance(t1, VecTy) else (lambda i: A)
        dst = (lambda j: '%s.e[%d]' % (d, j)) if isinstance(t2, VecTy) else (lambda j: d)
        c2 = 'u%d' % b2
        if b1 == b2:
            for j in range(n2): s.emit('%s = %s;' % (dst(j), src(j)))
        elif b1 > b2:
            r = b1 // b2
            for j in range(n2):
                sh = (j % r) * b2
                s.emit('%s = (%s)(%s >> %d);' % (dst(j), c2, src(j // r), sh) if sh else '%s = (%s)%s;' % (dst(j), c2, src(j // r)))
        else:
            r = b2 // b1
            for j in range(n2):
                parts = ['((%s)%s << %d)' % (c2, src(j * r + i), i * b1) if i else '(%s)%s' % (c2, src(j * r + i)) for i in range(r)]
                s.emit('%s = %s;' % (dst(j), ' | '.join(parts)))

    def i_getelementptr(s, p, dest):
        s.skip_flags(p)
        srcty = p.parse_type(); p.expect(',')
        bt = p.parse_type(); base = p.parse_value(bt)
        if isinstance(bt, VecTy): raise Unsupported("vector gep")
        idx = []
        while p.eat(','):
            it = p.parse_type(); iv = p.parse_value(it)
            idx.append((it, s.V(iv), iv))
        d = s.defreg(dest, PtrTy(None))
        if base[0] == 'local' and base[1] in s.objty: s.objty[dest] = s.objty[base[1]]
        s.emit('%s = %s;' % (d, s.em.gep_expr(srcty, s.V(base), idx)))

    def i_load(s, p, dest):
        volatile = p.eat('volatile')
        p.eat('atomic'); p.eat('volatile')
        ty = p.parse_type(); p.expect(',')
        pt = p.parse_type(); ptr = p.parse_value(pt)
        align = None
        while not p.done():
            if p.eat('align'): align = int(p.next()[1])
            else: p.next()
        d = s.defreg(dest, ty)
        P_ = s.V(ptr)
        s.align_check(P_, align, ty)
        if isinstance(ty, VecTy):
            s.cur_obj_bits = s.objty.get(ptr[1]) if ptr[0] == 'local' else None
            s.vec_load(d, ty, P_)
        else:
            s.emit('%s = *(%s*)(%s);' % (d, s.em.cty(ty), P_))

    def vec_split(s, ty):
        """lane-wise memory access plan: (lane bits, words per lane, word bits)."""
        if not isinstance(ty.elem, (IntTy, FloatTy, PtrTy)): raise Unsupported("memory access of %r" % (ty,))
        lb = 64 if isinstance(ty.elem, PtrTy) else ty.elem.bits
        if lb not in (8, 16, 32, 64): raise Unsupported("memory access of %r" % (ty,))
        db = getattr(s, 'cur_obj_bits', None) or s.em.data_bits
        if isinstance(ty.elem, IntTy) and lb > db and db >= 8: return lb, lb // db, db
        return lb, 1, lb

    def vec_load(s, d, ty, P_):
        lb, r, wb = s.vec_split(ty)
        pp = s.tmp('ptr_t'); s.emit('%s = %s;' % (pp, P_))
        ct = s.em.cty(ty.elem)
        for i in range(ty.n):
            if r == 1:
                s.emit('%s.e[%d] = *(%s*)(%s + %d);' % (d, i, ct, pp, i * lb // 8))
            else:
                parts = ['((%s)*(u%d*)(%s + %d) << %d)' % (ct, wb, pp, (i * r + j) * wb // 8, j * wb) for j in range(r)]
                s.emit('%s.e[%d] = %s;' % (d, i, ' | '.join(parts)))

    def vec_store(s, ty, P_, V_):
        lb, r, wb = s.vec_split(ty)
        pp = s.tmp('ptr_t'); s.emit('%s = %s;' % (pp, P_))
        vv = s.mat(V_, ty)
        ct = s.em.cty(ty.elem)
        for i in range(ty.n):
            if r == 1:
                s.emit('*(%s*)(%s + %d) = %s.e[%d];' % (ct, pp, i * lb // 8, vv, i))
            else:
                for j in range(r):
                    s.emit('*(u%d*)(%s + %d) = (u%d)(%s.e[%d] >> %d);' % (wb, pp, (i * r + j) * wb // 8, wb, vv, i, j * wb))

    def align_check(s, P_, align, ty):
        if align and align > size_align(s.scalar_ty(ty) if isinstance(ty, VecTy) else ty)[1] and align >= 16:
            s.em.stats['align_asserts'] += 1
            s.emit('__CPROVER_assert(ALIGNED_TO(%s, %d), "alignment: %d-byte aligned access");' % (P_, align, align))

    def i_store(s, p, dest):
        p.eat('volatile')
        ty = p.parse_type(); v = p.parse_value(ty); p.expect(',')
        pt = p.parse_type(); ptr = p.parse_value(pt)
        align = None
        while p.eat(','):
            if p.eat('align'): align = int(p.next()[1])
            else: break
        P_ = s.V(ptr)
        s.align_check(P_, align, ty)
        if isinstance(ty, VecTy):
            s.cur_obj_bits = s.objty.get(ptr[1]) if ptr[0] == 'local' else None
            s.vec_store(ty, P_, s.V(v))
        else:
            s.emit('*(%s*)(%s) = %s;' % (s.em.cty(ty), P_, s.V(v)))

    def i_br(s, p, dest):
        if p.eat('label'):
            s.emit(s.goto(p.next()[1])); return
        t = p.parse_type(); c = p.parse_value(t); p.expect(',')
        p.expect('label'); a = p.next()[1]; p.expect(','); p.expect('label'); b = p.next()[1]
        # CBMC resets a loop's unwind counter only when a *conditional backward* goto falls through:
        # emit the backward edge (label already emitted) as the conditional one.
        back_a = a[1:] in s.emitted_labels; back_b = b[1:] in s.emitted_labels
        tc = s.tmp('u8')
        def split(g):   # '{ copies; goto L; }' -> ('copies;', 'goto L;')
            inner = g[2:-2].strip(); k = inner.rfind('goto '); return inner[:k].strip(), inner[k:]
        if back_b and not back_a:
            cp, gt = split(s.goto(b))
            s.emit('%s = !%s;' % (tc, s.V(c)))
            if cp: s.emit('if (%s) { %s }' % (tc, cp))
            s.emit('if (%s) %s' % (tc, gt)); s.emit(s.goto(a))
        else:
            cp, gt = split(s.goto(a))
            s.emit('%s = %s;' % (tc, s.V(c)))
            if cp: s.emit('if (%s) { %s }' % (tc, cp))
            s.emit('if (%s) %s' % (tc, gt)); s.emit(s.goto(b))

    def i_switch(s, p, dest):
        t = p.parse_type(); v = p.parse_value(t); p.expect(','); p.expect('label'); dflt = p.next()[1]
        p.expect('[')
        V_ = s.V(v)
        if s.em.atoms and isinstance(t, IntTy) and t.bits in (32, 64): V_ = 'CTL_%d(%s)' % (t.bits, V_)
        while not p.eat(']'):
            ct = p.parse_type(); cv = p.parse_value(ct); p.expect(','); p.expect('label'); tgt = p.next()[1]
            s.emit('if (%s == %s) %s' % (V_, s.V(cv), s.goto(tgt)))
        s.emit(s.goto(dflt))

    def i_ret(s, p, dest):
        t = p.parse_type()
        if isinstance(t, VoidTy): s.emit('return;'); return
        v = p.parse_value(t)
        s.emit('return %s;' % s.V(v))

    def i_unreachable(s, p, dest):
        s.emit('__CPROVER_assert(0, "unreachable reached"); __CPROVER_assume(0);')

    ICMP = {'eq': ('==', 0), 'ne': ('!=', 0), 'ugt': ('>', 0), 'uge': ('>=', 0), 'ult': ('<', 0), 'ule': ('<=', 0),
            'sgt': ('>', 1), 'sge': ('>=', 1), 'slt': ('<', 1), 'sle': ('<=', 1)}
    def i_icmp(s, p, dest):
        pred = p.next()[1]
        ty = p.parse_type(); a = p.parse_value(ty); p.expect(','); b = p.parse_value(ty)
        st = s.scalar_ty(ty)
        rty = VecTy(ty.n, IntTy(1)) if isinstance(ty, VecTy) else IntTy(1)
        d = s.defreg(dest, rty)
        A = s.V(a); B = s.V(b)
        cop, signed = s.ICMP[pred]
        for i in range(s.lanes(ty) or 1):
            x = s.lane(A, ty, i); y = s.lane(B, ty, i)
            if em_atoms(s) and isinstance(st, IntTy) and st.bits in (32, 64):
                x = 'CTL_%d(%s)' % (st.bits, x); y = 'CTL_%d(%s)' % (st.bits, y)
            if isinstance(st, PtrTy):
                e = '(%s %s %s)' % (x, cop, y)
            elif signed:
                e = '(%s %s %s)' % (s.em.sext_expr(x, st, 64), cop, s.em.sext_expr(y, st, 64))
            else:
                e = '(%s %s %s)' % (x, cop, y)
            s.emit('%s = (u8)%s;' % (s.lane(d, rty, i), e))

    def i_fcmp(s, p, dest):
        s.skip_flags(p)
        pred = p.next()[1]
        ty = p.parse_type(); a = p.parse_value(ty); p.expect(','); b = p.parse_value(ty)
        st = s.scalar_ty(ty)
        rty = VecTy(ty.n, IntTy(1)) if isinstance(ty, VecTy) else IntTy(1)
        d = s.defreg(dest, rty)
        A = s.V(a); B = s.V(b)
        if isinstance(ty, VecTy): A = s.mat(A, ty); B = s.mat(B, ty)
        for i in range(s.lanes(ty) or 1):
            x = s.lane(A, ty, i); y = s.lane(B, ty, i)
            if pred == 'true': e = '1'
            elif pred == 'false': e = '0'
            else: e = 'FCMP_%s_%d(%s, %s)' % (pred, st.bits, x, y)
            s.emit('%s = (u8)%s;' % (s.lane(d, rty, i), e))

    def i_select(s, p, dest):
        s.skip_flags(p)
        ct = p.parse_type(); c = p.parse_value(ct); p.expect(',')
        ty = p.parse_type(); a = p.parse_value(ty); p.expect(',')
        ty2 = p.parse_type(); b = p.parse_value(ty2)
        d = s.defreg(dest, ty)
        C = s.V(c); A = s.V(a); B = s.V(b)
        if isinstance(ct, VecTy):
            for i in range(ty.n):
                s.emit('%s.e[%d] = %s.e[%d] ? %s.e[%d] : %s.e[%d];' % (d, i, C, i, s.mat(A, ty), i, s.mat(B, ty), i))
        else:
            s.emit('%s = %s ? %s : %s;' % (d, C, A, B))

    def mat(s, expr, ty):
        """materialise an aggregate expression into a temp so it can be indexed."""
        if re.fullmatch(r'[rt]_?\w+', expr): return expr
        t = s.tmp(s.em.cty(ty)); s.emit('%s = %s;' % (t, expr)); return t

    def conv(s, p, dest, op):
        s.skip_flags(p)
        t1 = p.parse_type(); v = p.parse_value(t1); p.expect('to'); t2 = p.parse_type()
        d = s.defreg(dest, t2)
        A = s.V(v)
        if isinstance(t1, VecTy): A = s.mat(A, t1)
        s1 = s.scalar_ty(t1); s2 = s.scalar_ty(t2)
        c2 = s.em.cty(s2)
        atoms = s.em.atoms
        for i in range(s.lanes(t1) or 1):
            x = s.lane(A, t1, i)
            if op == 'zext':
                e = '(%s)%s' % (c2, x)
            elif op == 'sext':
                if atoms and s1.bits in (32, 64): x = 'CTLA_%d(%s)' % (s1.bits, x)
                e = '(%s)%s' % (c2, s.em.sext_expr(x, s1, 64))
            elif op == 'trunc':
                if atoms and s1.bits in (32, 64):
                    x = ('TRUNCSRC_%d_%d(%s)' % (s1.bits, s2.bits, x))
                e = '(%s)%s' % (c2, x)
                if s2.bits not in (8, 16, 32, 64): e = '(%s)(%s & %dULL)' % (c2, e, (1 << s2.bits) - 1)
            elif op in ('ptrtoint',):
                e = '(%s)%s' % (c2, x)
                if not isinstance(t1, VecTy) and s2.bits == 64 and dest: s.p2i[dest] = x
            elif op in ('inttoptr',):
                if atoms and s1.bits in (32, 64): x = 'CTL_%d(%s)' % (s1.bits, x)
                e = '(ptr_t)%s' % x
            elif op in ('sitofp', 'uitofp'):
                if s1.bits not in (8, 16, 32, 64): raise Unsupported("%s from i%d" % (op, s1.bits))
                e = 'CV_%s_%d_%d(%s)' % (op, s1.bits, s2.bits, x)
            elif op in ('fptosi', 'fptoui'):
                if s2.bits not in (8, 16, 32, 64): raise Unsupported("%s to i%d" % (op, s2.bits))
                e = '(%s)CV_%s_%d_%d(%s)' % (c2, op, s1.bits, s2.bits, x)
            elif op in ('fpext', 'fptrunc'):
                e = 'CV_%s_%d_%d(%s)' % (op, s1.bits, s2.bits, x)
            else: raise Unsupported(op)
            s.emit('%s = %s;' % (s.lane(d, t2, i), e))
    for _op in ['zext', 'sext', 'trunc', 'ptrtoint', 'inttoptr', 'sitofp', 'uitofp', 'fptosi', 'fptoui', 'fpext', 'fptrunc']:
        exec("def i_%s(s, p, dest): s.conv(p, dest, %r)" % (_op, _op))

    def i_insertelement(s, p, dest):
        vt = p.parse_type(); v = p.parse_value(vt); p.expect(',')
        et = p.parse_type(); e = p.parse_value(et); p.expect(',')
        it = p.parse_type(); idx = p.parse_value(it)
        d = s.defreg(dest, vt)
        s.emit('%s = %s; %s.e[%s] = %s;' % (d, s.V(v), d, s.V(idx), s.V(e)))

    def i_extractelement(s, p, dest):
        vt = p.parse_type(); v = p.parse_value(vt); p.expect(',')
        it = p.parse_type(); idx = p.parse_value(it)
        d = s.defreg(dest, vt.elem)
        s.emit('%s = %s.e[%s];' % (d, s.mat(s.V(v), vt), s.V(idx)))

    def i_shufflevector(s, p, dest):
        vt = p.parse_type(); a = p.parse_value(vt); p.expect(',')
        vt2 = p.parse_type(); b = p.parse_value(vt2); p.expect(',')
        mt = p.parse_type(); m = p.parse_value(mt)
        rty = VecTy(mt.n, vt.elem)
        d = s.defreg(dest, rty)
        A = s.mat(s.V(a), vt) if a[0] not in ('undef',) else None
        B = s.mat(s.V(b), vt) if b[0] not in ('undef',) else None
        if m[0] == 'zero': mask = [0] * mt.n
        elif m[0] == 'undef': mask = [None] * mt.n
        else: mask = [None if e[0] == 'undef' else e[1] for e in m[1]]
        tmpd = s.tmp(s.em.cty(rty))
        for i, mi in enumerate(mask):
            if mi is None:
                src = s.em.zero_or_nondet(vt.elem, True)
            elif mi < vt.n:
                src = '%s.e[%d]' % (A, mi) if A else s.em.zero_or_nondet(vt.elem, True)
            else:
                src = '%s.e[%d]' % (B, mi - vt.n) if B else s.em.zero_or_nondet(vt.elem, True)
            s.emit('%s.e[%d] = %s;' % (tmpd, i, src))
        s.emit('%s = %s;' % (d, tmpd))

    def i_extractvalue(s, p, dest):
        t = p.parse_type(); v = p.parse_value(t)
        cur = t; path = ''
        while p.eat(','):
            i = int(p.next()[1])
            if isinstance(cur, StructTy): path += '.f%d' % i; cur = cur.elems[i]
            else: path += '.e[%d]' % i; cur = cur.elem
        d = s.defreg(dest, cur)
        s.emit('%s = %s%s;' % (d, s.mat(s.V(v), t), path))

    def i_insertvalue(s, p, dest):
        t = p.parse_type(); v = p.parse_value(t); p.expect(',')
        et = p.parse_type(); e = p.parse_value(et)
        cur = t; path = ''
        while p.eat(','):
            i = int(p.next()[1])
            if isinstance(cur, StructTy): path += '.f%d' % i; cur = cur.elems[i]
            else: path += '.e[%d]' % i; cur = cur.elem
        d = s.defreg(dest, t)
        s.emit('%s = %s; %s%s = %s;' % (d, s.V(v), d, path, s.V(e)))

    def i_freeze(s, p, dest):
        t = p.parse_type(); v = p.parse_value(t)
        d = s.defreg(dest, t); s.emit('%s = %s;' % (d, s.V(v)))

    def i_invoke(s, p, dest):
        s.i_call(p, dest, invoke=True)

    def i_landingpad(s, p, dest):
        s.emit('__CPROVER_assume(0); /* landingpad: exceptional paths are cut */')
        if dest:
            # still declare the register so later uses compile
            t = p.parse_type(); s.defreg(dest, t)

    def i_resume(s, p, dest):
        s.emit('__CPROVER_assume(0);')

    def i_call(s, p, dest, invoke=False):
        em = s.em
        s.skip_flags(p)
        while p.peek()[1] in FN_PREFIX_KW or p.peek()[1] in ('align', 'dereferenceable', 'dereferenceable_or_null'):
            p.skip_param_attrs()
            if p.peek()[1] in FN_PREFIX_KW: p.next()
        rt = p.parse_type()   # may be a function type for varargs
        if isinstance(rt, FuncTy): rt = rt.ret
        if isinstance(rt, PtrTy) and isinstance(rt.pointee, FuncTy): rt = rt.pointee.ret
        k, callee = p.next()
        if callee == 'asm':
            while p.peek()[0] != 'str': p.next()
            tmpl = p.next()[1]
            if tmpl != '""': raise Unsupported("inline asm %s" % tmpl)
            s.emit('/* empty inline asm (Fastor unused()) dropped */'); return
        if k != 'global':
            raise Unsupported("indirect call: %r" % callee)
        p.expect('(')
        args = []
        while not p.eat(')'):
            t = p.parse_type()
            if isinstance(t, MetaTy):
                # metadata argument: skip tokens until , or )
                depth = 0
                while True:
                    kk, vv = p.peek()
                    if vv in ('(', '{', '[', '<'): depth += 1
                    if vv in (')', '}', ']', '>'):
                        if depth == 0: break
                        depth -= 1
                    if vv == ',' and depth == 0: break
                    p.next()
                args.append(None); p.eat(','); continue
            p.skip_param_attrs()
            args.append((t, p.parse_value(t)))
            p.eat(',')
        normal = None
        if invoke:
            # skip attrs until 'to'
            while p.peek()[1] != 'to':
                if p.done(): raise Unsupported('invoke without normal destination')
                p.next()
            p.expect('to'); p.expect('label'); normal = p.next()[1]
        d = s.defreg(dest, rt) if dest else None
        s.call(callee, rt, args, d)
        if invoke:
            s.emit(s.goto(normal))

    def call(s, callee, rt, args, d):
        em = s.em
        name = callee[1:]
        A = [s.V(a[1]) if a else None for a in args]
        T = [a[0] if a else None for a in args]
        if name.startswith('llvm.'):
            return s.intrinsic(name, rt, T, A, d, args)
        if callee in em.mod.functions:
            em.need_fn.add(callee)
            call = '%s(%s)' % (cname(callee), ', '.join(A))
            s.emit(('%s = %s;' % (d, call)) if d else call + ';')
            return
        ext = EXTERNALS.get(name)
        if ext is None:
            raise Unsupported("external call %s" % name)
        em.used_externals.add(name)
        call = '%s(%s)' % (ext, ', '.join(A))
        s.emit(('%s = %s;' % (d, call)) if d else call + ';')

    def word_bits(s, *ptrs):
        """element width used for word-wise copies: that of the local array a pointer is known to point into,
        else the unit's data width."""
        for v in ptrs:
            if v[0] == 'local' and v[1] in s.objty: return s.objty[v[1]]
        return s.em.data_bits

    def intrinsic(s, name, rt, T, A, d, rawargs):
        em = s.em
        if name.startswith(('llvm.lifetime.', 'llvm.experimental.noalias.scope.decl', 'llvm.dbg.', 'llvm.assume', 'llvm.invariant.')):
            if d: s.emit('%s = (ptr_t)0;' % d)
            return
        if name.startswith('llvm.memcpy.') or name.startswith('llvm.memmove.'):
            fn = 'memmove' if 'memmove' in name else 'memcpy'
            ln = rawargs[2][1]
            wbits = s.word_bits(rawargs[0][1], rawargs[1][1])
            wb = wbits // 8
            if ln[0] == 'iconst' and ln[1] % wb == 0 and 0 < ln[1] // wb <= 8192:
                # constant-length copy of whole data words: word-by-word moves (same effect as memcpy on whole
                # elements; avoids CBMC's byte-level memcpy model)
                n = ln[1] // wb; ct = 'u%d' % wbits
                if fn == 'memcpy':
                    s.emit('{ ptr_t cd = %s, cs = %s; for (u32 ck = 0; ck < %du; ck++) ((%s*)cd)[ck] = ((%s*)cs)[ck]; }' % (A[0], A[1], n, ct, ct))
                else:
                    s.emit('{ ptr_t cd = %s, cs = %s; %s ct[%d]; for (u32 ck = 0; ck < %du; ck++) ct[ck] = ((%s*)cs)[ck]; for (u32 ck = 0; ck < %du; ck++) ((%s*)cd)[ck] = ct[ck]; }' % (A[0], A[1], ct, n, n, ct, n, ct))
                return
            if ln[0] == 'iconst' and ln[1] == 0: return
            s.emit('VERIF_%s(%s, %s, %s);' % (fn, A[0], A[1], A[2])); return
        if name.startswith('llvm.memset.'):
            ln = rawargs[2][1]; bv = rawargs[1][1]
            wbits = s.word_bits(rawargs[0][1])
            wb = wbits // 8
            if ln[0] == 'iconst' and bv[0] == 'iconst' and ln[1] % wb == 0 and 0 < ln[1] // wb <= 8192:
                n = ln[1] // wb; ct = 'u%d' % wbits
                word = int.from_bytes(bytes([bv[1] & 255]) * wb, 'little')
                s.emit('{ ptr_t cd = %s; for (u32 ck = 0; ck < %du; ck++) ((%s*)cd)[ck] = (%s)%dULL; }' % (A[0], n, ct, ct, word))
                return
            s.emit('VERIF_memset(%s, %s, %s);' % (A[0], A[1], A[2])); return
        m = re.match(r'llvm\.(fmuladd|fma)\.(f32|f64|v\d+f32|v\d+f64)$', name)
        if m:
            ty = T[0]; st = s.scalar_ty(ty)
            a, b, c = [s.mat(x, ty) if isinstance(ty, VecTy) else x for x in A]
            mac = 'FMA' if m.group(1) == 'fma' else 'FMULADD'
            for i in range(s.lanes(ty) or 1):
                x, y, z = s.lane(a, ty, i), s.lane(b, ty, i), s.lane(c, ty, i)
                s.emit('%s = %s_%d(%s, %s, %s);' % (s.lane(d, ty, i), mac, st.bits, x, y, z))
            return
        m = re.match(r'llvm\.(sqrt|fabs|floor|ceil|trunc|rint|nearbyint|round|roundeven)\.(f32|f64|v\d+f32|v\d+f64)$', name)
        if m:
            ty = T[0]; st = s.scalar_ty(ty)
            a = s.mat(A[0], ty) if isinstance(ty, VecTy) else A[0]
            fn = '%s_%d' % ({'sqrt': 'FSQRT', 'fabs': 'FABS'}.get(m.group(1), 'F' + m.group(1).upper()), st.bits)
            for i in range(s.lanes(ty) or 1):
                s.emit('%s = %s(%s);' % (s.lane(d, ty, i), fn, s.lane(a, ty, i)))
            return
        m = re.match(r'llvm\.(minnum|maxnum|copysign|pow)\.(f32|f64|v\d+f32|v\d+f64)$', name)
        if m:
            ty = T[0]; st = s.scalar_ty(ty)
            a = s.mat(A[0], ty) if isinstance(ty, VecTy) else A[0]
            b = s.mat(A[1], ty) if isinstance(ty, VecTy) else A[1]
            fn = 'F%s_%d' % (m.group(1).upper(), st.bits)
            for i in range(s.lanes(ty) or 1):
                s.emit('%s = %s(%s, %s);' % (s.lane(d, ty, i), fn, s.lane(a, ty, i), s.lane(b, ty, i)))
            return
        m = re.match(r'llvm\.(sin|cos|exp|exp2|log|log2|log10)\.(f32|f64|v\d+f32|v\d+f64)$', name)
        if m:
            ty = T[0]; st = s.scalar_ty(ty)
            a = s.mat(A[0], ty) if isinstance(ty, VecTy) else A[0]
            fn = 'FLIBM_%s_%d' % (m.group(1), st.bits)
            for i in range(s.lanes(ty) or 1):
                s.emit('%s = %s(%s);' % (s.lane(d, ty, i), fn, s.lane(a, ty, i)))
            return
        m = re.match(r'llvm\.masked\.load\.', name)
        if m:
            ty = rt; ptr, align, mask, passthru = A
            mk = s.mat(mask, T[2]); pt = s.mat(passthru, ty)
            ect = em.cty(ty.elem); esz = size_align(ty.elem)[0]
            for i in range(ty.n):
                s.emit('%s.e[%d] = %s.e[%d] ? *(%s*)(%s + %d) : %s.e[%d];' % (d, i, mk, i, ect, ptr, i * esz, pt, i))
            return
        m = re.match(r'llvm\.masked\.store\.', name)
        if m:
            val, ptr, align, mask = A; ty = T[0]
            mk = s.mat(mask, T[3]); vv = s.mat(val, ty)
            ect = em.cty(ty.elem); esz = size_align(ty.elem)[0]
            for i in range(ty.n):
                s.emit('if (%s.e[%d]) *(%s*)(%s + %d) = %s.e[%d];' % (mk, i, ect, ptr, i * esz, vv, i))
            return
        m = re.match(r'llvm\.(s|u)(min|max)\.(i\d+|v\d+i\d+)$', name)
        if m:
            ty = T[0]; st = s.scalar_ty(ty)
            a = s.mat(A[0], ty) if isinstance(ty, VecTy) else A[0]
            b = s.mat(A[1], ty) if isinstance(ty, VecTy) else A[1]
            cop = '<' if m.group(2) == 'min' else '>'
            for i in range(s.lanes(ty) or 1):
                x, y = s.lane(a, ty, i), s.lane(b, ty, i)
                if m.group(1) == 's':
                    c = '%s %s %s' % (em.sext_expr(x, st, 64), cop, em.sext_expr(y, st, 64))
                else:
                    c = '%s %s %s' % (x, cop, y)
                s.emit('%s = (%s) ? %s : %s;' % (s.lane(d, ty, i), c, x, y))
            return
        m = re.match(r'llvm\.abs\.(i\d+|v\d+i\d+)$', name)
        if m:
            ty = T[0]; st = s.scalar_ty(ty); ct = em.cty(st)
            a = s.mat(A[0], ty) if isinstance(ty, VecTy) else A[0]
            for i in range(s.lanes(ty) or 1):
                x = s.lane(a, ty, i)
                s.emit('%s = (%s < 0) ? (%s)(0 - %s) : %s;' % (s.lane(d, ty, i), em.sext_expr(x, st, 64), ct, x, x))
            return
        m = re.match(r'llvm\.vector\.reduce\.(add|mul|and|or|xor)\.v\d+i\d+$', name)
        if m:
            ty = T[0]; a = s.mat(A[0], ty); ct = em.cty(ty.elem)
            cop = {'add': '+', 'mul': '*', 'and': '&', 'or': '|', 'xor': '^'}[m.group(1)]
            e = '%s.e[0]' % a
            for i in range(1, ty.n):
                e = s.scalar_binop(m.group(1), ty.elem, e, '%s.e[%d]' % (a, i))
            s.emit('%s = %s;' % (d, e)); return
        m = re.match(r'llvm\.x86\.avx2?\.maskload\.(ps|pd|d|q)(\.256)?$', name)
        if m:
            ty = rt; ptr, mask = A; mt = T[1]
            mk = s.mat(mask, mt)
            ect = em.cty(ty.elem); esz = size_align(ty.elem)[0]
            for i in range(ty.n):
                sgn = em.sext_expr('%s.e[%d]' % (mk, i), mt.elem, 64) if isinstance(mt.elem, IntTy) else None
                cond = '(%s < 0)' % sgn
                s.emit('%s.e[%d] = %s ? *(%s*)(%s + %d) : (%s)0;' % (d, i, cond, ect, ptr, i * esz, ect))
            return
        m = re.match(r'llvm\.x86\.avx2?\.maskstore\.(ps|pd|d|q)(\.256)?$', name)
        if m:
            ptr, mask, val = A; ty = T[2]; mt = T[1]
            mk = s.mat(mask, mt); vv = s.mat(val, ty)
            ect = em.cty(ty.elem); esz = size_align(ty.elem)[0]
            for i in range(ty.n):
                sgn = em.sext_expr('%s.e[%d]' % (mk, i), mt.elem, 64)
                s.emit('if (%s < 0) *(%s*)(%s + %d) = %s.e[%d];' % (sgn, ect, ptr, i * esz, vv, i))
            return
        m = re.match(r'llvm\.x86\.avx512\.vpermi2var\.(ps|pd|d|q|hi|qi)\.(128|256|512)$', name)
        if m:
            # result lane i = (idx[i] bit log2(N)) ? b[idx[i] mod N] : a[idx[i] mod N]      (Intel SDM VPERMI2*)
            ty = rt; a = s.mat(A[0], ty); ix = s.mat(A[1], T[1]); b = s.mat(A[2], ty); N = ty.n
            for i in range(N):
                s.emit('%s.e[%d] = (%s.e[%d] & %d) ? %s.e[%s.e[%d] & %d] : %s.e[%s.e[%d] & %d];' % (d, i, ix, i, N, b, ix, i, N - 1, a, ix, i, N - 1))
            return
        m = re.match(r'llvm\.x86\.avx512\.permvar\.(sf|df|si|di|hi|qi)\.(128|256|512)$', name) or re.match(r'llvm\.x86\.avx2\.perm(ps|d)$', name)
        if m:
            # result lane i = a[idx[i] mod N]
            ty = rt; a = s.mat(A[0], ty); ix = s.mat(A[1], T[1]); N = ty.n
            for i in range(N):
                s.emit('%s.e[%d] = %s.e[%s.e[%d] & %d];' % (d, i, a, ix, i, N - 1))
            return
        m = re.match(r'llvm\.x86\.(?:sse2?|avx|avx512)\.(min|max)\.(ps|pd|ss|sd)(\.256|\.512)?$', name)
        if m:
            # Intel SDM MINPS/MAXPS: dst = (src1 < src2) ? src1 : src2  (resp. >), ordered compare: a NaN operand or two
            # zeros give src2; the scalar forms (ss/sd) act on lane 0 and copy the upper lanes of src1.
            # (the .512 forms carry a rounding/SAE operand that does not change the result)
            ty = T[0]; st = s.scalar_ty(ty)
            a = s.mat(A[0], ty); b = s.mat(A[1], ty)
            pred = 'olt' if m.group(1) == 'min' else 'ogt'
            for i in range(ty.n):
                x, y = s.lane(a, ty, i), s.lane(b, ty, i)
                if m.group(2) in ('ss', 'sd') and i > 0:
                    s.emit('%s = %s;' % (s.lane(d, ty, i), x))
                else:
                    s.emit('%s = FCMP_%s_%d(%s, %s) ? %s : %s;' % (s.lane(d, ty, i), pred, st.bits, x, y, x, y))
            return
        m = re.match(r'llvm\.x86\.(?:sse41\.dpps|sse41\.dppd|avx\.dp\.ps\.256)$', name)
        if m and rawargs[2][1][0] == 'iconst':
            # Intel SDM DPPS/DPPD (per 128-bit lane): temp[j] = imm[4+j] ? a[j]*b[j] : +0.0;
            # sum = (temp3 + temp2) + (temp1 + temp0)  [DPPD: temp1 + temp0];  dst[j] = imm[j] ? sum : +0.0
            ty = T[0]; st = ty.elem; bts = st.bits; w = 128 // bts; imm = rawargs[2][1][1] & 255
            a = s.mat(A[0], ty); b = s.mat(A[1], ty)
            for base in range(0, ty.n, w):
                tmp = ['FMUL_%d(%s.e[%d], %s.e[%d])' % (bts, a, base + j, b, base + j) if (imm >> (4 + j)) & 1 else '((u%d)0)' % bts for j in range(w)]
                if w == 4: sm = 'FADD_%d(FADD_%d(%s, %s), FADD_%d(%s, %s))' % (bts, bts, tmp[3], tmp[2], bts, tmp[1], tmp[0])
                else: sm = 'FADD_%d(%s, %s)' % (bts, tmp[1], tmp[0])
                t = s.tmp('u%d' % bts); s.emit('%s = %s;' % (t, sm))
                for j in range(w):
                    s.emit('%s.e[%d] = %s;' % (d, base + j, t if (imm >> j) & 1 else '(u%d)0' % bts))
            return
        m = re.match(r'llvm\.x86\.(?:sse3|avx)\.(hadd|hsub)\.(ps|pd)(\.256)?$', name)
        if m:
            # Intel SDM HADDPS/HADDPD (per 128-bit lane): low half from src1 pairs, high half from src2 pairs; pair = x[2k] op x[2k+1]
            ty = T[0]; st = ty.elem; bts = st.bits; w = 128 // bts
            a = s.mat(A[0], ty); b = s.mat(A[1], ty)
            mac = 'FADD' if m.group(1) == 'hadd' else 'FSUB'
            for base in range(0, ty.n, w):
                for j in range(w):
                    src = a if j < w // 2 else b
                    k = base + 2 * (j % (w // 2))
                    s.emit('%s.e[%d] = %s_%d(%s.e[%d], %s.e[%d]);' % (d, base + j, mac, bts, src, k, src, k + 1))
            return
        m = re.match(r'llvm\.x86\.(?:sse2|avx2|avx512)\.(psrai|psrli|pslli)\.(w|d|q)(\.128|\.256|\.512)?$', name)
        if m:
            # Intel SDM PSRAW/D/Q, PSRLW/D/Q, PSLLW/D/Q with an i32 count: every lane shifted by the same count;
            # count > bits-1: all sign bits (arithmetic) / zero (logical)
            if em.atoms: raise Unsupported("intrinsic %s in ATOMS mode" % name)
            ty = T[0]; st = ty.elem; bts = st.bits; ct = em.cty(st)
            a = s.mat(A[0], ty)
            ck = s.tmp('u32'); s.emit('%s = (u32)(%s);' % (ck, A[1]))
            for i in range(ty.n):
                x = '%s.e[%d]' % (a, i)
                if m.group(1) == 'psrai':
                    sx = em.sext_expr(x, st, 64)
                    s.emit('%s.e[%d] = (%s > %du) ? ((%s < 0) ? (%s)~(%s)0 : (%s)0) : (%s)(%s >> %s);' % (d, i, ck, bts - 1, sx, ct, ct, ct, ct, sx, ck))
                elif m.group(1) == 'psrli':
                    s.emit('%s.e[%d] = (%s > %du) ? (%s)0 : (%s)(%s >> %s);' % (d, i, ck, bts - 1, ct, ct, x, ck))
                else:
                    s.emit('%s.e[%d] = (%s > %du) ? (%s)0 : (%s)(%s << %s);' % (d, i, ck, bts - 1, ct, ct, x, ck))
            return
        raise Unsupported("intrinsic %s" % name)


def em_atoms(fe):
    return fe.em.atoms

def leaf_scalar(t):
    """Return the common scalar leaf type of an aggregate ignoring trailing i8 padding arrays, or None."""
    leaves = []
    def walk(t, top_struct_last=False):
        if isinstance(t, (IntTy, FloatTy, PtrTy)): leaves.append(t)
        elif isinstance(t, (ArrTy, VecTy)): walk(t.elem)
        elif isinstance(t, StructTy):
            if t.elems is None: raise Unsupported("opaque")
            for i, e in enumerate(t.elems):
                if i == len(t.elems) - 1 and i > 0 and isinstance(e, ArrTy) and isinstance(e.elem, IntTy) and e.elem.bits == 8:
                    continue  # tail padding
                walk(e)
    walk(t)
    keys = set(l.key() for l in leaves)
    if len(keys) == 1:
        l = leaves[0]
        if isinstance(l, IntTy) and l.bits in (8, 16, 32, 64): return l
        if isinstance(l, FloatTy): return l
    return None

def has_float(t):
    if isinstance(t, FloatTy): return True
    if isinstance(t, (VecTy, ArrTy)): return has_float(t.elem)
    return False
def lane_bits(t):
    if isinstance(t, (VecTy, ArrTy)): return lane_bits(t.elem)
    if isinstance(t, (IntTy, FloatTy)): return t.bits
    return None

EXTERNALS = {
    '__cxa_guard_acquire': 'VERIF_cxa_guard_acquire',
    '__cxa_guard_release': 'VERIF_cxa_guard_release',
    '__cxa_allocate_exception': 'VERIF_cxa_allocate_exception',
    '__cxa_throw': 'VERIF_cxa_throw',
    '__cxa_free_exception': 'VERIF_cxa_free_exception',
    '_ZNSt13runtime_errorC1EPKc': 'VERIF_runtime_error_ctor',
    '_Znwm': 'VERIF_operator_new',
    '_Znam': 'VERIF_operator_new',
    '_ZdlPv': 'VERIF_operator_delete',
    '_ZdaPv': 'VERIF_operator_delete',
    'malloc': 'VERIF_operator_new',
    'abort': 'VERIF_abort', 'exit': 'VERIF_exit',
    '__cxa_begin_catch': 'VERIF_cxa_begin_catch', '__cxa_end_catch': 'VERIF_cxa_end_catch', '__cxa_rethrow': 'VERIF_cxa_rethrow',
    '_ZSt9terminatev': 'VERIF_abort', '__clang_call_terminate': 'VERIF_abort_p',
    'abs': 'VERIF_abs_i32', 'labs': 'VERIF_abs_i64', 'llabs': 'VERIF_abs_i64',   # defined in mode_sym.h / mode_uf.h only (not typed for ATOMS)
    'sqrtf': 'FSQRT_32', 'sqrt': 'FSQRT_64',
    'fabsf': 'FABS_32', 'fabs': 'FABS_64',
    'powf': 'FPOW_32', 'pow': 'FPOW_64', 'atan2f': 'FATAN2_32', 'atan2': 'FATAN2_64',
    'hypotf': 'FHYPOT_32', 'hypot': 'FHYPOT_64', 'fmodf': 'FFMOD_32', 'fmod': 'FFMOD_64',
    'floorf': 'FFLOOR_32', 'floor': 'FFLOOR_64', 'ceilf': 'FCEIL_32', 'ceil': 'FCEIL_64',
    'roundf': 'FROUND_32', 'round': 'FROUND_64', 'truncf': 'FTRUNC_32', 'trunc': 'FTRUNC_64',
}
for _fn in ('sin','cos','tan','asin','acos','atan','sinh','cosh','tanh','asinh','acosh','atanh','exp','exp2','expm1',
            'log','log2','log10','log1p','cbrt','erf','tgamma','lgamma'):
    EXTERNALS[_fn + 'f'] = 'FLIBM_%s_32' % _fn
    EXTERNALS[_fn] = 'FLIBM_%s_64' % _fn

def emit_global(em, name, g):
    ty, init, is_const, align = g
    size, al = size_align(ty)
    cn = 'g_' + cname(name)
    q = 'const ' if is_const else ''     # const matters: goto-instrument --dfcc havocs every non-const static at entry
    if init is None:
        return 'extern %su8 %s[%d];' % (q, cn, size)
    if init[0] == 'zero':
        return '%su8 %s[%d] __attribute__((aligned(64)))%s;' % (q, cn, size, ' = {0}' if is_const else '')
    if init[0] == 'cstr':
        raw = init[1][2:-1]
        bs = []
        i = 0
        while i < len(raw):
            if raw[i] == '\\':
                bs.append(int(raw[i+1:i+3], 16)); i += 3
            else:
                bs.append(ord(raw[i])); i += 1
        return '%su8 %s[%d] = {%s};' % (q, cn, size, ','.join(map(str, bs)))
    ct = em.cty(ty)
    return '%s%s %s = %s;' % (q, ct, cn, _static_init(em, init))

def _static_init(em, v):
    kind, data, ty = v
    if kind == 'agg':
        if isinstance(ty, (VecTy, ArrTy)):
            return '{{%s}}' % ', '.join(_static_init(em, e) for e in data)
        return '{%s}' % ', '.join('.f%d = %s' % (i, _static_init(em, e)) for i, e in enumerate(data))
    if kind == 'zero':
        return '{0}' if not isinstance(ty, (IntTy, FloatTy, PtrTy)) else '0'
    if kind == 'undef':
        return '{0}' if not isinstance(ty, (IntTy, FloatTy, PtrTy)) else '0'
    return em.val(v, None)

def parse_contract_file(path):
    """file format: blocks "//@ function <name>\n<clauses>"."""
    contract_text = {}
    cur = None
    for line in open(path):
        m = re.match(r'//@\s*function\s+(\w+)', line)
        if m: cur = m.group(1); contract_text[cur] = ''; continue
        if cur: contract_text[cur] += line
    return contract_text

def translate(mod, entries, atoms=False, contracts=None, data_bits=32, param_bits=None):
    """Translate `entries` (names without '@') and everything they call from parsed module `mod`.
    contracts: {c function name: clause text} spliced between declarator and body.
    Returns (c_text_without_prelude, info dict)."""
    contracts = contracts or {}
    em = Emitter(mod, atoms, data_bits)
    em.need_fn = set('@' + e for e in entries)
    em.used_externals = set()
    done = {}
    order = []
    while em.need_fn - set(done):
        fname = sorted(em.need_fn - set(done))[0]
        if fname not in mod.functions:
            raise Unsupported("entry %s not defined" % fname)
        f = mod.functions[fname]
        fe = FnEmitter(em, f)
        params = []
        for i, (t, n, info) in enumerate(f.params):
            if n is None: n = '%' + str(i)
            fe.regs[n] = (fe.regname(n), t)
            params.append('%s %s' % (em.cty(t), fe.regname(n)))
            if param_bits and fname == '@' + entries[0] and i < len(param_bits) and param_bits[i] and isinstance(t, PtrTy):
                fe.objty[n] = param_bits[i]    # element width of the caller's buffer behind this pointer
        fe.translate()
        done[fname] = (fe, params)
        order.append(fname)
    body = []
    protos = []
    for fname in order:
        fe, params = done[fname]
        f = fe.f
        sig = '%s %s(%s)' % (em.cty(f.ret), cname(fname), ', '.join(params) or 'void')
        protos.append(sig + ';')
        ctext = contracts.get(cname(fname), '')
        body.append(sig + '\n' + ctext + '{\n  ' + '\n  '.join(fe.decls) + '\n' + '\n'.join(fe.lines) + '\n}\n')
    gl = []
    mutable = []
    alltext = '\n'.join(body)
    for name, g in mod.globals.items():
        if re.search(r'\bg_' + re.escape(cname(name)) + r'\b', alltext):
            gl.append(emit_global(em, name, g))
            ty, init, is_const, align = g
            if not is_const and init is not None:
                scalar = isinstance(ty, (IntTy, FloatTy, PtrTy))
                zero = init[0] == 'zero' or (init[0] == 'iconst' and init[1] == 0) or init[0] == 'null'
                mutable.append({'name': 'g_' + cname(name), 'scalar': scalar, 'zero_init': zero, 'guard': name.startswith('@_ZGV')})
    out = []
    out += em.typedef_code
    out += em.helper_code.values()
    out += gl
    out += protos
    out += body
    info = dict(em.stats)
    info['functions'] = [cname(f) for f in order]
    info['externals'] = sorted(em.used_externals)
    info['mutable_globals'] = mutable
    return '\n'.join(out) + '\n', info

def main():
    args = sys.argv[1:]
    atoms = '--atoms' in args
    contracts = None
    if '--contracts' in args:
        contracts = args[args.index('--contracts') + 1]
    pos = [a for a in args if not a.startswith('--') and a != contracts]
    text = open(pos[0]).read()
    entries = pos[1].split(',')
    mod = parse_module(text)
    ctext, info = translate(mod, entries, atoms, parse_contract_file(contracts) if contracts else None)
    sys.stdout.write(ctext)
    sys.stderr.write('ir2c: %r\n' % (info,))

if __name__ == '__main__':
    try:
        main()
    except Unsupported as e:
        sys.stderr.write('ir2c: UNSUPPORTED: %s\n' % e)
        sys.exit(2)
