#!/usr/bin/env python3
"""print the per-property status rows of DESIGN.md section 9.4 from evidence/*.json"""
import json, glob, os
V = os.path.dirname(os.path.dirname(os.path.abspath(__file__)))
for f in sorted(glob.glob(os.path.join(V, 'evidence', 'C*.json'))):
    e = json.load(open(f)); c = e['coverage']
    modes = ' / '.join('%s %d' % (k, v) for k, v in sorted(c.get('cases_by_mode', {}).items()))
    enf = c.get('cases_by_enforcement', {})
    print('| %s | %s | %s | %s | %s/%s | %s | %s | %s | %.0f |' % (e['property_id'], e['tier'], c.get('cases'), modes, c.get('discharged'), c.get('obligations'),
          c.get('cases_known_finding', 0), c.get('cases_undecided', 0), ' '.join('%s:%s' % kv for kv in sorted(enf.items())), e['wall_s']))
