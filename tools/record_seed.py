#!/usr/bin/env python3
"""record_seed.py <seed-id> <caught_by_first_version yes|no|missed> <result text> [note]  -- merges confirm_summary.txt and the detection result into seeded/<id>/meta.json"""
import json, sys, os
sid, first, result = sys.argv[1:4]; note = sys.argv[4] if len(sys.argv) > 4 else ''
d = os.path.join(os.path.dirname(os.path.abspath(__file__)), '..', 'seeded', sid)
m = json.load(open(os.path.join(d, 'meta.json')))
cs = os.path.join(d, 'confirm_summary.txt')
if os.path.exists(cs):
    r = open(cs).read().strip()
    m['confirmed_by_main_session'] = {'command': 'tools/confirm_seed.sh <scratch worktree> seeded/%s <std> <flags>' % sid, 'result': r,
        'suite': 'the failures listed are the baseline always-fail set of the pinned tree the worktree was at; the 47 stable tests pass with the patch'}
m['detection'] = {'ran': 'tools/try_seed.sh <scratch worktree> seeded/%s/patch.diff <check> ...' % sid, 'result': result,
                  'caught_by_first_version': first == 'yes', 'note': note}
if first == 'missed': m['detection']['missed'] = True
json.dump(m, open(os.path.join(d, 'meta.json'), 'w'), indent=1)
print(sid, 'recorded')
