#!/bin/bash
# regenerate every registered evidence file with a full quick run (idle machine, all cores); usage: tools/regen_all.sh [props...]
cd "$(dirname "$0")/.." || exit 9
props=${@:-C01 C02 C03 C04 C05 C06 C07 C08 C09 C11 C13 C14 C15 C16 C17 C18 C19 C20}
mkdir -p .work/regen
for p in $props; do
  /usr/bin/time -f "%e" -o .work/regen/$p.time ./check $p --tier quick > .work/regen/$p.log 2>&1; rc=$?
  echo "$p rc=$rc $(cat .work/regen/$p.time)s $(grep "^\[$p\] quick" .work/regen/$p.log | cut -c1-200) viol=$(grep -c '^VIOLATION' .work/regen/$p.log) known=$(grep -c '^KNOWN-FINDING' .work/regen/$p.log)"
done
