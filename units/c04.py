"""C04 -- reading through an index or a slice returns exactly the selected elements.

Contracts (from the property text, never from the implementation):
  scalar indexing  A(i0,...,ik): the row-major element, every negative index counted from the end
                   (i < 0 denotes i + extent); the indices are *symbolic* arguments over the whole admissible
                   range [-extent, extent-1], so one proof covers every index tuple.
  slices           per axis a range (first,last,step) after the documented normalisation of last-relative
                   bounds (a negative bound x denotes x + extent + 1, i.e. `last` == -1 is the end of the axis;
                   the integer index `last` / fix<last> denotes the last element).  The slice is the tensor of
                   extent ceil((last-first)/step) per axis (checked through view.dimension(k) *and* through the
                   declared result type) whose element (j0..jk) is A(first0+j0*step0, ...).
Mode SYM (pure data movement, all element values symbolic); slices inside float arithmetic use UF on P0.
Dynamic seq triples are enumerated (exhaustive within the stated extents); several slices of the same tensor are
read in one entry (one contract, one clause per result element) to amortise the tool-chain start-up cost.
"""
from units.common import *

LEVEL_NOTE = ('per instantiation (tensor shape, range tuple, type, source kind Tensor/const Tensor/TensorMap, ISA, std) the contract is proved for '
              'all element values (and, for scalar indexing, for all index values incl. negative ones).  Dynamic seq(first,last,step) triples '
              'are enumerated: every triple incl. the last-relative encodings for rank-1 extents <= 5 (quick) / <= 8 (thorough), full products '
              'on 3x3 (quick) / 3x4, 4x5 (thorough) and covering sets on 4x5 / 5x6, result extents V-1, V, V+1, 2V(+1) per ISA with steps 1-3; '
              'compile-time families fseq / iseq / all / fix / first / last and mixtures are generated.  Known defects (families of their own): '
              '(1) TensorConstViewExpr<T,DIMS>::products_ (dynamic slice of a const tensor of rank >= 3) has no out-of-class definition: under '
              'C++14 the program does not link and the extracted IR reads an undefined constant (seqN-const, mixedN-const under c++14; proved under c++17); '
              '(2) a rank-2 TensorMap slice next to a rank-2 Tensor slice in one expression is evaluated with eval(row,col) although the generic '
              'view reads eval(i,j) as flat offset i+j (seq2x-map, fseq2x-map).  Not covered because the API rejects them at compile time: '
              'seq/fseq mixtures on const rank-2 tensors, iseq of rank 3 on non-const / ranks 1,2,4 on const tensors, iseq with `last`; int unary minus '
              'inside expressions is left to C02')

def evidence_extra(tier):
    t = tier == 'thorough'
    return {'box': {
        'isas': isas(tier), 'std': ['c++14', 'c++17'] if t else ['c++14 (+ c++17 twins of the const rank>=3 families)'],
        'types': ['int', 'float', 'double'],
        'scalar_indexing': 'symbolic indices in [-extent, extent-1] per axis, ranks 1-5, Tensor / const Tensor / TensorMap, operator() and operator[]',
        'rank1_seq_exhaustive_extent': 8 if t else 5, 'rank1_fseq_exhaustive_extent': 6 if t else 4,
        'rank2_seq_products': ['3x4', '4x5'] if t else ['3x3'], 'rank2_covering': '5x6' if t else '4x5',
        'encodings': 'non-negative; last negative (x+N+1); first and last negative; integer `last` / fix<last>',
        'simd_sweep': 'last-axis result extent in {V-1, V, V+1, 2V, 2V+1}, steps {1,2,3}, first offsets {0,1,2}, ranks 1-3',
        'ranks_3_4': 'random tuples over seq/fseq/all/int/first/last/fix/fix<last> on 2x3x4, 3x4x5, 2x2x3x3',
        'iseq': 'ranks 1,2,4 (non-const tensors), 3 (const tensors), non-negative bounds',
        'expressions': '-V (float types), V+V, V op V2 (two ranges of equal extent), V op T; int: + - (SYM); float/double: + - * / (UF on P0)',
        'dynamic_ranges': 'enumerated (bounded by the extents above), not symbolic'}}

# ----------------------------------------------------------------------------------------------
# range vocabulary shared with C05
# ----------------------------------------------------------------------------------------------
def cdiv(a, b):
    return -((-a) // b)

def normalise(f, l, N):
    """documented reading of (first,last) on an axis of extent N -> (first,last) with 0 <= first < last <= N, or None
    when the pair is not an admissible non-empty range."""
    if f == -1 and l == 0:            # the integer index `last` (seq(-1) == (-1,0)): the last element
        return (N - 1, N)
    if l < 0:
        l2 = l + N + 1
        f2 = f + N + 1 if f < 0 else f
    else:
        if f < 0: return None
        f2, l2 = f, l
    if 0 <= f2 < l2 <= N: return (f2, l2)
    return None

class Ax:
    """one argument of A(...): kind in seq fseq iseq all int fix first last fixlast sall"""
    def __init__(s, kind, f=0, l=0, st=1):
        s.kind = kind; s.f = f; s.l = l; s.st = st
        if kind in ('int', 'fix'): s.l = f + 1
        if kind in ('all', 'sall'): s.f, s.l, s.st = 0, -1, 1
        if kind == 'first': s.f, s.l, s.st = 0, 1, 1
        if kind in ('last', 'fixlast'): s.f, s.l, s.st = -1, 0, 1
    def is_fixed(s):     # compile-time (fseq family) argument
        return s.kind in ('fseq', 'all', 'fix', 'fixlast')
    def is_integer(s):
        return s.kind in ('int', 'first', 'last')
    def cpp(s):
        k = s.kind
        if k == 'seq': return 'seq(%d,%d)' % (s.f, s.l) if s.st == 1 and (s.f + s.l) % 2 else 'seq(%d,%d,%d)' % (s.f, s.l, s.st)
        if k == 'sall': return 'seq(0,-1,1)'
        if k == 'fseq': return 'fseq<%d,%d>()' % (s.f, s.l) if s.st == 1 and (s.f + s.l) % 2 else 'fseq<%d,%d,%d>()' % (s.f, s.l, s.st)
        if k == 'iseq': return 'iseq<%d,%d>()' % (s.f, s.l) if s.st == 1 and (s.f + s.l) % 2 else 'iseq<%d,%d,%d>()' % (s.f, s.l, s.st)
        if k == 'all': return 'all'
        if k == 'int': return '%d' % s.f
        if k == 'fix': return 'fix<%d>' % s.f
        if k == 'first': return 'first'
        if k == 'last': return 'last'
        if k == 'fixlast': return 'fix<last>'
        raise ValueError(k)
    def tag(s):
        k = s.kind
        if k in ('seq', 'fseq', 'iseq'): return '%s%s.%s.%d' % (k[0], str(s.f).replace('-', 'm'), str(s.l).replace('-', 'm'), s.st)
        if k in ('int', 'fix'): return '%s%d' % (k[0] if k == 'int' else 'x', s.f)
        return {'all': 'all', 'sall': 'sall', 'first': 'first', 'last': 'last', 'fixlast': 'xlast'}[k]
    def sel(s, N):
        """indices of the axis (extent N) that the range denotes, in order; None if not admissible."""
        fl = normalise(s.f, s.l, N)
        if fl is None or s.st < 1: return None
        f, l = fl
        n = cdiv(l - f, s.st)
        return [f + j * s.st for j in range(n)]

def seq(f, l, st=1): return Ax('seq', f, l, st)
def fseq(f, l, st=1): return Ax('fseq', f, l, st)
def iseq(f, l, st=1): return Ax('iseq', f, l, st)
ALL = Ax('all'); SALL = Ax('sall'); FIRST = Ax('first'); LAST = Ax('last'); FIXLAST = Ax('fixlast')
def ix(n): return Ax('int', n)
def fix(n): return Ax('fix', n)

def encode(f, l, N, enc):
    """spell the non-negative bounds (f,l) of an axis of extent N with last-relative (negative) numbers.
    enc: 'pos' | 'nl' (last negative) | 'nn' (both negative)"""
    if enc == 'pos': return f, l
    if enc == 'nl': return f, l - N - 1
    if enc == 'nn': return f - N - 1, l - N - 1
    raise ValueError(enc)

def slice_sel(shape, axes):
    """per-axis selected index lists, result extents; None if some axis is inadmissible."""
    sels = []
    for N, ax in zip(shape, axes):
        s = ax.sel(N)
        if not s: return None, None
        sels.append(s)
    return sels, tuple(len(s) for s in sels)

def slice_cpp(axes):
    return ','.join(a.cpp() for a in axes)

def slice_tag(axes):
    return '_'.join(a.tag() for a in axes)

def slice_elems(shape, sels):
    """[(flat offset in the slice, flat offset in the parent)] in row-major order of the slice."""
    ext = tuple(len(s) for s in sels)
    out = []
    for j in indices(ext):
        out.append((flat(ext, j), flat(shape, tuple(sels[k][j[k]] for k in range(len(shape))))))
    return out

def shape_tag(shape):
    return 'x'.join(str(s) for s in shape)

# ----------------------------------------------------------------------------------------------
# (a) scalar indexing with symbolic indices
# ----------------------------------------------------------------------------------------------
INAMES = ['i', 'j', 'k', 'l', 'm', 'n']

def sym_flat_index(shape, scalars):
    """E (int) : row-major offset denoted by the symbolic indices, negative ones counted from the end."""
    off = None
    for N, sc in zip(shape, scalars):
        x = E.arg(sc)
        xn = E.sel(x.cmp('lt', 0), x + N, x)
        off = xn if off is None else off * N + xn
    return off

def scalar_index_case(ty, shape, cfg, kind, brackets=False):
    n = prod(shape)
    a = Buf('a', ty, n, 'in'); c = Buf('c', ty, 1, 'out')
    scs = [Scalar(INAMES[k], INT, -shape[k], shape[k] - 1) for k in range(len(shape))]
    decl = tmap(ty, shape, 'a') if kind == 'map' else town(ty, shape, 'a')
    if kind == 'const':
        decl = 'const ' + town(ty, shape, 'a')
    args = ','.join(s.name for s in scs)
    acc = 'A[%s]' % args if brackets else 'A(%s)' % args
    body = '    %s\n    c[0] = %s;' % (decl, acc)
    ens = [(c, 0, E.inp(a, sym_flat_index(shape, scs)))]
    fam = 'index-' + kind + ('-br' if brackets else '')
    return Case('C04/%s/%s/%s/%s' % (fam, ty.name, shape_tag(shape), cfg.tag()), 'C04', body, [a, c], ens, 'SYM', cfg, scalars=scs)

# ----------------------------------------------------------------------------------------------
# (b),(c) slices: several slices of one tensor per entry
# ----------------------------------------------------------------------------------------------
def read_case(fam, ty, shape, slices, cfg, src='own', ident='', expr=None):
    """slices: list of axis tuples.  Every slice is evaluated into Tensor<T,ext...> (ext from the property formula),
    copied to its own segment of the out buffer c; view.dimension(k) goes to d.
    expr: None | 'neg' | 'dbl' (V + V) | 'addt' (V + T with a tensor operand from buffer b, rank/extents of the slice)"""
    n = prod(shape)
    a = Buf('a', ty, n, 'in')
    decl = {'own': town(ty, shape, 'a'), 'map': tmap(ty, shape, 'a'), 'const': 'const ' + town(ty, shape, 'a')}[src]
    L = ['    ' + decl]
    ens_c = []; ens_d = []
    coff = 0; doff = 0
    r = len(shape)
    infos = []
    for axes in slices:
        sels, ext = slice_sel(shape, axes)
        assert sels is not None, 'inadmissible slice %s on %s' % (slice_cpp(axes), shape)
        infos.append((axes, sels, ext, coff, doff))
        coff += prod(ext); doff += r
    c = Buf('c', ty, coff, 'out'); d = Buf('d', U64, doff, 'out')
    bufs = [a, c, d]
    mode = 'SYM'
    for axes, sels, ext, co, do in infos:
        m = prod(ext)
        imm = any(ax.kind == 'iseq' for ax in axes)
        T = 'Tensor<%s,%s>' % (ty.cpp, dims(ext))
        L.append('    {')
        if imm:
            # iseq: immediate evaluation, the call itself returns the tensor
            L.append('      %s C = A(%s);' % (T, slice_cpp(axes)))
            L.append('      for (int q_ = 0; q_ < %d; ++q_) d[%d + q_] = C.dimension(q_);' % (r, do))
        else:
            L.append('      auto V = A(%s);' % slice_cpp(axes))
            L.append('      for (int q_ = 0; q_ < %d; ++q_) d[%d + q_] = V.dimension(q_);' % (r, do))
            rhs = {None: 'V', 'neg': '-V', 'dbl': 'V + V'}[expr]
            L.append('      %s C = %s;' % (T, rhs))
        L.append('      for (int q_ = 0; q_ < %d; ++q_) c[%d + q_] = C.data()[q_];' % (m, co))
        L.append('    }')
        for (js, ps) in slice_elems(shape, sels):
            x = E.inp(a, ps)
            if expr == 'neg': x = -x
            elif expr == 'dbl': x = x + x
            ens_c.append((c, co + js, x))
        for k in range(r):
            ens_d.append((d, do + k, E.const(ext[k], U64)))
    if expr == 'dbl' and ty.kind == 'float': mode = 'UF'
    cid = 'C04/%s/%s/%s/%s/%s' % (fam, ty.name, shape_tag(shape), ident or slice_tag(slices[0]), cfg.tag())
    return Case(cid, 'C04', '\n'.join(L), bufs, ens_c + ens_d, mode, cfg)

def expr_case(fam, ty, shape_a, axes_a, cfg, op, shape_b=None, axes_b=None, src='own', ident=''):
    """(d) slices inside an expression:  C = A(ra) op B(rb)   or   C = A(ra) op B  (tensor operand of the slice's extents).
    int + - : SYM; float: UF on P0 (the clause applies the same scalar operation to the same elements)."""
    sa, ext = slice_sel(shape_a, axes_a)
    assert sa is not None
    a = Buf('a', ty, prod(shape_a), 'in')
    if axes_b is not None:
        sb, extb = slice_sel(shape_b, axes_b)
        assert sb is not None and tuple(extb) == tuple(ext), (ext, extb)
        b = Buf('b', ty, prod(shape_b), 'in')
        bdecl = town(ty, shape_b, 'b'); bexpr = 'B(%s)' % slice_cpp(axes_b)
        bel = [p for (_, p) in slice_elems(shape_b, sb)]
    else:
        b = Buf('b', ty, prod(ext), 'in')
        bdecl = town(ty, ext, 'b'); bexpr = 'B'
        bel = list(range(prod(ext)))
    c = Buf('c', ty, prod(ext), 'out')
    decl = {'own': town(ty, shape_a, 'a'), 'map': tmap(ty, shape_a, 'a'), 'const': 'const ' + town(ty, shape_a, 'a')}[src]
    body = ('    %s %s\n    Tensor<%s,%s> C;\n    C = A(%s) %s %s;\n    %s'
            % (decl, bdecl, ty.cpp, dims(ext), slice_cpp(axes_a), op, bexpr, copy_out('C', 'c', prod(ext))))
    ens = []
    for (js, pa), pb in zip(slice_elems(shape_a, sa), bel):
        x = E.inp(a, pa); y = E.inp(b, pb)
        ens.append((c, js, {'+': x + y, '-': x - y, '*': x * y, '/': x / y}[op]))
    mode = 'SYM' if ty.kind == 'int' else 'UF'
    assert not (ty.kind == 'int' and op in '*/')
    if mode == 'UF': cfg = Cfg(cfg.isa, cfg.std, cfg.macros, 'P0', cfg.checks)
    cid = 'C04/%s/%s/%s/%s/%s' % (fam, ty.name, shape_tag(shape_a), ident or (slice_tag(axes_a) + {'+': 'add', '-': 'sub', '*': 'mul', '/': 'div'}[op] + (slice_tag(axes_b) if axes_b else 'T')), cfg.tag())
    return Case(cid, 'C04', body, [a, b, c], ens, mode, cfg)

# ----------------------------------------------------------------------------------------------
# enumeration of ranges
# ----------------------------------------------------------------------------------------------
def triples(N, extra_step=True):
    """all (first,last,step) with 0 <= first < last <= N and step in 1..last-first (+1: one step larger than the range)."""
    out = []
    for f in range(N):
        for l in range(f + 1, N + 1):
            for s in range(1, l - f + (2 if extra_step else 1)):
                out.append((f, l, s))
    return out

ENCS = ['pos', 'nl', 'nn']

def chunked(lst, k, maxel=None, size=None):
    out = []; cur = []; el = 0
    for x in lst:
        n = size(x) if size else 0
        if cur and (len(cur) >= k or (maxel and el + n > maxel)):
            out.append(cur); cur = []; el = 0
        cur.append(x); el += n
    if cur: out.append(cur)
    return out

def ax1(kind, f, l, s, N, enc):
    f2, l2 = encode(f, l, N, enc)
    return Ax(kind, f2, l2, s)

def exhaustive_1d(fam, kind, ty, N, cfg, src, encs, per=12, rot=None):
    """every triple of an extent-N axis; encs: every triple in each of these encodings, or (rot given) each triple in one
    encoding chosen round-robin starting at rot.  Grouped by encoding."""
    out = []
    ts = triples(N)
    for ei, enc in enumerate(encs):
        sl = [(ax1(kind, f, l, st, N, enc),) for n, (f, l, st) in enumerate(ts) if rot is None or (n + rot) % len(encs) == ei]
        for ci, ch in enumerate(chunked(sl, per)):
            out.append(read_case(fam, ty, (N,), ch, cfg, src=src, ident='%s.%d' % (enc, ci)))
    return out

def product_2d(fam, kind, ty, shape, cfg, src, pairs, enc2, per=10, ident=''):
    """pairs: list of ((f0,l0,s0),(f1,l1,s1)); enc2: list of (enc0,enc1) used round-robin."""
    sl = []
    for n, (t0, t1) in enumerate(pairs):
        e0, e1 = enc2[n % len(enc2)]
        k0 = kind[0] if isinstance(kind, tuple) else kind
        k1 = kind[1] if isinstance(kind, tuple) else kind
        sl.append((ax1(k0, t0[0], t0[1], t0[2], shape[0], e0), ax1(k1, t1[0], t1[1], t1[2], shape[1], e1)))
    out = []
    for ci, ch in enumerate(chunked(sl, per)):
        out.append(read_case(fam, ty, shape, ch, cfg, src=src, ident='%s%d' % (ident, ci)))
    return out

ENC2 = [('pos', 'pos'), ('nl', 'nl'), ('nn', 'nn'), ('pos', 'nl'), ('nl', 'pos'), ('nn', 'pos'), ('pos', 'nn'), ('nl', 'nn'), ('nn', 'nl')]

def covering_pairs(M, N, rng):
    """every axis-0 triple and every axis-1 triple at least once (partner drawn at random)."""
    t0 = triples(M, False); t1 = triples(N, False)
    out = [(a, rng.choice(t1)) for a in t0] + [(rng.choice(t0), b) for b in t1]
    return out

def vsweep(V, es=None, ss=(1, 2, 3), fs=(0, 1, 2), both=True, rot=0):
    """[(N, e, s, [(f,l,enc),...])]: last-axis ranges whose extent e straddles the SIMD width V (V-1, V, V+1, 2V, 2V+1),
    steps ss, first offsets fs, the smallest and (both) the largest `last` giving that extent; encodings round-robin."""
    out = []
    n = rot
    for e in (es or sorted({V - 1, V, V + 1, 2 * V, 2 * V + 1} - {0})):
        for s in ss:
            N = max(fs) + (e - 1) * s + 1 + 1
            sl = []
            for f in fs:
                ls = sorted({f + (e - 1) * s + 1, min(N, f + e * s)}) if both else [f + (e - 1) * s + 1 + (1 if (f + e) % 2 and s > 1 else 0)]
                for l in ls:
                    sl.append((f, l, ENCS[n % 3])); n += 1
            out.append((N, e, s, sl))
    return out

def lead_axis(fixed, M, n, allow_int=True, pure=False):
    """n-th choice for a leading axis of extent M (M >= 3): dynamic or compile-time vocabulary.
    pure: no compile-time `all` next to dynamic ranges (a const rank-2 tensor does not accept seq/fseq mixtures)."""
    if fixed:
        menu = [fseq(0, M), fseq(1, M), fseq(0, M, 2), ALL, fseq(0, -1, 2), fseq(-M, -1), fseq(1, -2)]
        if allow_int: menu += [fix(1), FIXLAST, fix(0)]
    else:
        menu = [seq(0, M), seq(1, M), seq(0, M, 2), SALL, seq(0, -1, 2), seq(-M, -1), seq(1, -2), ALL if not pure else SALL]
        if allow_int: menu += [ix(1), LAST, FIRST]
    return menu[n % len(menu)]

def rand_axis(rng, kinds, N, allow_neg=True):
    """random admissible argument for an axis of extent N from the given vocabulary"""
    k = rng.choice(kinds)
    if k in ('seq', 'fseq', 'iseq'):
        f, l, s = rng.choice(triples(N, False))
        enc = rng.choice(ENCS) if (allow_neg and k != 'iseq') else 'pos'
        return ax1(k, f, l, s, N, enc)
    if k in ('int', 'fix'): return Ax(k, rng.randrange(N))
    return Ax(k)

def cases(tier, seed):
    rng = random.Random(seed)
    out = []
    thorough = tier == 'thorough'
    TYPES = (INT, FLT, DBL)
    SRC = ['own', 'map', 'const']
    for ni, isa in enumerate(isas(tier)):
      for std in (['c++14', 'c++17'] if thorough else ['c++14']):
        cfg = Cfg(isa, std)
        main = std == 'c++14'
        # ---------------- (a) scalar indexing, symbolic indices ----------------
        for ti, ty in enumerate(TYPES):
            shapes = [(7,), (3, 5), (2, 3, 4)] + ([(2, 3, 2, 3), (2, 2, 3, 2, 2)] if thorough or ti == ni % 3 else [])
            for shape in shapes:
                kinds = ['map', 'own', 'const'] if thorough else [['map', 'own', 'const'][(ti + len(shape) + ni) % 3]]
                for kind in kinds:
                    out.append(scalar_index_case(ty, shape, cfg, kind))
            out.append(scalar_index_case(ty, (9,), cfg, 'own', brackets=True))
        # ---------------- (b) dynamic seq / (c) compile-time fseq: rank 1 exhaustive ----------------
        for N in range(1, 9):
            for kind in ('seq', 'fseq'):
                if thorough:
                    # small extents exercise the index arithmetic, which hardly depends on the ISA: all types with all three
                    # encodings under sse2 / avx2 (V = 2,4,8 all straddled by N <= 8), one rotating type elsewhere
                    tys = TYPES if (main and isa in ('sse2', 'avx2')) else [TYPES[(N + ni) % 3]]
                    if not main and N not in (5, 8): continue
                    if kind == 'fseq' and N > 6: tys = [TYPES[(N + ni) % 3]]
                else:
                    if N > (5 if kind == 'seq' else 4): continue
                    tys = [TYPES[(N + ni + (kind == 'fseq')) % 3]]
                for ty in tys:
                    ti = TYPES.index(ty)
                    srcs = ['own'] + (['const', 'map'] if (thorough and main and N in (3, 5, 6)) or (N == 5 and kind == 'seq') or (N == 3 and kind == 'fseq') else [])
                    for src in srcs:
                        out += exhaustive_1d('%s1-%s' % (kind, src), kind, ty, N, cfg, src, ENCS, per=12 if kind == 'seq' else 8,
                                             rot=None if (thorough and main and src == 'own' and isa in ('sse2', 'avx2')) else ti + N)
        for ti, ty in enumerate(TYPES):
            V = vec_elems(isa, ty)
            # ---------------- rank 1 and 2: result extent swept across the SIMD width ----------------
            for kind in ('seq', 'fseq'):
                fixed = kind == 'fseq'
                sweep = vsweep(V, es=None if thorough else sorted({V - 1, V, V + 1, 2 * V + 1} - {0}), rot=ti, both=thorough, ss=(1, 2, 3) if (thorough or not fixed) else (1, 2))
                for n, (N, e, s, sl) in enumerate(sweep):
                    if e > 17 and not thorough: sl = sl[:2]
                    if not thorough and fixed and (n + ti + ni) % 2: continue     # quick: every second sweep point for the compile-time vocabulary
                    if not thorough and s == 3 and e not in (V, V + 1): continue      # quick: step 3 only around the SIMD width itself
                    for src in (SRC if thorough and main and isa in QUICK_ISAS else [SRC[(n + ti) % 3]]):
                        out.append(read_case('%s1v-%s' % (kind, src), ty, (N,), [(ax1(kind, f, l, s, N, enc),) for (f, l, enc) in sl], cfg, src=src, ident='e%d.s%d' % (e, s)))
                    # rank 2: leading axis from the menu, last axis swept
                    if not thorough and (e > 17 or (n + ti + ni) % 2): continue
                    for src in (SRC if thorough and main and isa in QUICK_ISAS else [SRC[(n + ti + 1) % 3]]):
                        M = 3
                        sl2 = [(lead_axis(fixed, M, n + q, pure=(src == 'const')), ax1(kind, f, l, s, N, enc)) for q, (f, l, enc) in enumerate(sl[:3] if not thorough else sl)]
                        out.append(read_case('%s2v-%s' % (kind, src), ty, (M, N), sl2, cfg, src=src, ident='e%d.s%d' % (e, s)))
            # ---------------- rank 2: products of triples ----------------
            if thorough:
                full = ([(3, 4), (4, 5)] if isa in ('sse2', 'avx2') else [(3, 4)]) if main else ([(3, 4)] if ti == ni % 3 else [])
            else:
                full = [(3, 3)] if ti == (ni + 1) % 3 else []
            for shape in full:
                pairs = [(a, b) for a in triples(shape[0], False) for b in triples(shape[1], False)]
                out += product_2d('seq2-own', 'seq', ty, shape, cfg, 'own', pairs, ENC2, ident='p')
                if thorough and shape == (3, 4) and main:
                    out += product_2d('fseq2-own', 'fseq', ty, shape, cfg, 'own', pairs, ENC2, per=6, ident='p')
            for shape in ([(4, 5)] if not thorough else [(5, 6)]):
                pairs = covering_pairs(shape[0], shape[1], rng)
                for si, src in enumerate(SRC):
                    sel = pairs if (src == 'own' and (thorough or ti == ni % 3)) else sample(rng, pairs, 10 if not thorough else 60)
                    out += product_2d('seq2-' + src, 'seq', ty, shape, cfg, src, sel, ENC2, per=10 if src != 'map' else 5, ident='c')
                    selx = sample(rng, pairs, (12 if src == 'own' else 6) if not thorough else 60)
                    out += product_2d('fseq2-' + src, 'fseq', ty, shape, cfg, src, selx, ENC2, per=6, ident='c')
                # mixed dynamic / compile-time arguments (rank 2 overloads)
                for si, src in enumerate(SRC):
                    combos = [('seq', 'fseq'), ('fseq', 'seq')] if src != 'const' else []   # const rank-2 tensors do not accept seq/fseq mixtures
                    for kk in combos:
                        out += product_2d('mixed2-' + src, kk, ty, shape, cfg, src, sample(rng, pairs, 6 if not thorough else 30), ENC2, per=6, ident=kk[0][0] + kk[1][0])
                    # integer / last / first / fix / all in one of the two positions
                    sl = []
                    M, N = shape
                    for q in range(8 if not thorough else 24):
                        other = rand_axis(rng, ['seq', 'fseq', 'all'] if src != 'const' or q % 2 else ['seq'], N if q % 2 == 0 else M)
                        if other.kind == 'seq' and src == 'const': pick = ['int', 'last', 'first']
                        elif other.is_fixed() and src == 'const': pick = ['int', 'last', 'first', 'fix', 'fixlast']
                        else: pick = ['int', 'last', 'first', 'fix', 'fixlast']
                        one = rand_axis(rng, pick, M if q % 2 == 0 else N)
                        sl.append((one, other) if q % 2 == 0 else (other, one))
                    for ci, ch in enumerate(chunked(sl, 8)):
                        out.append(read_case('mixed2i-' + src, ty, shape, ch, cfg, src=src, ident='m%d' % ci))
            # ---------------- rank 3 / 4: generic nD views ----------------
            for shape in ([(2, 3, 4), (2, 2, 3, 3)] if not thorough else [(2, 3, 4), (3, 4, 5), (2, 2, 3, 3)]):
                for fam, kinds in (('seqN', ['seq', 'seq', 'sall']), ('fseqN', ['fseq', 'fseq', 'all', 'fix', 'fixlast']),
                                   ('mixedN', ['seq', 'fseq', 'all', 'int', 'last', 'first', 'fix', 'fixlast'])):
                    for si, src in enumerate(SRC):
                        if not thorough and (si + ti + len(shape)) % 3 != ni % 3 and (fam != 'seqN' or len(shape) == 4): continue
                        k = (6 if not thorough else (18 if main else 6)) if fam != 'fseqN' else (4 if not thorough else (12 if main else 4))
                        sl = []
                        while len(sl) < k:
                            axes = tuple(rand_axis(rng, kinds, N) for N in shape)
                            if all(a.is_integer() for a in axes): continue
                            sl.append(axes)
                        for ci, ch in enumerate(chunked(sl, 6 if fam != 'fseqN' else 4)):
                            # quick: the C++14 build of the generic const view (known link defect) is witnessed by the int cases only
                            if not (src == 'const' and not thorough and fam != 'fseqN' and ty is not INT):
                                out.append(read_case('%s-%s' % (fam, src), ty, shape, ch, cfg, src=src, ident='r%d' % ci))
                            if src == 'const' and not thorough and fam != 'fseqN':
                                # the generic const view of rank >= 3 only links under C++17 (see LEVEL_NOTE): keep a C++17 twin in the quick tier
                                out.append(read_case('%s-%s' % (fam, src), ty, shape, ch, Cfg(isa, 'c++17'), src=src, ident='r%d' % ci))
            # rank 3: last axis swept across V under leading axes
            for kind in ('seq', 'fseq'):
                fixed = kind == 'fseq'
                for n, (N, e, s, sl) in enumerate(vsweep(V, es=[V, V + 1] if not thorough else [V - 1, V, V + 1, 2 * V] if V > 1 else [1, 2], ss=(1, 2), fs=(0, 1), both=False, rot=ti)):
                    if not thorough and (s == 2 and (V > 8 or fixed)): continue
                    if not thorough and fixed and e != V: continue
                    src = SRC[(n + ti + ni) % 3]
                    sl3 = [(lead_axis(fixed, 3, 2 * n + q + 1), lead_axis(fixed, 3, n + 3 * q), ax1(kind, f, l, s, N, enc)) for q, (f, l, enc) in enumerate(sl)]
                    sl3 = [a for a in sl3 if not all(x.is_integer() for x in a)]
                    out.append(read_case('%sNv-%s' % (kind, src), ty, (3, 3, N), sl3, cfg if not (src == 'const' and not fixed) else Cfg(isa, 'c++17'), src=src, ident='e%d.s%d' % (e, s)))
            # ---------------- iseq (immediate evaluation): ranks 1, 2, 4 on tensors, rank 3 on const tensors ----------------
            if thorough or ti == (ni + 2) % 3:
                for shape, src in (((7,), 'own'), ((4, 5), 'own'), ((2, 3, 4), 'const'), ((2, 2, 3, 3), 'own')):
                    k = {1: 12, 2: 8, 3: 5, 4: 3}[len(shape)] * (2 if thorough else 1)
                    sl = [tuple(rand_axis(rng, ['iseq'], N) for N in shape) for _ in range(k)]
                    seen_ = set(); sl = [x for x in sl if not (slice_tag(x) in seen_ or seen_.add(slice_tag(x)))]
                    for ci, ch in enumerate(chunked(sl, 6 if len(shape) < 3 else 3)):
                        out.append(read_case('iseq%d-%s' % (len(shape), src), ty, shape, ch, cfg, src=src, ident='i%d' % ci))
            # ---------------- (d) slices inside expressions ----------------
            # (integer unary minus belongs to the element-wise layer -- property C02 -- and is not used here)
            es = [V, V + 1] if not thorough else sorted({V - 1, V, V + 1, 2 * V + 1} - {0})
            for n, (N, e, s, sl) in enumerate(vsweep(V, es=es, ss=(1, 2), fs=(0, 1), both=False, rot=ti)):
                for ki, kind in enumerate(('seq', 'fseq')):
                    fixed = kind == 'fseq'
                    src = SRC[(n + ti + fixed) % 3]
                    a1 = [(ax1(kind, f, l, s, N, enc),) for (f, l, enc) in sl]
                    a2 = [(lead_axis(fixed, 3, n + q + ti, pure=(src == 'const')), ax1(kind, f, l, s, N, enc)) for q, (f, l, enc) in enumerate(sl)]
                    idt = 'e%d.s%d' % (e, s)
                    r1 = (n + ki + ti + ni) % 2 == 0          # quick: rank 1 and rank 2 alternate
                    if ty.kind == 'float':
                        if thorough or r1: out.append(read_case('%s1neg-%s' % (kind, src), ty, (N,), a1, cfg, src=src, ident=idt, expr='neg'))
                        if thorough or not r1: out.append(read_case('%s2neg-%s' % (kind, src), ty, (3, N), a2, cfg, src=src, ident=idt, expr='neg'))
                    if ty.kind == 'int' or e <= 9:
                        cfx = cfg if ty.kind == 'int' else Cfg(isa, std, pipe='P0')
                        if thorough or not r1: out.append(read_case('%s1dbl-%s' % (kind, src), ty, (N,), a1[:1], cfx, src=src, ident=idt, expr='dbl'))
                        # float: uninterpreted additions, keep the slice small (<= ~18 elements)
                        if (thorough or r1) and (ty.kind == 'int' or e <= 6): out.append(read_case('%s2dbl-%s' % (kind, src), ty, (3, N), a2[1:2] if ty.kind == 'float' else a2[1:], cfx, src=src, ident=idt, expr='dbl'))
                        # two slices with different ranges of equal extent, and a slice with a tensor
                        other = ax1('seq' if fixed else 'fseq', 1, 1 + e, 1, e + 2, 'pos')
                        ops = ['+', '-'] if ty.kind == 'int' else ['+', '-', '*', '/']
                        op = ops[(n + ti + fixed) % len(ops)]
                        which = (n + ki + ti) % 3
                        if thorough or which == 0: out.append(expr_case('%s1x-%s' % (kind, src), ty, (N,), a1[0], cfg, op, (e + 2,), (other,), src=src))
                        if thorough or which == 1: out.append(expr_case('%s1t-%s' % (kind, src), ty, (N,), a1[-1], cfg, ops[(n + 1) % len(ops)], src=src))
                        lead = a2[0][0]
                        if (thorough or which == 2) and not lead.is_integer() and lead.kind not in ('fix', 'fixlast'):
                            m = len(lead.sel(3))
                            other2 = (ax1('seq', 3 - m, 3, 1, 3, 'pos'), ax1('seq', 0, e, 1, e + 1, 'nl'))
                            out.append(expr_case('%s2x-%s' % (kind, src), ty, (3, N), a2[0], cfg, op, (3, e + 1), other2, src=src))
            # rank-2 slice of a TensorMap next to a rank-2 slice of a Tensor in one expression (the generic view and the 2-D view
            # disagree on the meaning of eval(i,j): known defect, kept in families of its own: *2x-map), and next to a plain tensor
            if ty.kind == 'int' or (V <= 8 and (thorough or ti == 1 + ni % 2)):
                e = min(V + 1, 5)
                for ki, kind in enumerate(('seq', 'fseq')):
                    axes = (ax1(kind, 0, 3, 2, 3, 'pos'), ax1(kind, 1, 1 + 2 * e - 1, 2, 2 * e + 1, 'nl'))
                    other2 = (ax1('seq', 1, 3, 1, 3, 'pos'), ax1('seq', 0, e, 1, e + 1, 'nl'))
                    out.append(expr_case('%s2x-map' % kind, ty, (3, 2 * e + 1), axes, cfg, '+', (3, e + 1), other2, src='map', ident='m.e%d' % e))
                    out.append(expr_case('%s2t-map' % kind, ty, (3, 2 * e + 1), axes, cfg, '-', src='map', ident='m.e%d' % e))
    seen = set(); res = []
    for c in out:
        if c.cid not in seen: seen.add(c.cid); res.append(c)
    return res
