"""C08 -- every SIMD vector type behaves as independent scalar lanes.

One unit per (element type, vector ABI, operation, build configuration).  The body only uses the public SIMDVector API:
operands are loaded from caller buffers of exactly Size elements with unaligned loads (`V va(a,false)`), the operation is
applied, the result is stored unaligned to the output buffer.  The clauses are written from the property statement:

  lane-wise operation  : out[i] == op(a[i], b[i], ...) for every lane i                (bit for bit)
  horizontal operation : out[0] == fold(op, all lanes)
  masked load          : enabled lanes transferred, disabled lanes of a default-constructed (zero) vector stay zero;
                         memory outside the enabled lanes is not even read (buffer holds only the enabled prefix)
  masked store         : enabled lanes written, *disabled lanes of the destination keep their old value* ('inout' buffer),
                         nothing outside the enabled prefix is touched (exact-extent destination)
  lane L is enabled iff bit L of the integer mask is set (free functions maskload/maskstore: iff maska[Size-1-L] == -1,
  "the masked array is reversed like other intrinsics").

Modes (tools/README.md):
  SYM   integers: load/store/set/broadcast/reverse/neg/abs/+/-/min/max/compare/sum/minimum/maximum, all mask forms -- full domain;
        floats: data movement, unary minus, abs, compare, min/max, minimum()/maximum(), mask forms, casts (bit-level operations and
        conversions are real); set_sequential of the generic template (real IEEE adders, <= 256 bits of lanes)
  UF    float/double + - * / (vector, scalar and in-place forms), fmadd/fmsub/fnmadd, sqrt, unary minus, abs, set_sequential of the
        intrinsic specialisations -- lane congruence, bit exact (pipe P0)
  ATOMS integer lane multiply (out[i] == a[i]*b[i], vector / scalar / in-place forms) and dot; float/double sum() ('LIN': each
        lane exactly once) and dot() ('A'/'B': each product a[i]*b[i] exactly once)
Float min/max/minimum()/maximum(): the clause is "the result is (bit for bit) one of the operands / lanes and is <= (>=) all of them";
NaN lanes are excluded by `requires` (x86 min/max and std::min treat NaN and the sign of zero differently; the property's "scalar
operation" is only unambiguous without them).
Fused multiply-add family: up to 8 lanes the clause accepts the fused (one rounding, std::fma) and the unfused (a*b then +c) scalar
form, because which one "the scalar operation" is depends on the FMA flag of the configuration; for 16 lanes (SAT cost) only the
form the configuration documents is accepted (fused iff the build has FMA and the ABI has an intrinsic specialisation).
Aligned forms: a fresh caller object starts at offset 0, which the alignment assertions of the translation treat as aligned
(alignment of the caller's pointer is the documented precondition of the aligned forms).
The generic template's shift() is checked on the unoptimised pipeline (P0, mode SYM): -O1 trims accesses it can prove out of bounds.
512-bit UF cases (16 floats / 8 doubles: up to ~64 uninterpreted applications, 1-4 min of SAT) are checked in assertion form
directly (no DFCC attempt) with a 20 min budget; the quick tier keeps only the vector-vector forms for 16 lanes.

Candidate-defect families (kept apart so that a finding matches one family): neg-int-simd, hmin-int / hmax-int, hmin-generic /
hmax-generic, mask_store-fallback* / mask_store-prefix-fallback, lanes16-mask_*, broadcast (avx512), shift-generic, shift
(double/avx/by3 and float/avx/by3), maskload-free-generic, cast-width-abi-*.

Not decided here (and why):
  * rcp / rsqrt relative-error bounds: need non-linear floating-point reasoning -- left out.
  * product(): multilinear of degree one in each lane -> TAGS/BASIS pair (hproduct below), a proof for all lane values and any
    association order for vectors of up to 9 lanes; the 16-lane vectors (int/float avx512, fixed16) exceed the tag budget -- left out.
  * float/double sum()/dot() are proved as "each lane (product) exactly once" in the ring reinterpretation; the rounding of the
    particular summation order is not checked.
  * integer division: symbolic SAT dividers do not terminate (tried: every form timed out at 300 s) -- left out.
  * int64 multiply needs no 32-bit-half emulation in this code base (scalar loop or vpmullq), so ATOMS applies to it everywhere.
  * complex SIMD vectors (split real/imaginary representation): + - conj multiply divide rcp and the masked store are covered by
    complex_arith_cases / complex_mask_store_case below, sum() and real()/imag() by complex_reduce_cases, norm() and magnitude() by complex_norm_case; abs,
    arg, product(), dot(), minimum()/maximum() and mixed scalar forms are not.
  * SIMDVector<float|double,avx512>::minimum()/maximum() do not exist (C06 acceptance finding): no unit can be compiled.
  * set(n0,...,n_{N-1}) is specified in the Intel `_mm_set_*` argument order (last argument is lane 0), which is what every
    specialisation and the generic fallback document.
"""
from units.common import *

LEVEL_NOTE = ('per instantiation (element type, vector ABI, operation, ISA flags): lane i of the result equals the scalar operation '
              'on lane i of the operands for all lane values (SYM: full domain; UF: every interpretation of the float operations; '
              'ATOMS: polynomial identity), masked forms with frame clauses; rcp/rsqrt error bounds, 16-lane product(), integer division '
              'and complex vectors are not decided (see module docstring); instantiations are enumerated')

L64 = Ty('int64', 'int64_t', 64, 'int')      # Fastor's Int64 (int64_t = long on this target; vf.I64 is long long)
CPPT = {'int': 'int32_t', 'int64': 'int64_t', 'float': 'float', 'double': 'double'}
HAS_AVX = ('avx', 'avx2', 'avx512')

# ----------------------------------------------------------------------------------------------------------------------
# vector types
# ----------------------------------------------------------------------------------------------------------------------
class VT:
    """one SIMDVector<T,ABI> instantiation under one ISA."""
    def __init__(s, ty, abi, isa):
        s.ty = ty; s.abi = abi; s.isa = isa
        bits = ty.bits
        if abi == 'scalar': s.n = 1; s.cabi = 'simd_abi::scalar'; s.generic = False
        elif abi == 'sse': s.n = 128 // bits; s.cabi = 'simd_abi::sse'; s.generic = False
        elif abi == 'avx':
            s.n = 256 // bits; s.cabi = 'simd_abi::avx'
            # float/double need AVX, the integer specialisations need AVX2; otherwise the generic array template is instantiated
            s.generic = not (isa in HAS_AVX and (ty.kind == 'float' or isa in ('avx2', 'avx512')))
        elif abi == 'avx512':
            s.n = 512 // bits; s.cabi = 'simd_abi::avx512'; s.generic = isa != 'avx512'
        elif abi.startswith('fixed'):
            s.n = int(abi[5:]); s.cabi = 'simd_abi::fixed_size<%d>' % s.n; s.generic = True
        else: raise ValueError(abi)
        s.tag = abi + ('-generic' if s.generic and not abi.startswith('fixed') else '')
        s.T = CPPT[ty.name]
        s.V = 'SIMDVector<%s,%s>' % (s.T, s.cabi)
        s.spec = not s.generic and abi != 'scalar'         # explicit intrinsic specialisation
        # hardware mask registers are used by the sse/avx/avx512 specialisations when AVX-512VL is available
        s.hwmask = s.spec and isa == 'avx512'
        s.masktype = 'uint16_t' if (s.spec and abi == 'avx512' and bits == 32) else 'uint8_t'
        s.flt = ty.kind == 'float'
    def decl(s):
        return '    typedef %s V; typedef %s T;\n' % (s.V, s.T)

# ----------------------------------------------------------------------------------------------------------------------
# generic case builders
# ----------------------------------------------------------------------------------------------------------------------
def cid(fam, vt, cfg, extra=''):
    return 'C08/%s/%s/%s%s/%s' % (fam, vt.ty.name, vt.tag, ('/' + extra) if extra else '', cfg.tag())

def mk(fam, vt, cfg, body, bufs, ens, mode='SYM', extra='', **kw):
    return Case(cid(fam, vt, cfg, extra), 'C08', vt.decl() + body, bufs, ens, mode, cfg, **kw)

def heavy_case(c):
    c.form = 'harness'; c.timeout = 1200
    return c

def no_nan(x):
    return x.cmp('eq', x)

def lanewise(fam, vt, cfg, expr, spec=None, nin=2, mode='SYM', scalar=False, requires=None, inplace=False, atoms=False,
             bspec=None, oty=None, rtype='V', extra=''):
    """`V r = expr(va, vb, vc, x)` (or in-place on va); value clause out[i] == spec(a_i, b_i, c_i, x) or boolean clause
    bspec(post_i, a_i, ...)."""
    n = vt.n; ty = vt.ty
    names = ['a', 'b', 'c'][:nin]
    bufs = [Buf(nm, ty, n, 'in', atoms=('A' if nm == 'a' else 'B') if atoms else None) for nm in names]
    body = ''.join('    V v%s(%s,false);\n' % (nm, nm) for nm in names)
    sb = None
    if scalar:
        sb = Buf('s', ty, 1, 'in', atoms='B' if atoms else None); bufs.append(sb)
        body += '    T x = s[0];\n'
    o = Buf('o', oty or ty, n, 'out'); bufs.append(o)
    if inplace: body += '    %s;\n    va.store(o,false);' % expr
    else: body += '    %s r = %s;\n    r.store(o,false);' % (rtype, expr)
    ens = []; req = []
    for i in range(n):
        args = [E.inp(b, i) for b in bufs[:nin]] + ([E.inp(sb, 0)] if scalar else [])
        if bspec: ens.append(('bool', 'lane %d' % i, bspec(E.post(o, i), *args)))
        else: ens.append((o, i, spec(*args)))
        if requires: req += requires(*args)
    return mk(fam, vt, cfg, body, bufs, ens, mode, requires=req, extra=extra)

def horizontal(fam, vt, cfg, expr, spec=None, nin=1, mode='SYM', atoms=None, bspec=None, requires=None):
    """o[0] = expr(va, vb);  out[0] == spec([a_i], [b_i]) or boolean clause bspec(post, [a_i], [b_i])."""
    n = vt.n; ty = vt.ty
    names = ['a', 'b'][:nin]
    at = {'a': None, 'b': None}
    if atoms == 'LIN': at['a'] = 'LIN'
    elif atoms == 'AB': at['a'] = 'A'; at['b'] = 'B'
    bufs = [Buf(nm, ty, n, 'in', atoms=at[nm]) for nm in names]
    body = ''.join('    V v%s(%s,false);\n' % (nm, nm) for nm in names)
    o = Buf('o', ty, 1, 'out')
    body += '    o[0] = %s;' % expr
    lanes = [[E.inp(b, i) for i in range(n)] for b in bufs]
    if bspec: ens = [('bool', t, e) for t, e in bspec(E.post(o, 0), *lanes)]
    else: ens = [(o, 0, spec(*lanes))]
    req = []
    if requires:
        for l in lanes: req += [requires(x) for x in l]
    return mk(fam, vt, cfg, body, bufs + [o], ens, mode, requires=req)

def hproduct(vt, cfg):
    """o[0] = va.product() == a_0 * a_1 * ... * a_n-1.  One lane: exact (SYM).  2..9 lanes: the fold is multilinear in the n
    lanes (degree one in each), so the TAGS/BASIS pair of vf.multilinear_cases proves it for all lane values, in any association
    order (floats in the ring reinterpretation: every lane exactly once, rounding not judged).  16-lane vectors exceed the tag
    budget (9 operands): not generated, listed as not decided."""
    n = vt.n; ty = vt.ty
    if n > 9: return []
    a = Buf('a', ty, n, 'in', atoms=('TR', 1, 0) if n >= 2 else None)
    o = Buf('o', ty, 1, 'out')
    body = '    V va(a,false);\n    o[0] = va.product();'
    r = E.inp(a, 0)
    for i in range(1, n): r = r * E.inp(a, i)
    c = mk('product', vt, cfg, body, [a, o], [(o, 0, r)])
    return [c] if n == 1 else multilinear_cases(c)

def bit(m, i):
    return E.arg(m).bitand(E.const(1 << i, UINT)).cmp('ne', E.const(0, UINT))

def any_of(es):
    r = es[0]
    for e in es[1:]: r = r.bor(e)
    return r

def all_of(es):
    r = es[0]
    for e in es[1:]: r = r.band(e)
    return r

# ----------------------------------------------------------------------------------------------------------------------
# families
# ----------------------------------------------------------------------------------------------------------------------
def data_movement(vt, P1, P0, full):
    n = vt.n; ty = vt.ty; out = []
    def a_(): return Buf('a', ty, n, 'in')
    def o_(): return Buf('o', ty, n, 'out')
    def s_(k=1): return Buf('s', ty, k, 'in')
    ident = lambda a, o: [(o, i, E.inp(a, i)) for i in range(n)]
    bc = lambda s, o: [(o, i, E.inp(s, 0)) for i in range(n)]
    a, o = a_(), o_()
    out.append(mk('load-store', vt, P1, '    V va(a,false);\n    va.store(o,false);', [a, o], ident(a, o)))
    a, o = a_(), o_()
    out.append(mk('load', vt, P1, '    V va;\n    va.load(a,false);\n    va.store(o,false);', [a, o], ident(a, o)))
    a, o = a_(), o_()
    out.append(mk('load-store-aligned', vt, P1, '    V va(a);\n    va.store(o);', [a, o], ident(a, o)))
    if full:
        a, o = a_(), o_()
        out.append(mk('aligned_load-aligned_store', vt, P1, '    V va;\n    va.aligned_load(a);\n    va.aligned_store(o);', [a, o], ident(a, o)))
        a, o = a_(), o_()
        out.append(mk('load-aligned-flag', vt, P1, '    V va;\n    va.load(a,true);\n    va.store(o,true);', [a, o], ident(a, o)))
        a, o = a_(), o_()
        out.append(mk('copy', vt, P1, '    V va(a,false);\n    V vb(va);\n    V vc;\n    vc = vb;\n    V vd = +vc;\n    vd.store(o,false);', [a, o], ident(a, o)))
    # unaligned addresses inside a larger object; the neighbours of the destination stay untouched
    a = Buf('a', ty, n + 3, 'in'); o = Buf('o', ty, n + 2, 'inout')
    out.append(mk('load-store-offset', vt, P1, '    V va(a+3,false);\n    va.store(o+1,false);', [a, o],
                  [(o, 0, E.inp(o, 0))] + [(o, i + 1, E.inp(a, i + 3)) for i in range(n)] + [(o, n + 1, E.inp(o, n + 1))]))
    s, o = s_(), o_()
    out.append(mk('bcast-ctor', vt, P1, '    V va(s[0]);\n    va.store(o,false);', [s, o], bc(s, o)))
    s, o = s_(), o_()
    out.append(mk('bcast-assign', vt, P1, '    V va;\n    va = s[0];\n    va.store(o,false);', [s, o], bc(s, o)))
    s, o = s_(), o_()
    out.append(mk('set1', vt, P1, '    V va;\n    va.set(s[0]);\n    va.store(o,false);', [s, o], bc(s, o)))
    if (vt.spec and vt.flt) or vt.abi == 'scalar':
        s, o = s_(), o_()
        out.append(mk('broadcast', vt, P1, '    V va;\n    va.broadcast(s);\n    va.store(o,false);', [s, o], bc(s, o)))
    if n > 1:
        s, o = s_(n), o_()
        out.append(mk('setN', vt, P1, '    V va;\n    va.set(%s);\n    va.store(o,false);' % ','.join('s[%d]' % k for k in range(n)), [s, o],
                      [(o, n - 1 - k, E.inp(s, k)) for k in range(n)]))
    s, o = s_(), o_()
    body = '    V va;\n    va.set_sequential(s[0]);\n    va.store(o,false);'
    if vt.flt:
        # lane i = x + i; lane 0 may be x itself or x + 0.  The intrinsic specialisations add constants (UF congruence, P0); the
        # generic template converts the loop counter, so its additions are checked with real IEEE adders (SYM, up to 256 bits of lanes)
        x = E.inp(s, 0)
        ens = [('bool', 'lane 0 == x (or x+0)', E.post(o, 0).same(x).bor(E.post(o, 0).same(x + E.const(0, ty))))]
        ens += [(o, i, x + E.const(i, ty)) for i in range(1, n)]
        if not vt.generic: out.append(mk('set_sequential', vt, P0, body, [s, o], ens, 'UF'))
        elif n * ty.bits <= 256: out.append(mk('set_sequential', vt, P1, body, [s, o], ens))
    else:
        out.append(mk('set_sequential', vt, P1, body, [s, o], [(o, i, E.inp(s, 0) + E.const(i, ty)) for i in range(n)]))
    a, o = a_(), o_()
    out.append(mk('reverse', vt, P1, '    V va(a,false);\n    V r = va.reverse();\n    r.store(o,false);', [a, o], [(o, i, E.inp(a, n - 1 - i)) for i in range(n)]))
    a, o = a_(), o_()
    out.append(mk('index', vt, P1, '    V va(a,false);\n' + '\n'.join('    o[%d] = %s;' % (k, ('va[%d]' if k % 2 == 0 else 'va(%d)') % k) for k in range(n)), [a, o], ident(a, o)))
    return out

def shifts(vt, P1, P0, full):
    """shift(i): lane j = (j >= i) ? lane j-i : 0."""
    n = vt.n; ty = vt.ty; out = []
    if vt.generic: ks = sorted({1, n - 1})
    elif vt.spec and vt.flt and vt.abi in ('sse', 'avx'): ks = [1] if (ty is DBL and vt.abi == 'sse') else list(range(1, n))
    else: return out
    for k in ks:
        a = Buf('a', ty, n, 'in'); o = Buf('o', ty, n, 'out')
        # the generic template is checked on the unoptimised pipeline (P0): -O1 silently trims accesses it can prove out of bounds
        out.append(mk('shift-generic' if vt.generic else 'shift', vt, P0 if vt.generic else P1, '    V va(a,false);\n    V r = va.shift(%d);\n    r.store(o,false);' % k, [a, o],
                      [(o, j, E.inp(a, j - k) if j >= k else E.const(0, ty)) for j in range(n)], extra='by%d' % k))
    return out

_mk = mk
def masks(vt, P1, full, pre=''):
    n = vt.n; ty = vt.ty; out = []
    MT = vt.masktype
    zero = E.const(0, ty)
    hw = '' if (vt.hwmask or vt.abi == 'scalar') else '-fallback'
    def mk(fam, *a, **kw): return _mk(pre + fam, *a, **kw)
    if n == 1 and vt.abi != 'scalar': return out
    if n not in (1, 2, 4, 8, 16): return out          # mask_to_array exists for these lane counts only
    def M(): return Scalar('m', UINT, 0, (1 << n) - 1)
    # -- mask_load into a default-constructed (zero) vector
    for al in (['false', 'true'] if (full or vt.hwmask) else ['false']):
        a = Buf('a', ty, n, 'in'); o = Buf('o', ty, n, 'out'); m = M()
        out.append(mk('mask_load' + ('-aligned' if al == 'true' else ''), vt, P1, '    V va;\n    va.mask_load(a,(%s)m,%s);\n    va.store(o,false);' % (MT, al),
                      [a, o], [(o, i, E.sel(bit(m, i), E.inp(a, i), zero)) for i in range(n)], scalars=[m]))
    # -- mask_load over a vector that already holds data: disabled lanes keep the old lane or are zeroed
    a = Buf('a', ty, n, 'in'); b = Buf('b', ty, n, 'in'); o = Buf('o', ty, n, 'out'); m = M()
    out.append(mk('mask_load-over', vt, P1, '    V va(b,false);\n    va.mask_load(a,(%s)m,false);\n    va.store(o,false);' % MT, [a, b, o],
                  [('bool', 'lane %d' % i, E.sel(bit(m, i), E.post(o, i).same(E.inp(a, i)), E.post(o, i).same(E.inp(b, i)).bor(E.post(o, i).same(zero)))) for i in range(n)], scalars=[m]))
    # -- mask_store: disabled lanes of the destination unchanged
    for al in (['false', 'true'] if vt.hwmask else ['false']):       # the fallback ignores the flag
        a = Buf('a', ty, n, 'in'); c = Buf('c', ty, n, 'inout'); m = M()
        out.append(mk('mask_store' + hw + ('-aligned' if al == 'true' else ''), vt, P1, '    V va(a,false);\n    va.mask_store(c,(%s)m,%s);' % (MT, al),
                      [a, c], [(c, i, E.sel(bit(m, i), E.inp(a, i), E.inp(c, i))) for i in range(n)], scalars=[m]))
    # -- prefix masks on buffers that hold only the enabled lanes (nothing else may be read / written)
    if n > 1:
        ks = sorted({1, n - 1} | ({n // 2} if (full and vt.hwmask) else set()))
        for k in ks:
            a = Buf('a', ty, k, 'in'); o = Buf('o', ty, n, 'out')
            out.append(mk('mask_load-prefix', vt, P1, '    V va;\n    va.mask_load(a,(%s)%d,false);\n    va.store(o,false);' % (MT, (1 << k) - 1), [a, o],
                          [(o, i, E.inp(a, i) if i < k else zero) for i in range(n)], extra='k%d' % k))
            a = Buf('a', ty, n, 'in'); c = Buf('c', ty, k, 'inout')
            out.append(mk('mask_store-prefix' + hw, vt, P1, '    V va(a,false);\n    va.mask_store(c,(%s)%d,false);' % (MT, (1 << k) - 1), [a, c],
                          [(c, i, E.inp(a, i)) for i in range(k)], extra='k%d' % k))
    # -- free functions maskload<V>(ptr, maska) / maskstore(ptr, maska, v): symbolic mask array with entries 0 / -1
    if n > 1 and n <= 8:
        def marr():
            mb = Buf('m', INT, n, 'in')
            req = [E.inp(mb, j).cmp('eq', E.const(0, INT)).bor(E.inp(mb, j).cmp('eq', E.const(-1, INT))) for j in range(n)]
            en = lambda L: E.inp(mb, n - 1 - L).cmp('eq', E.const(-1, INT))
            return mb, req, en
        init = '    int mk[%d] = {%s};\n' % (n, ','.join('m[%d]' % j for j in range(n)))
        a = Buf('a', ty, n, 'in'); o = Buf('o', ty, n, 'out'); mb, req, en = marr()
        # AVX2 builds specialise the free functions for the sse/avx vectors; everything else goes through the generic template
        fg = '' if (vt.spec and vt.abi in ('sse', 'avx') and vt.isa in ('avx2', 'avx512')) else '-generic'
        out.append(mk('maskload-free' + fg, vt, P1, init + '    V va = maskload<V>(a,mk);\n    va.store(o,false);', [a, mb, o],
                      [(o, i, E.sel(en(i), E.inp(a, i), zero)) for i in range(n)], requires=req))
        a = Buf('a', ty, n, 'in'); c = Buf('c', ty, n, 'inout'); mb, req, en = marr()
        out.append(mk('maskstore-free' + fg, vt, P1, init + '    V va(a,false);\n    maskstore(c,mk,va);', [a, mb, c],
                      [(c, i, E.sel(en(i), E.inp(a, i), E.inp(c, i))) for i in range(n)], requires=req))
    return out

ARITH_FORMS = [('vv', 'va %s vb', 2, False, False), ('vs', 'va %s x', 1, True, False), ('sv', 'x %s va', 1, True, False),
               ('ip', 'va %s= vb', 2, False, True), ('ips', 'va %s= x', 1, True, True)]

def arith_spec(op, form):
    f = {'add': lambda x, y: x + y, 'sub': lambda x, y: x - y, 'mul': lambda x, y: x * y, 'div': lambda x, y: x / y}[op]
    if form == 'sv': return lambda x, y: f(y, x)
    return f

def int_ops(vt, P1, full, rng):
    n = vt.n; ty = vt.ty; out = []
    simd_int = vt.spec
    forms = ARITH_FORMS
    for op, sym in (('add', '+'), ('sub', '-')):
        for fname, ex, nin, sc, ip in (forms if full else forms[:1] + [rng.choice(forms[1:])]):
            out.append(lanewise('%s-%s' % (op, fname), vt, P1, ex % sym, arith_spec(op, fname), nin=nin, scalar=sc, inplace=ip))
    for fname, ex, nin, sc, ip in (forms if full else forms[:1] + [rng.choice(forms[1:])]):
        out.append(lanewise('mul-%s' % fname, vt, P1, ex % '*', arith_spec('mul', fname), nin=nin, scalar=sc, inplace=ip, atoms=True, mode='ATOMS'))
    # unary minus: the integer specialisations flip the IEEE sign bit (candidate defect, own family)
    out.append(lanewise('neg-int-simd' if simd_int else 'neg', vt, P1, '-va', lambda x: -x, nin=1))
    out.append(lanewise('abs', vt, P1, 'abs(va)', lambda x: x.fabs(), nin=1))
    for op, f in (('min', E.vmin), ('max', E.vmax)):
        out.append(lanewise('%s-vv' % op, vt, P1, '%s(va,vb)' % op, f))
        if full:
            out.append(lanewise('%s-vs' % op, vt, P1, '%s(va,x)' % op, f, nin=1, scalar=True))
            out.append(lanewise('%s-sv' % op, vt, P1, '%s(x,va)' % op, lambda x, y, f=f: f(y, x), nin=1, scalar=True))
    out += compares(vt, P1, full, rng)
    out.append(horizontal('sum', vt, P1, 'va.sum()', lambda a: E.total(a, ty)))
    out.append(horizontal('dot', vt, P1, 'va.dot(vb)', lambda a, b: E.total([x * y for x, y in zip(a, b)], ty), nin=2, mode='ATOMS', atoms='AB'))
    out += hproduct(vt, P1)
    # minimum()/maximum(): result is a lane and bounds all lanes (integer versions are seeded with 0: candidate defect, own family)
    suffix = '' if vt.abi == 'scalar' else '-int'
    out.append(horizontal('hmin' + suffix, vt, P1, 'va.minimum()', bspec=lambda p, a: [('minimum() is one of the lanes', any_of([p.same(x) for x in a])), ('minimum() <= every lane', all_of([p.cmp('le', x) for x in a]))]))
    out.append(horizontal('hmax' + suffix, vt, P1, 'va.maximum()', bspec=lambda p, a: [('maximum() is one of the lanes', any_of([p.same(x) for x in a])), ('maximum() >= every lane', all_of([p.cmp('ge', x) for x in a]))]))
    return out

CMPS = [('lt', '<'), ('le', '<='), ('gt', '>'), ('ge', '>='), ('eq', '=='), ('ne', '!=')]

def compares(vt, cfg, full, rng):
    n = vt.n; out = []
    rt = 'SIMDVector<bool,simd_abi::fixed_size<%d>>' % n
    ops = CMPS if full else [CMPS[0], rng.choice(CMPS[1:4]), rng.choice(CMPS[4:])]
    for pred, sym in ops:
        out.append(lanewise('cmp-%s' % pred, vt, cfg, 'va %s vb' % sym, lambda x, y, p=pred: x.cmp(p, y), oty=BOOL, rtype=rt))
    pred, sym = rng.choice(CMPS) if not full else CMPS[0]
    for pred, sym in (CMPS if full else [rng.choice(CMPS)]):
        out.append(lanewise('cmp-%s-vs' % pred, vt, cfg, 'va %s x' % sym, lambda x, y, p=pred: x.cmp(p, y), nin=1, scalar=True, oty=BOOL, rtype=rt))
        out.append(lanewise('cmp-%s-sv' % pred, vt, cfg, 'x %s va' % sym, lambda x, y, p=pred: y.cmp(p, x), nin=1, scalar=True, oty=BOOL, rtype=rt))
    nz = lambda x: x.cmp('ne', E.const(0, vt.ty))
    out.append(lanewise('land', vt, cfg, 'va && vb', lambda x, y: nz(x).band(nz(y)), oty=BOOL, rtype=rt))
    out.append(lanewise('lor', vt, cfg, 'va || vb', lambda x, y: nz(x).bor(nz(y)), oty=BOOL, rtype=rt))
    return out

def float_ops(vt, P1, P0, full, rng):
    n = vt.n; ty = vt.ty; out = []
    forms = ARITH_FORMS
    # 16 lanes: ~64 uninterpreted applications per case (commutative operators count twice) => 1-4 minutes of SAT each; these
    # go straight to the assertion form with a longer budget, and the quick tier keeps only the vector-vector forms
    heavy = n >= 16
    slow = n * ty.bits >= 512        # 16 floats / 8 doubles: assertion form directly, long budget
    uf = lambda *a, **kw: heavy_case(lanewise(*a, mode='UF', **kw)) if slow else lanewise(*a, mode='UF', **kw)
    for op, sym in (('add', '+'), ('sub', '-'), ('mul', '*'), ('div', '/')):
        for fname, ex, nin, sc, ip in (forms if full else forms[:1] + ([] if heavy else [rng.choice(forms[1:])])):
            out.append(uf('%s-%s' % (op, fname), vt, P0, ex % sym, arith_spec(op, fname), nin=nin, scalar=sc, inplace=ip))
    out.append(uf('sqrt', vt, P0, 'sqrt(va)', lambda x: x.sqrt(), nin=1))
    out.append(uf('neg', vt, P0, '-va', lambda x: -x, nin=1))
    out.append(uf('abs', vt, P0, 'abs(va)', lambda x: x.fabs(), nin=1))
    if full:   # the same bit-level operations through the optimised pipeline, real semantics
        out.append(lanewise('neg-sym', vt, P1, '-va', lambda x: -x, nin=1))
        out.append(lanewise('abs-sym', vt, P1, 'abs(va)', lambda x: x.fabs(), nin=1))
    # fused multiply-add family.  Up to 8 lanes the clause accepts the fused and the unfused scalar form; for 16 lanes (cost) the
    # form is the one the configuration documents: fused iff the build has FMA and the ABI has an intrinsic specialisation.
    fused = vt.spec and vt.isa in ('avx2', 'avx512')
    alts = {'fmadd': ([lambda a, b, c: E.fma(a, b, c)], [lambda a, b, c: a * b + c]),
            'fmsub': ([lambda a, b, c: E.fma(a, b, -c)], [lambda a, b, c: a * b - c]),
            'fnmadd': ([lambda a, b, c: E.fma(-a, b, c), lambda a, b, c: E.fma(a, -b, c)], [lambda a, b, c: c - a * b])}
    for fn, (fz, un) in alts.items():
        fs = (fz if fused else un) if heavy else fz + un
        out.append(uf(fn, vt, P0, '%s(va,vb,vc)' % fn, nin=3, bspec=lambda p, a, b, c, fs=fs: any_of([p.same(f(a, b, c)) for f in fs])))
    # min / max: one of the operands, bounding both; NaN excluded
    nn = lambda *xs: [no_nan(x) for x in xs]
    for op, rel in (('min', 'le'), ('max', 'ge')):
        bs = lambda p, x, y, rel=rel: (p.same(x).bor(p.same(y))).band(p.cmp(rel, x)).band(p.cmp(rel, y))
        out.append(lanewise('%s-vv' % op, vt, P1, '%s(va,vb)' % op, nin=2, bspec=bs, requires=nn))
        if full:
            out.append(lanewise('%s-vs' % op, vt, P1, '%s(va,x)' % op, nin=1, scalar=True, bspec=bs, requires=nn))
            out.append(lanewise('%s-sv' % op, vt, P1, '%s(x,va)' % op, nin=1, scalar=True, bspec=bs, requires=nn))
    out += compares(vt, P1, full, rng)
    # horizontal: each lane exactly once (ring reinterpretation)
    out.append(horizontal('sum', vt, P1, 'va.sum()', lambda a: E.total(a, ty), mode='ATOMS', atoms='LIN'))
    out.append(horizontal('dot', vt, P1, 'va.dot(vb)', lambda a, b: E.total([x * y for x, y in zip(a, b)], ty), nin=2, mode='ATOMS', atoms='AB'))
    out += hproduct(vt, P1)
    if not (vt.spec and vt.abi == 'avx512'):     # SIMDVector<float|double,avx512> has no minimum()/maximum()
        suffix = '-generic' if vt.generic else ''
        out.append(horizontal('hmin' + suffix, vt, P1, 'va.minimum()', requires=no_nan,
                              bspec=lambda p, a: [('minimum() is one of the lanes', any_of([p.same(x) for x in a])), ('minimum() <= every lane', all_of([p.cmp('le', x) for x in a]))]))
        out.append(horizontal('hmax' + suffix, vt, P1, 'va.maximum()', requires=no_nan,
                              bspec=lambda p, a: [('maximum() is one of the lanes', any_of([p.same(x) for x in a])), ('maximum() >= every lane', all_of([p.cmp('ge', x) for x in a]))]))
    return out

def casts(vt, P1):
    """generic template only: cast<U>() converts every lane with static_cast<U>; the result is SIMDVector<U,ABI>."""
    if not vt.generic: return []
    n = vt.n; ty = vt.ty; out = []
    targets = {'int': [L64, FLT], 'int64': [INT, DBL], 'float': [DBL, INT], 'double': [FLT, L64]}[ty.name]
    for u in targets:
        fam = 'cast-%s' % u.name
        nu = n                      # lanes of the result vector
        if not vt.abi.startswith('fixed'):
            # width-based ABI (generic fallback of sse/avx/avx512): SIMDVector<U,ABI> has n*sizeof(T)/sizeof(U) lanes; a widening
            # conversion converts the lanes that exist in the result and must not write past it (it did: fixed in /repo, own family)
            if u.bits <= ty.bits: continue
            fam = 'cast-width-abi-%s' % u.name
            nu = max(1, n * ty.bits // u.bits)
        a = Buf('a', ty, n, 'in'); o = Buf('o', u, n, 'out')
        # conversions keep their real meaning in SYM; float -> int is specified where the value is representable
        req = []
        if ty.kind == 'float' and u.kind == 'int':
            lim = 2.0 ** 30 if u.bits == 32 else 2.0 ** 62
            for i in range(n):
                x = E.inp(a, i)
                req += [x.cmp('gt', E.const(-lim, ty)), x.cmp('lt', E.const(lim, ty))]
        out.append(mk(fam, vt, P1, '    V va(a,false);\n    SIMDVector<%s,%s> r = va.cast<%s>();\n    r.store(o,false);' % (CPPT[u.name], vt.cabi, CPPT[u.name]),
                      [a, o], [(o, i, E.inp(a, i).cast(u)) for i in range(min(n, nu))], requires=req))
    return out

def all_families(vt, P1, P0, full, rng):
    out = data_movement(vt, P1, P0, full) + shifts(vt, P1, P0, full) + masks(vt, P1, full) + casts(vt, P1)
    out += float_ops(vt, P1, P0, full, rng) if vt.flt else int_ops(vt, P1, full, rng)
    return out

# quick tier, ABIs narrower than the native one: only the families whose code path changes with the ISA flags (SSSE3/SSE4.1 abs,
# min/max, mullo, dpps; FMA; AVX-512VL masks, abs/min/max on 64-bit integers)
ISA_SENSITIVE = re.compile(r'^(mask|abs$|min-vv|max-vv|mul-vv|dot|sum|product|fm|fnm|neg|hmin|hmax|load-store$|reverse)')
# quick tier, scalar ABI and second generic instantiations: a fixed sample of families
SAMPLE = re.compile(r'^(load-store$|bcast-ctor|setN|reverse|add-vv|mul-vv|neg|abs$|min-vv|cmp-lt$|sum|product|dot|hmin|hmax|mask_load$|mask_store|shift|cast)')
NATIVE = {'scalar': 'scalar', 'sse2': 'sse', 'sse4.2': 'sse', 'avx': 'avx', 'avx2': 'avx', 'avx512': 'avx512'}

def vts(isa, thorough):
    """(VT, level) pairs of a configuration; level: 'full' (every family, every form), 'native' (every family, sampled forms),
    'sens' (ISA-sensitive families), 'sample'."""
    out = []
    for ty in (INT, L64, FLT, DBL):
        abis = ['scalar', 'sse']
        if isa in HAS_AVX: abis.append('avx')
        if isa == 'avx512': abis.append('avx512')
        if thorough:
            abis += ['fixed2', 'fixed4', 'fixed8']
            if isa in ('sse2', 'sse4.2'): abis.append('avx')          # generic fallback under the avx name
        elif isa == 'sse2':
            abis += ['fixed4']
        for abi in abis:
            if thorough:
                # the scalar build differs from sse2 only in the native alias; the generic template is ISA independent apart from
                # the compiler flags: every family under sse2 and avx512, a sample elsewhere
                if isa == 'scalar': lvl = 'sample' if abi != 'sse' else 'native'
                elif abi == 'scalar': lvl = 'native'
                elif abi.startswith('fixed'): lvl = 'full' if isa in ('sse2', 'avx512') else 'sample'
                elif abi == 'avx' and isa in ('sse2', 'sse4.2'): lvl = 'native'
                else: lvl = 'full'
            elif abi == NATIVE[isa] or (abi == 'fixed4' and ty in (INT, FLT)): lvl = 'native'
            elif abi == 'scalar' or abi.startswith('fixed'): lvl = 'sample'
            else: lvl = 'sens'
            out.append((VT(ty, abi, isa), lvl))
    return out

def complex_mask_store_case(base, abi, lanes, cfg):
    """masked store of a complex SIMD vector (split real/imaginary registers): the enabled lanes of the destination get the
    (re,im) pairs of the vector, the disabled lanes stay untouched; symbolic 8-bit mask (all masks at once).  SYM."""
    C = 'std::complex<%s>' % base.cpp
    a = Buf('a', base, 2 * lanes, 'in'); c = Buf('c', base, 2 * lanes, 'inout'); m = Scalar('m', UINT, 0, (1 << lanes) - 1)
    body = ('    using V = SIMDVector<%s,simd_abi::%s>;\n    static_assert(V::Size == %d, "lane count");\n'
            '    V va(reinterpret_cast<const %s*>(a), false);\n    va.mask_store(reinterpret_cast<%s*>(c), (uint8_t)m, false);' % (C, abi, lanes, C, C))
    ens = []
    for i in range(lanes):
        # Fastor masks are written most-significant-lane first like the AVX-512 intrinsics: bit i enables lane i
        bit = E.arg(m).bitand(E.const(1 << i, UINT)).cmp('ne', E.const(0, UINT))
        for part in (0, 1):
            k = 2 * i + part
            ens.append((c, k, E.sel(bit, E.inp(a, k), E.inp(c, k))))
    return Case('C08/cmask_store/c%s/%s/%s' % (base.name, abi, cfg.tag()), 'C08', body, [a, c], ens, 'SYM', cfg, scalars=[m])

def _prod_sum(x1, y1, x2, y2, minus, variant):
    """x1*y1 +/- x2*y2 in one admissible floating-point evaluation: 'plain' two rounded products combined; 'fma1' the first
    product fused into the add; 'fma2'/'fma2n' the second one fused (for a difference the sign goes to either factor)."""
    p1 = x1 * y1; p2 = x2 * y2
    if variant == 'plain': return p1 - p2 if minus else p1 + p2
    if variant == 'fma1': return E.fma(x1, y1, -p2 if minus else p2)
    if variant == 'fma2': return E.fma(-x2, y2, p1) if minus else E.fma(x2, y2, p1)
    if variant == 'fma2n': return E.fma(x2, -y2, p1) if minus else E.fma(x2, y2, p1)
    raise ValueError(variant)

def complex_arith_case(base, abi, lanes, op, cfg, inplace=False, variant='plain'):
    """arithmetic on complex SIMD vectors (split real/imaginary registers), lane by lane against the scalar definition:
    (a*b) = (ar*br - ai*bi, ar*bi + ai*br);  a/b = ((ar*br + ai*bi)/d, (ai*br - ar*bi)/d), d = br*br + bi*bi;
    rcp(a) = (ar/d, -(ai/d)), d = ar*ar + ai*ai;  conj, +, - componentwise.  UF: products, sums and quotients are
    uninterpreted; a sum of two products may be evaluated plainly or with one product fused into a multiply-add: the
    variants of one (type, ABI, operation) form an alternative group that holds when one of them is proved."""
    C = 'std::complex<%s>' % base.cpp
    a = Buf('a', base, 2 * lanes, 'in'); b = Buf('b', base, 2 * lanes, 'in'); c = Buf('c', base, 2 * lanes, 'out')
    sym = {'add': '+', 'sub': '-', 'mul': '*', 'div': '/'}
    if op in sym:
        stmt = ('V vc = va %s vb;' % sym[op]) if not inplace else ('V vc(va); vc %s= vb;' % sym[op])
    elif op == 'rcp': stmt = 'V vc = rcp(va);'
    elif op == 'conj': stmt = 'V vc = conj(va);'
    body = ('    using V = SIMDVector<%s,simd_abi::%s>;\n    static_assert(V::Size == %d, "lane count");\n'
            '    V va(reinterpret_cast<const %s*>(a), false); V vb(reinterpret_cast<const %s*>(b), false);\n    %s\n'
            '    vc.store(reinterpret_cast<%s*>(c), false);' % (C, abi, lanes, C, C, stmt, C))
    v = variant.split('+')[0]; negq = variant.endswith('+negnum')
    ens = []
    # + - conj state every lane (they also pin the de-interleaving load and the interleaving store lane by lane); the
    # product/quotient formulas are stated on the first and last lane (all lanes run the same vertical instructions)
    for i in (range(lanes) if op in ('add', 'sub', 'conj') else sorted({0, lanes - 1})):
        ar, ai, br, bi = E.inp(a, 2 * i), E.inp(a, 2 * i + 1), E.inp(b, 2 * i), E.inp(b, 2 * i + 1)
        if op == 'add': ens += [(c, 2 * i, ar + br), (c, 2 * i + 1, ai + bi)]
        elif op == 'sub': ens += [(c, 2 * i, ar - br), (c, 2 * i + 1, ai - bi)]
        elif op == 'conj': ens += [(c, 2 * i, ar), (c, 2 * i + 1, -ai)]
        elif op == 'mul':
            ens += [(c, 2 * i, _prod_sum(ar, br, ai, bi, True, v)), (c, 2 * i + 1, _prod_sum(ar, bi, ai, br, False, v))]
        elif op == 'div':
            d = _prod_sum(br, br, bi, bi, False, v)
            ens += [(c, 2 * i, _prod_sum(ar, br, ai, bi, False, v) / d), (c, 2 * i + 1, _prod_sum(ai, br, ar, bi, True, v) / d)]
        elif op == 'rcp':
            d = _prod_sum(ar, ar, ai, ai, False, v)
            ens += [(c, 2 * i, ar / d), (c, 2 * i + 1, (-ai) / d if negq else -(ai / d))]
    cfg0 = Cfg(cfg.isa, cfg.std, cfg.macros, pipe='P0')
    grp = 'C08/c%s%s/c%s/%s/%s' % (op, '-assign' if inplace else '', base.name, abi, cfg0.tag())
    cs = Case(grp + ('/alt-' + variant if op in ('mul', 'div', 'rcp') else ''), 'C08', body, [a, b, c], ens, 'UF', cfg0)
    if op in ('mul', 'div', 'rcp'): cs.alt_group = grp
    return cs

def complex_reduce_cases(base, abi, lanes, cfg):
    """complex SIMD vectors, linear part of the interface: sum() == (sum of the real parts, sum of the imaginary parts) with every
    lane exactly once (ATOMS 'LIN': ring reinterpretation, rounding of the summation order not judged) and real()/imag() ==
    the de-interleaved parts lane by lane (SYM, bit exact)."""
    C = 'std::complex<%s>' % base.cpp
    head = ('    using V = SIMDVector<%s,simd_abi::%s>;\n    static_assert(V::Size == %d, "lane count");\n'
            '    V va(reinterpret_cast<const %s*>(a), false);\n' % (C, abi, lanes, C))
    out = []
    a = Buf('a', base, 2 * lanes, 'in', atoms='LIN'); c = Buf('c', base, 2, 'out')
    ens = [(c, 0, E.total([E.inp(a, 2 * i) for i in range(lanes)], base)), (c, 1, E.total([E.inp(a, 2 * i + 1) for i in range(lanes)], base))]
    out.append(Case('C08/csum/c%s/%s/%s' % (base.name, abi, cfg.tag()), 'C08',
                    head + '    %s r = va.sum();\n    c[0] = r.real(); c[1] = r.imag();' % C, [a, c], ens, 'ATOMS', cfg))
    for part, off in (('real', 0), ('imag', 1)):
        a = Buf('a', base, 2 * lanes, 'in'); c = Buf('c', base, lanes, 'out')
        out.append(Case('C08/c%s/c%s/%s/%s' % (part, base.name, abi, cfg.tag()), 'C08',
                        head + '    va.%s().store(c, false);' % part, [a, c], [(c, i, E.inp(a, 2 * i + off)) for i in range(lanes)], 'SYM', cfg))
    return out

def complex_norm_case(base, abi, lanes, cfg, fn, variant):
    """norm() == ar*ar + ai*ai and magnitude() == sqrt(ar*ar + ai*ai) lane by lane (vertical operations returning a real vector).
    UF on pipeline P0; the sum of the two squares may be contracted into one multiply-add: alternative group as for * and /."""
    C = 'std::complex<%s>' % base.cpp
    a = Buf('a', base, 2 * lanes, 'in'); c = Buf('c', base, lanes, 'out')
    body = ('    using V = SIMDVector<%s,simd_abi::%s>;\n    static_assert(V::Size == %d, "lane count");\n'
            '    V va(reinterpret_cast<const %s*>(a), false);\n    va.%s().store(c, false);' % (C, abi, lanes, C, fn))
    ens = []
    for i in range(lanes):
        ar, ai = E.inp(a, 2 * i), E.inp(a, 2 * i + 1)
        d = _prod_sum(ar, ar, ai, ai, False, variant)
        ens.append((c, i, d.sqrt() if fn == 'magnitude' else d))
    cfg0 = Cfg(cfg.isa, cfg.std, cfg.macros, pipe='P0')
    grp = 'C08/c%s/c%s/%s/%s' % (fn, base.name, abi, cfg0.tag())
    cs = Case(grp + '/alt-' + variant, 'C08', body, [a, c], ens, 'UF', cfg0)
    cs.alt_group = grp
    return cs

def complex_arith_cases(isa, thorough):
    out = []
    abis = {'sse2': [('sse', 16)], 'sse4.2': [('sse', 16)], 'avx': [('avx', 32), ('sse', 16)], 'avx2': [('avx', 32), ('sse', 16)],
            'avx512': [('avx512', 64), ('avx', 32)]}.get(isa, [])
    fma = isa in ('avx2', 'avx512')          # the flag sets of these two carry -mfma
    for abi, nbytes in abis:
        for base in (DBL, FLT):
            lanes = nbytes * 8 // base.bits
            out += complex_reduce_cases(base, abi, lanes, Cfg(isa))
            for fn in ('norm', 'magnitude'):
                for v in (['plain', 'fma1', 'fma2'] if fma else ['plain']):
                    out.append(complex_norm_case(base, abi, lanes, Cfg(isa), fn, v))
            for op in ('add', 'sub', 'mul', 'div', 'rcp', 'conj'):
                variants = ['plain']
                if op in ('mul', 'div', 'rcp') and fma: variants = ['plain', 'fma1', 'fma2']
                for v in variants:
                    out.append(complex_arith_case(base, abi, lanes, op, Cfg(isa), variant=v))
                    if op in ('mul', 'div') and (thorough or base is DBL): out.append(complex_arith_case(base, abi, lanes, op, Cfg(isa), inplace=True, variant=v))
    return out

def cases(tier, seed):
    rng = random.Random(seed)
    out = []
    thorough = tier == 'thorough'
    for isa in isas(tier):
        P1 = Cfg(isa); P0 = Cfg(isa, pipe='P0')
        for vt, lvl in vts(isa, thorough):
            cs = all_families(vt, P1, P0, lvl == 'full', rng)
            if lvl == 'sample': cs = [c for c in cs if SAMPLE.match(c.cid.split('/')[1])]
            elif lvl == 'sens': cs = [c for c in cs if ISA_SENSITIVE.match(c.cid.split('/')[1])]
            out += cs
        out += complex_arith_cases(isa, thorough)
        if isa == 'avx512':
            out.append(complex_mask_store_case(DBL, 'avx512', 8, P1))
            out.append(complex_mask_store_case(FLT, 'avx', 8, P1))
            out.append(complex_mask_store_case(DBL, 'avx', 4, P1))
        if isa == 'sse2' or thorough:
            # 16-lane generic vectors take an 8-bit mask (same class as the SIMDVector<int32,avx512> mask fixed in d25f003)
            v16 = VT(FLT, 'fixed16', isa)
            out += [c for c in masks(v16, P1, False, pre='lanes16-') if re.match(r'C08/lanes16-mask_(load|store-fallback)/', c.cid)]
    seen = set(); res = []
    for c in out:
        if c.cid not in seen: seen.add(c.cid); res.append(c)
    return res

def evidence_extra(tier):
    return {'not_decided': ['rcp/rsqrt relative error bounds', 'product() of 16-lane vectors', 'integer division', 'complex SIMD vectors: abs arg product dot minimum maximum mixed-scalar forms',
                            'rounding of float sum()/dot() (proved: each lane / product exactly once)']}

# ---- supporting static fact: no integer lane access through incompatible pointer casts ------------------------------
# The proofs read clang's LLVM IR, where a lane read through ((int64_t*)&v)[i] has its obvious meaning.  Under the C++
# aliasing rules that access is undefined for the integer vector types (__m128i/__m256i/__m512i have `long long` lanes;
# int32_t/int64_t are different types), and g++ -O2 really did compile such code to zeros (fixed in babc9fa, 96ebd57,
# c24bbe3).  The scan keeps the assumption "the IR semantics is the semantics every conforming compiler must give" from
# silently failing again: any cast of the address of an object to an integer-scalar pointer in the integer SIMD headers
# is reported, unless the enclosing function is never referenced anywhere else in Fastor/ (dead helper).
_PUN_FILES = ['Fastor/simd_vector/simd_vector_int32.h', 'Fastor/simd_vector/simd_vector_int64.h', 'Fastor/simd_vector/extintrin.h',
              'Fastor/simd_vector/simd_vector_common.h', 'Fastor/simd_vector/simd_vector_abi.h']
_PUN_RE = re.compile(r'(\(\s*(const\s+)?(int|int32_t|int64_t|long|long long|Int|unsigned|uint\d+_t|size_t|scalar_value_type)\s*\*\s*\)\s*\(?\s*&)'
                     r'|(reinterpret_cast<\s*(const\s+)?(int|int32_t|int64_t|long|long long|Int|uint\d+_t|scalar_value_type)\s*\*\s*>\s*\(\s*&)')
_FN_RE = re.compile(r'^\s*(?:template<[^;{]*>\s*)?(?:FASTOR_INLINE|FASTOR_HINT_INLINE|inline|static)\b[^;(]*?\b(operator\s*[^\s(]+|\w+)\s*\(')

def pun_scan(repo):
    hits = []; nfiles = 0; nlines = 0
    alltext = None
    for rel in _PUN_FILES:
        path = os.path.join(repo, rel)
        if not os.path.exists(path): continue
        nfiles += 1
        fn = '?'
        for ln, line in enumerate(open(path, errors='replace'), 1):
            nlines += 1
            code = line.split('//')[0]
            m = _FN_RE.match(code)
            if m: fn = m.group(1)
            if _PUN_RE.search(code):
                hits.append((rel, ln, fn, line.strip()))
    out = []
    for (rel, ln, fn, text) in hits:
        if re.fullmatch(r'\w+', fn) and fn.startswith('_mm'):
            if alltext is None:
                alltext = ''
                for root, _, files in os.walk(os.path.join(repo, 'Fastor')):
                    for f in files:
                        alltext += open(os.path.join(root, f), errors='replace').read()
            if len(re.findall(r'\b%s\b' % re.escape(fn), alltext)) <= 1: continue      # defined, never referenced
        out.append((rel, ln, fn, text))
    return {'pun_scan_files': nfiles, 'pun_scan_lines': nlines, 'pun_scan_hits': len(out),
            'pun_scan_note': 'supporting static fact (regex scan, not a proof): integer SIMD headers contain no lane access through incompatible pointer casts'}, out

def post_run(tier, seed):
    import vf
    summary, hits = pun_scan(vf.REPO)
    byfn = {}
    for (rel, ln, fn, text) in hits: byfn.setdefault((rel, fn), []).append((ln, text))
    viol = []
    for (rel, fn), ls in sorted(byfn.items()):
        viol.append({'case': 'C08/lane-pun/%s/%s' % (os.path.basename(rel), fn),
                     'names': ['%s:%d' % (rel, ln) for ln, _ in ls],
                     'replay': {'property': 'C08', 'kind': 'integer lane access through an incompatible pointer cast (undefined under strict aliasing; g++ -O2 has compiled this pattern to zeros)',
                                'file': rel, 'function': fn, 'lines': [{'line': ln, 'text': t} for ln, t in ls],
                                'verdict': 'static fact; the clang-IR based proof cannot see what another compiler does with this undefined access'}})
    return summary, viol
