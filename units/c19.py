"""C19 -- index-tensor and boolean-mask views select and update exactly the indexed items.

Contracts (from the property text):
  reads   C = A(it)            c[k]      == a[it[k]]                     (index-tensor order, repeats allowed)
          C = A(it0,it1)       c[i*n+j]  == a[it0[i]*N + it1[j]]         (one index tensor per axis)
          C = A(it,fseq/int)   c[i*w+j]  == a[it[i]*N + (first+j*step)]  (mixed with a range or a fixed integer)
  writes  A(it) op= rhs        a_after[q] == old a[q] op rhs[k] if it[k]==q for some k (indices duplicate-free), else old a[q]
          A(it0,it1) op= rhs   likewise on the product set; mixed forms likewise
  masks   A(mask) op= rhs      a_after[q] == mask[q] ? old a[q] op rhs[q] : old a[q]
The index tensors and masks are *symbolic* input buffers: one proof covers every in-range index vector of that
length (duplicate-free ones for writes: a `requires`) and all 2^n masks, for all element values.  Index element types
int, long long, size_t.  Mode SYM (data movement; int = += -=); UF on pipeline P0 for float / double with all five
operators.
"""
from units.common import *
from units.c18 import (in_range, dup_free, is_bool, replay_perm, replay_any, it_decl, apply_op, mode_cfg, shp, rpos, rsize,
                        seq_txt, fseq_txt, rtag, all_ranges, OPS, INT_OPS, ALL_OPS)

LEVEL_NOTE = ('per instantiation (parent shape, index-tensor shape and element type, operator, right-hand-side kind, element '
              'type, ISA, macro) the contract is proved for all element values AND all in-range index tensors (duplicate-free '
              'for writes) / all 2^n masks, which are symbolic inputs; shapes and configurations are enumerated; parents '
              'have at most 16 elements (symbolic addresses)')

def ity_tag(t): return t.name

# ----------------------------------------------------------------------------------------------
# reads
# ----------------------------------------------------------------------------------------------
def read_it_case(ty, shape, ishape, isa, ity=INT, form='ctor', const=False, macros=(), std='c++14'):
    """C = A(P)   flat index tensor of the parent's rank (rank 1: any length)."""
    n = prod(shape); K = prod(ishape)
    a = Buf('a', ty, n, 'in'); p = Buf('p', ity, K, 'in')
    role = 'inout' if form in ('add', 'sub') else 'out'
    c = Buf('c', ty, K, role)
    mode, cfg = mode_cfg(ty, isa, std, macros)
    A = 'A'
    decl = '%s %s' % (town(ty, shape, 'a'), it_decl('p', ity, ishape))
    if const: decl += ' const Tensor<%s,%s> &CA = A;' % (ty.cpp, dims(shape)); A = 'CA'
    CT = 'Tensor<%s,%s>' % (ty.cpp, dims(ishape))
    g = lambda k: E.inp(a, E.inp(p, k))
    if form == 'ctor':   stmt = '%s C = %s(P);' % (CT, A); spec = lambda k: g(k)
    elif form == 'assign': stmt = '%s C; C = %s(P);' % (CT, A); spec = lambda k: g(k)
    elif form == 'add':  stmt = '%s C(c); C += %s(P);' % (CT, A); spec = lambda k: E.inp(c, k) + g(k)
    elif form == 'sub':  stmt = '%s C(c); C -= %s(P);' % (CT, A); spec = lambda k: E.inp(c, k) - g(k)
    elif form == 'expr': stmt = '%s C = %s(P) + %s(P);' % (CT, A, A); spec = lambda k: g(k) + g(k)
    elif form == 'view1d':      # consumer is a 1-D range view of C
        assert len(ishape) == 1
        stmt = '%s C; C(seq(0,%d)) = %s(P);' % (CT, K, A); spec = lambda k: g(k)
    elif form == 'view2d':      # consumer is a 2-D range view of C (two-index evaluation of the index view)
        assert len(ishape) == 2
        stmt = '%s C; C(seq(0,%d),seq(0,%d)) = %s(P);' % (CT, ishape[0], ishape[1], A); spec = lambda k: g(k)
    else: raise ValueError(form)
    body = '    %s\n    %s\n    %s' % (decl, stmt, copy_out('C', 'c', K))
    ens = [(c, k, spec(k)) for k in range(K)]
    fam = 'read-it' if len(shape) == 1 else 'read-itnd'
    cid = 'C19/%s/%s/%s/i%s-%s/%s%s/%s' % (fam, ty.name, shp(shape), shp(ishape), ity_tag(ity), form, '-const' if const else '', cfg.tag())
    return Case(cid, 'C19', body, [a, p, c], ens, mode, cfg, requires=in_range(p, K, n), replay_values=replay_any('p', K, n, ity))

def axis_spec(kind, arg, N):
    """one axis of a mixed 2-D index: returns (C++ argument text, list of E/int positions, extra decl, bufs, requires, replay, tag)."""
    raise NotImplementedError

def read_axes_case(ty, shape, ax0, ax1, isa, form='ctor', macros=()):
    """C = A(x0, x1) on a rank-2 parent;  axis descriptors: ('it', K, ity) | ('fseq', range) | ('int', value) | ('sym',)"""
    M, N = shape
    a = Buf('a', ty, M * N, 'in'); bufs = [a]; req = []; rep = []; scal = []; decl = [town(ty, shape, 'a')]
    mode, cfg = mode_cfg(ty, isa, macros=macros)
    def axis(ax, name, ext):
        k = ax[0]
        if k == 'it':
            K, ity = ax[1], ax[2]
            b = Buf(name, ity, K, 'in'); bufs.append(b); req.extend(in_range(b, K, ext)); rep.append(replay_any(name, K, ext, ity))
            decl.append(it_decl(name, ity, (K,)))
            return name.upper(), [E.inp(b, i) for i in range(K)], 'i%d-%s' % (K, ity_tag(ity)), ity
        if k == 'fseq':
            return fseq_txt(ax[1]), rpos(ax[1]), 'f' + rtag(ax[1]), None
        if k == 'int':
            return str(ax[1]), [ax[1]], 'c%d' % ax[1], None
        if k == 'sym':
            sc = Scalar(name, INT, 0, ext - 1); scal.append(sc)
            return name, [E.arg(sc)], 'sym', None
        raise ValueError(k)
    t0, pos0, tag0, ity0 = axis(ax0, 'p', M)
    t1, pos1, tag1, ity1 = axis(ax1, 'q', N)
    ity = ity0 or ity1 or INT
    m, n = len(pos0), len(pos1)
    c = Buf('c', ty, m * n, 'out'); bufs.append(c)
    def flatidx(r, cc):
        if isinstance(r, E) and isinstance(cc, E):
            if r.ty is not cc.ty: cc = cc.cast(r.ty)
            return r * N + cc
        if isinstance(r, E): return r * N + cc
        if isinstance(cc, E): return cc + r * N
        return r * N + cc
    CT = 'Tensor<%s,%d,%d>' % (ty.cpp, m, n)
    if form == 'ctor': stmt = '%s C = A(%s,%s);' % (CT, t0, t1)
    elif form == 'assign': stmt = '%s C; C = A(%s,%s);' % (CT, t0, t1)
    elif form == 'view2d': stmt = '%s C; C(seq(0,%d),seq(0,%d)) = A(%s,%s);' % (CT, m, n, t0, t1)
    else: raise ValueError(form)
    body = '    %s\n    %s\n    %s' % (' '.join(decl), stmt, copy_out('C', 'c', m * n))
    ens = [(c, i * n + j, E.inp(a, flatidx(pos0[i], pos1[j]))) for i in range(m) for j in range(n)]
    cid = 'C19/read-axes/%s/%s/%s,%s/%s/%s' % (ty.name, shp(shape), tag0, tag1, form, cfg.tag())
    return Case(cid, 'C19', body, bufs, ens, mode, cfg, scalars=scal, requires=req, replay_values='\n'.join(rep) or None)

# ----------------------------------------------------------------------------------------------
# writes
# ----------------------------------------------------------------------------------------------
def rhs_kind(kind, ty, K, kshape, bufs, req, rep, scal, decl):
    """right-hand side of K elements (shape kshape): returns (C++ text, k -> E)."""
    if kind == 'lit':      # literal of the element type (no int -> float conversion inside the library)
        return {'int': '7', 'float': '7.0f', 'double': '7.0'}[ty.name], lambda k: E.const(7, ty)
    if kind == 'sym':
        sc = Scalar('s', ty); scal.append(sc)
        return 's', lambda k: E.arg(sc)
    if kind in ('tensor', 'sum', 'neg'):
        b = Buf('b', ty, K, 'in'); bufs.append(b); decl.append('Tensor<%s,%s> B(b);' % (ty.cpp, dims(kshape)))
        if kind == 'tensor': return 'B', lambda k: E.inp(b, k)
        if kind == 'sum': return 'B + B', lambda k: E.inp(b, k) + E.inp(b, k)
        return '-B', lambda k: -E.inp(b, k)
    if kind == 'itview':     # view of another tensor through a second symbolic index tensor (repeats allowed)
        nb = K + 2
        b = Buf('b', ty, nb, 'in'); r = Buf('r', INT, K, 'in'); bufs.extend([b, r])
        req.extend(in_range(r, K, nb)); rep.append(replay_any('r', K, nb, INT))
        decl.append('Tensor<%s,%d> B(b); %s' % (ty.cpp, nb, it_decl('r', INT, kshape)))
        if len(kshape) != 1: raise ValueError('itview rhs is rank 1')
        return 'B(R)', lambda k: E.inp(b, E.inp(r, k))
    if kind == 'seqview':
        nb = 2 * K + 1
        b = Buf('b', ty, nb, 'in'); bufs.append(b); decl.append('Tensor<%s,%d> B(b);' % (ty.cpp, nb))
        return 'B(seq(1,%d,2))' % (2 * K + 1), lambda k: E.inp(b, 1 + 2 * k)
    raise ValueError(kind)

def scalar_apply(op, old, x, ty, kind):
    return apply_op(op, old, x)

def fix_rkind(ty, op, rkind):
    """view /= floating scalar multiplies by a reciprocal that the compiler folds for a literal: the clause would have
    to accept either form; that combination is left to C02/C05 (scalar division) and a tensor right-hand side is used."""
    if ty.kind == 'float' and op == '/=' and rkind in ('lit', 'sym'): return 'tensor'
    # int:  a -= b + b  is compiled to a + b * -2; a 32-bit multiplication by a negative constant against the adder form
    # of the clause is a hard SAT instance (measured: 1 element, > 300 s) although nothing is wrong: use the plain tensor
    if ty.kind == 'int' and op == '-=' and rkind == 'sum': return 'tensor'
    return rkind

def write_it_case(ty, shape, ishape, op, rkind, isa, ity=INT, macros=(), std='c++14'):
    """A(P) op= rhs   P symbolic, in range, duplicate-free."""
    n = prod(shape); K = prod(ishape)
    a = Buf('a', ty, n, 'inout'); p = Buf('p', ity, K, 'in')
    bufs = [a, p]; req = in_range(p, K, n) + dup_free(p, K); rep = [replay_perm('p', K, n, ity)]; scal = []
    decl = [town(ty, shape, 'a'), it_decl('p', ity, ishape)]
    mode, cfg = mode_cfg(ty, isa, std, macros)
    rkind = fix_rkind(ty, op, rkind)
    rt, rel = rhs_kind(rkind, ty, K, ishape, bufs, req, rep, scal, decl)
    body = '    %s\n    A(P) %s %s;\n    %s' % (' '.join(decl), op, rt, copy_out('A', 'a', n))
    ens = []
    for q in range(n):
        e = E.inp(a, q)
        for k in reversed(range(K)):
            e = E.sel(E.inp(p, k).cmp('eq', q), scalar_apply(op, E.inp(a, q), rel(k), ty, rkind), e)
        ens.append((a, q, e))
    fam = 'write-it' if len(shape) == 1 else 'write-itnd'
    cid = 'C19/%s/%s/%s/i%s-%s/%s/%s/%s' % (fam, ty.name, shp(shape), shp(ishape), ity_tag(ity), OPS[op], rkind, cfg.tag())
    return Case(cid, 'C19', body, bufs, ens, mode, cfg, scalars=scal, requires=req, replay_values='\n'.join(rep))

def write_axes_case(ty, shape, ax0, ax1, op, rkind, isa, macros=()):
    """A(x0,x1) op= rhs on a rank-2 parent; index tensors duplicate-free."""
    M, N = shape
    a = Buf('a', ty, M * N, 'inout'); bufs = [a]; req = []; rep = []; scal = []; decl = [town(ty, shape, 'a')]
    mode, cfg = mode_cfg(ty, isa, macros=macros)
    def axis(ax, name, ext):
        k = ax[0]
        if k == 'it':
            K, ity = ax[1], ax[2]
            b = Buf(name, ity, K, 'in'); bufs.append(b); req.extend(in_range(b, K, ext) + dup_free(b, K)); rep.append(replay_perm(name, K, ext, ity))
            decl.append(it_decl(name, ity, (K,)))
            return name.upper(), [E.inp(b, i) for i in range(K)], 'i%d-%s' % (K, ity_tag(ity))
        if k == 'fseq': return fseq_txt(ax[1]), rpos(ax[1]), 'f' + rtag(ax[1])
        if k == 'int': return str(ax[1]), [ax[1]], 'c%d' % ax[1]
        if k == 'sym':
            sc = Scalar(name, INT, 0, ext - 1); scal.append(sc)
            return name, [E.arg(sc)], 'sym'
        raise ValueError(k)
    t0, pos0, tag0 = axis(ax0, 'p', M)
    t1, pos1, tag1 = axis(ax1, 'q', N)
    m, n = len(pos0), len(pos1)
    rkind = fix_rkind(ty, op, rkind)
    rt, rel = rhs_kind(rkind, ty, m * n, (m, n), bufs, req, rep, scal, decl)
    body = '    %s\n    A(%s,%s) %s %s;\n    %s' % (' '.join(decl), t0, t1, op, rt, copy_out('A', 'a', M * N))
    def eq(x, v):
        if isinstance(x, E): return x.cmp('eq', v)
        return None if x == v else False
    ens = []
    for r in range(M):
        for cc in range(N):
            e = E.inp(a, r * N + cc)
            for i in reversed(range(m)):
                for j in reversed(range(n)):
                    c0 = eq(pos0[i], r); c1 = eq(pos1[j], cc)
                    if c0 is False or c1 is False: continue
                    conds = [x for x in (c0, c1) if x is not None]
                    val = scalar_apply(op, E.inp(a, r * N + cc), rel(i * n + j), ty, rkind)
                    if not conds: e = val
                    else:
                        cnd = conds[0]
                        for x in conds[1:]: cnd = cnd.band(x)
                        e = E.sel(cnd, val, e)
            ens.append((a, r * N + cc, e))
    cid = 'C19/write-axes/%s/%s/%s,%s/%s/%s/%s' % (ty.name, shp(shape), tag0, tag1, OPS[op], rkind, cfg.tag())
    return Case(cid, 'C19', body, bufs, ens, mode, cfg, scalars=scal, requires=req, replay_values='\n'.join(rep) or None)

def mask_write_case(ty, shape, op, rkind, isa, macros=(), std='c++14'):
    """A(M) op= rhs   all 2^n masks at once."""
    n = prod(shape)
    a = Buf('a', ty, n, 'inout'); m = Buf('m', BOOL, n, 'in')
    bufs = [a, m]; req = is_bool(m, n); rep = []; scal = []
    decl = [town(ty, shape, 'a'), 'Tensor<bool,%s> M(m);' % dims(shape)]
    mode, cfg = mode_cfg(ty, isa, std, macros)
    rkind = fix_rkind(ty, op, rkind)
    rt, rel = rhs_kind(rkind, ty, n, shape, bufs, req, rep, scal, decl)
    body = '    %s\n    A(M) %s %s;\n    %s' % (' '.join(decl), op, rt, copy_out('A', 'a', n))
    ens = [(a, q, E.sel(E.inp(m, q).cmp('ne', 0), scalar_apply(op, E.inp(a, q), rel(q), ty, rkind), E.inp(a, q))) for q in range(n)]
    cid = 'C19/mask/%s/%s/%s/%s/%s' % (ty.name, shp(shape), OPS[op], rkind, cfg.tag())
    return Case(cid, 'C19', body, bufs, ens, mode, cfg, scalars=scal, requires=req, replay_values='\n'.join(rep) or None)

# ----------------------------------------------------------------------------------------------
# Sizes: CBMC handles the symbolic gather / scatter addresses quickly while (number of symbolic accesses) x (parent size)
# stays small; 64-bit index types cost about 3x more than int (64-bit pointer arithmetic), therefore long long / size_t
# index tensors are used with <= 5 indices and int index tensors for the long (2V+1) ones.
# view2d forms (an index view assigned to a 2-D range view) currently fail on the unchanged tree (known finding: the
# two-index evaluation of a rank-2 index view uses it[i+j]); the quick tier keeps two of them per ISA.
# ----------------------------------------------------------------------------------------------
def cases(tier, seed):
    rng = random.Random(seed)
    T = tier == 'thorough'
    out = []
    def ops_for(ty): return INT_OPS if ty is INT else ALL_OPS
    def ftype(): return rng.choice([FLT, DBL])
    def anyty(): return rng.choice([INT, INT, FLT, DBL])
    ITYS = [INT, I64, U64]
    def ity_for(K, n): return rng.choice(ITYS) if (K <= 5 and n <= 12) else INT
    VEC = ('FASTOR_USE_VECTORISED_EXPR_ASSIGN',)
    for isa in isas(tier):
        V = vec_elems(isa, INT)
        # ---- reads through one flat index tensor, rank-1 parents -------------------------------------------------
        Ks = sorted(set([1, 2, 3, 4, 5, V - 1, V, V + 1, 2 * V + 1] if not T else list(range(1, 10)) + [V - 1, V, V + 1, 2 * V - 1, 2 * V, 2 * V + 1]))
        Ks = [k for k in Ks if 1 <= k <= (17 if not T else 33)]
        for K in Ks:
            for N in ([rng.choice([3, 7, 10] + ([16] if K <= 5 else []))] if not T else [2, 7, 16 if K <= 9 else 10]):
                out.append(read_it_case(anyty(), (N,), (K,), isa, ity=ity_for(K, N), form='ctor'))
                if T or K % 2 or K >= V: out.append(read_it_case(rng.choice([INT, FLT]), (N,), (K,), isa, ity=ity_for(K, N), form=rng.choice(['assign', 'view1d', 'expr', 'add', 'sub'])))
        for ity in ITYS:                      # every index type on one fixed shape, int / float / double parents
            for ty in (INT, FLT, DBL):
                out.append(read_it_case(ty, (9,), (5,), isa, ity=ity, form='ctor', const=(ty is DBL)))
        for K in ((3, V + 1) if not T else (2, 3, V, V + 1, 2 * V + 1)):
            if K <= 17: out.append(read_it_case(anyty(), (12,), (K,), isa, ity=ity_for(K, 12), form='ctor', const=True))
        # ---- reads through a flat index tensor of the parent's rank (rank 2, 3) ---------------------------------
        nds = [((3, 4), (2, 2)), ((3, 5), (2, 3)), ((4, 4), (2, 9)), ((2, 3, 2), (2, 1, 3))]
        if T: nds += [((2, 8), (3, 3)), ((2, 2, 4), (1, 2, 4)), ((3, 3), (3, 3))]
        for (shape, ishape) in nds:
            K = prod(ishape); n = prod(shape)
            for form in ('ctor', 'assign', 'expr'):
                out.append(read_it_case(anyty() if form != 'expr' else rng.choice([INT, FLT]), shape, ishape, isa, ity=ity_for(K, n), form=form))
        for (shape, ishape) in (nds[:3] if T else nds[:1]):
            out.append(read_it_case(INT, shape, ishape, isa, form='view2d'))
        # ---- reads with one index tensor per axis, mixed with fseq / fixed integer / run-time integer ------------
        for shape in ([(3, 4), (4, 4)] if not T else [(2, 3), (3, 4), (4, 4), (3, 5), (2, 8)]):
            M, N = shape
            for (k0, k1) in ([(2, 2), (2, min(V + 1, 9))] if not T else [(1, 1), (2, 2), (2, 3), (3, 5), (M, N), (2, 9)]):
                kk = k0 * k1
                out.append(read_axes_case(anyty(), shape, ('it', k0, ity_for(kk, M * N)), ('it', k1, ity_for(kk, M * N)), isa, form=rng.choice(['ctor', 'assign'])))
            if T or shape == (3, 4): out.append(read_axes_case(INT, shape, ('it', 2, INT), ('it', 3, INT), isa, form='view2d'))
            colr = [r for r in all_ranges(N, 2, neg=False) if rsize(*r) >= 2]
            rowr = [r for r in all_ranges(M, 2, neg=False) if rsize(*r) >= 2]
            for _ in range(1 if not T else 3):
                out.append(read_axes_case(anyty(), shape, ('it', rng.choice([2, 3]), rng.choice(ITYS)), ('fseq', rng.choice(colr)), isa))
                out.append(read_axes_case(anyty(), shape, ('fseq', rng.choice(rowr)), ('it', rng.choice([2, 3]), rng.choice(ITYS)), isa))
            out.append(read_axes_case(anyty(), shape, ('it', 3, rng.choice(ITYS)), ('int', rng.randrange(N)), isa))
            out.append(read_axes_case(anyty(), shape, ('int', rng.randrange(M)), ('it', 5, rng.choice(ITYS)), isa))
            out.append(read_axes_case(anyty(), shape, ('it', 2, INT), ('sym',), isa))
            out.append(read_axes_case(anyty(), shape, ('sym',), ('it', 3, INT), isa))
        # ---- writes through one flat index tensor ---------------------------------------------------------------------
        for (N, K) in ([(5, 2), (6, 2), (7, 3), (10, 4)] if not T else [(3, 1), (4, 2), (5, 2), (6, 2), (5, 5), (7, 3), (9, 4), (10, 4), (12, 4), (16, 3)]):
            for op in (INT_OPS if (T or N != 6) else ['+=']):
                out.append(write_it_case(INT, (N,), (K,), op, rng.choice(['tensor', 'tensor', 'sum']), isa, ity=ity_for(K, N)))
            if T or N != 6: out.append(write_it_case(INT, (N,), (K,), rng.choice(INT_OPS), rng.choice(['lit', 'sym']), isa, ity=ity_for(K, N)))
            if N <= 7 and (T or N != 6): out.append(write_it_case(INT, (N,), (K,), rng.choice(INT_OPS), rng.choice(['itview', 'seqview']), isa))
            ty = ftype()
            # float compound operators (UF) through symbolic scatter addresses: <= 6 elements / 2 indices (7/3 and 10/4 ran
            # out of memory or time on some ISAs); plain assignment (no arithmetic) at every size
            fops = (ALL_OPS if T else sample(rng, ALL_OPS, 2)) if (N <= 6 and K <= 2) else ['=']
            for op in fops:
                out.append(write_it_case(ty, (N,), (K,), op, rng.choice(['tensor', 'lit', 'neg', 'sum']) if op != '=' else rng.choice(['tensor', 'lit', 'neg']), isa, ity=ity_for(K, N)))
            if T or N != 6: out.append(write_it_case(INT, (N,), (K,), rng.choice(INT_OPS), 'tensor', isa, macros=VEC))
            if T and N <= 6 and K <= 2: out.append(write_it_case(ftype(), (N,), (K,), rng.choice(ALL_OPS), rng.choice(['tensor', 'lit']), isa, macros=VEC))
        out.append(write_it_case(INT, (12,), (5,), '=', 'tensor', isa))
        out.append(write_it_case(FLT, (12,), (5,), '=', 'tensor', isa, macros=VEC))       # one full SSE vector + remainder in the vectorised scatter
        if isa in ('avx2', 'avx') or T: out.append(write_it_case(FLT, (16,), (9,), '=', 'tensor', isa, macros=VEC))
        for (shape, ishape) in ([((3, 4), (2, 2)), ((2, 3, 2), (1, 2, 2))] if not T else [((3, 4), (2, 2)), ((4, 4), (2, 2)), ((3, 5), (2, 2)), ((2, 3, 2), (1, 2, 2))]):
            for op in INT_OPS:
                out.append(write_it_case(INT, shape, ishape, op, rng.choice(['tensor', 'lit', 'sum']), isa, ity=rng.choice(ITYS)))
            out.append(write_it_case(ftype(), shape, ishape, '=', rng.choice(['tensor', 'lit']), isa))
            out.append(write_it_case(INT, shape, ishape, rng.choice(INT_OPS), 'tensor', isa, macros=VEC))
        out.append(write_it_case(ftype(), (2, 3), (1, 2), rng.choice(ALL_OPS[1:]), 'tensor', isa))
        # ---- writes with one index tensor per axis / mixed ------------------------------------------------------------
        for shape in ([(3, 4)] if not T else [(2, 3), (3, 4), (4, 4)]):
            M, N = shape
            for op in INT_OPS:
                out.append(write_axes_case(INT, shape, ('it', 2, rng.choice(ITYS)), ('it', 2, rng.choice(ITYS)), op, rng.choice(['tensor', 'lit']), isa))
            out.append(write_axes_case(ftype(), shape, ('it', 2, INT), ('it', 2, INT), '=', 'tensor', isa))
            if T or shape == (3, 4): out.append(write_axes_case(ftype(), (2, 3), ('it', 2, INT), ('int', rng.randrange(3)), rng.choice(ALL_OPS[1:]), 'tensor', isa))
            colr = [r for r in all_ranges(N, 2, neg=False) if rsize(*r) >= 2]
            rowr = [r for r in all_ranges(M, 2, neg=False) if rsize(*r) >= 2]
            out.append(write_axes_case(INT, shape, ('it', 2, rng.choice(ITYS)), ('fseq', rng.choice(colr)), rng.choice(INT_OPS), 'tensor', isa))
            out.append(write_axes_case(INT, shape, ('fseq', rng.choice(rowr)), ('it', 2, rng.choice(ITYS)), rng.choice(INT_OPS), 'tensor', isa))
            out.append(write_axes_case(anyty(), shape, ('it', 2, INT), ('int', rng.randrange(N)), '=', 'tensor', isa))
            out.append(write_axes_case(INT, shape, ('int', rng.randrange(M)), ('it', 3, INT), rng.choice(INT_OPS), 'lit', isa))
            out.append(write_axes_case(INT, shape, ('it', 2, INT), ('sym',), rng.choice(INT_OPS), 'tensor', isa))
            out.append(write_axes_case(INT, shape, ('sym',), ('it', 2, INT), rng.choice(INT_OPS), 'tensor', isa))
            if T: out.append(write_axes_case(INT, shape, ('it', 2, INT), ('it', 2, INT), rng.choice(INT_OPS), 'tensor', isa, macros=VEC))
        # ---- C++17 (if-constexpr branches) ---------------------------------------------------------------------------------
        out.append(read_it_case(anyty(), (10,), (V + 1 if V + 1 <= 9 else 9,), isa, form='ctor', std='c++17'))
        out.append(write_it_case(INT, (7,), (3,), rng.choice(INT_OPS), 'tensor', isa, std='c++17'))
        out.append(write_it_case(INT, (7,), (3,), rng.choice(INT_OPS), 'tensor', isa, macros=VEC, std='c++17'))
        out.append(mask_write_case(INT, (9,), rng.choice(INT_OPS), 'tensor', isa, std='c++17'))
        out.append(mask_write_case(ftype(), (2, 3), rng.choice(ALL_OPS), 'tensor', isa, std='c++17'))
        # ---- boolean masks: all 2^n masks at once --------------------------------------------------------------------------
        for shape in ([(1,), (4,), (9,), (12,), (3, 4), (2, 3, 2)] if not T else [(1,), (2,), (3,), (5,), (8,), (9,), (12,), (16,), (2, 3), (3, 4), (4, 4), (2, 3, 2), (2, 2, 2, 2)]):
            for op in INT_OPS:
                out.append(mask_write_case(INT, shape, op, rng.choice(['tensor', 'sum']), isa))
            out.append(mask_write_case(INT, shape, rng.choice(INT_OPS), rng.choice(['lit', 'sym']), isa))
            ty = ftype()
            for op in (ALL_OPS if T else sample(rng, ALL_OPS, 1 if prod(shape) in (4, 12) else 2)):
                # 16 elements with two float operations each (B + B, then op) did not finish in 300 s under UF
                out.append(mask_write_case(ty, shape, op, rng.choice(['tensor', 'lit', 'neg', 'sum'] if prod(shape) < 16 else ['tensor', 'lit']), isa))
    seen = set(); res = []
    for c in out:
        if c.cid not in seen: seen.add(c.cid); res.append(c)
    return res

def evidence_extra(tier):
    T = tier == 'thorough'
    return {'box': {
        'index_tensors': 'symbolic buffers: every in-range index vector of the given length (duplicate-free for writes) in one proof; element types int, long long, size_t (64-bit ones with <= 5 indices)',
        'reads': 'rank-1 parents of 2..16 elements, index lengths 1..5 and V-1, V, V+1, 2V+1 per ISA (<= %d); rank-2/3 parents <= 16 elements with flat index tensors of the same rank; A(it0,it1), A(it,fseq), A(fseq,it), A(it,int), A(int,it) with literal and run-time (symbolic) integers; consumers: constructor, assignment, += / -=, expression, 1-D and 2-D range views' % (33 if T else 17),
        'writes': 'A(it) op= {literal, symbolic scalar, tensor, tensor+tensor, -tensor, index view of another tensor, range view of another tensor}; parents <= %d elements, <= %d indices; A(it0,it1) and mixed forms on up to 4x4; with and without FASTOR_USE_VECTORISED_EXPR_ASSIGN' % (16, 5),
        'masks': 'symbolic Tensor<bool,...>: all 2^n masks at once, n in %s; ranks 1-%d' % ('1..16' if T else '{1,4,9,12}', 4 if T else 3),
        'operators': '= += -= on int (SYM); = += -= *= /= on float, double (UF, pipeline P0; compound operators through symbolic scatter addresses only for <= 6 elements / 2 indices)',
    },
    'not_covered': ['index-tensor views of TensorMap (no such overload), mask views with a TensorMap parent or a TensorMap<bool> mask (declared overloads return an incomplete type: do not compile)',
                    'view /= floating-point scalar (reciprocal form; scalar division belongs to C02/C05)',
                    'int *= and /= (symbolic 32-bit multiplication / division is not tractable in mode SYM)',
                    'reading *through* a mask view (the property only speaks about assignment through masks)',
                    'index tensors longer than 33 / parents larger than 16 elements']}
