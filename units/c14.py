"""C14 -- permute, permutation and transpose move every element to its permuted position.

Contracts (from the property text):
  permute<Index<p...>>(A): result extents shape[p[n]];  out(i[p[0]],...,i[p[k]]) == A(i[0],...,i[k]) for every multi-index
  permutation<Index<p...>>(A): the axis permutation by p or by its inverse -- the same one for extents and elements
  transpose / trans: rank-2 case
  permute<p^-1>(permute<p>(A)) == A bit for bit, for tensor and for unevaluated-expression arguments.
Mode SYM (pure data movement): every element value symbolic, all obligations for all 2^(32n) / 2^(64n) inputs.
"""
from units.common import *

LEVEL_NOTE = ('per instantiation (shape, permutation, type, ISA, C++ standard) the contract is proved for all element values; '
              'the set of instantiations is enumerated (box in coverage.box)')

def perm_shape(shape, p):
    return tuple(shape[p[n]] for n in range(len(p)))

def permute_ensures(a, out, shape, p):
    oshape = perm_shape(shape, p)
    ens = []
    for i in indices(shape):
        j = tuple(i[p[n]] for n in range(len(p)))
        ens.append((out, flat(oshape, j), E.inp(a, flat(shape, i))))
    ens.sort(key=lambda t: t[1])
    return oshape, ens

IDX = ['I_', 'J_', 'K_', 'L_', 'M_', 'N_']
def index_list(p):
    return 'Index<%s>' % ','.join(IDX[x] for x in p)

def inverse(p):
    q = [0] * len(p)
    for n, x in enumerate(p): q[x] = n
    return tuple(q)

def transpose_case(ty, M, N, cfg, kind):
    a = Buf('a', ty, M * N, 'in'); b = Buf('b', ty, M * N, 'out')
    if kind == 'map':
        body = '    %s %s\n    B = transpose(A);' % (tmap(ty, (M, N), 'a'), tmap(ty, (N, M), 'b', const=False))
    elif kind == 'own':
        body = '    %s\n    Tensor<%s,%d,%d> B = transpose(A);\n    %s' % (town(ty, (M, N), 'a'), ty.cpp, N, M, copy_out('B', 'b', M * N))
    elif kind == 'trans':
        body = '    %s\n    Tensor<%s,%d,%d> B = trans(A);\n    %s' % (town(ty, (M, N), 'a'), ty.cpp, N, M, copy_out('B', 'b', M * N))
    elif kind == 'trans_expr':   # lazy transpose of an unevaluated expression
        body = '    %s\n    Tensor<%s,%d,%d> B = trans(A + A);\n    %s' % (town(ty, (M, N), 'a'), ty.cpp, N, M, copy_out('B', 'b', M * N))
    ens = []
    for i in range(M):
        for j in range(N):
            x = E.inp(a, i * N + j)
            ens.append((b, j * M + i, x + x if kind == 'trans_expr' else x))
    ens.sort(key=lambda t: t[1])
    mode = 'UF' if (kind == 'trans_expr' and ty.kind == 'float') else 'SYM'
    if mode == 'UF': cfg = Cfg(cfg.isa, cfg.std, cfg.macros, pipe='P0')      # uninterpreted arithmetic needs the pipeline without instcombine
    return Case('C14/%s/%s/%dx%d/%s' % ('transpose-' + kind, ty.name, M, N, cfg.tag()), 'C14', body, [a, b], ens, mode, cfg)

def permute_case(ty, shape, p, cfg, kind='permute'):
    n = prod(shape)
    a = Buf('a', ty, n, 'in'); b = Buf('b', ty, n, 'out')
    oshape, ens = permute_ensures(a, b, shape, p)
    if kind == 'permute':
        body = '    %s\n    Tensor<%s,%s> B = permute<%s>(A);\n    %s' % (tmap(ty, shape, 'a'), ty.cpp, dims(oshape), index_list(p), copy_out('B', 'b', n))
    elif kind == 'permute-own':
        body = '    %s\n    Tensor<%s,%s> B = permute<%s>(A);\n    %s' % (town(ty, shape, 'a'), ty.cpp, dims(oshape), index_list(p), copy_out('B', 'b', n))
    elif kind == 'roundtrip':
        body = '    %s\n    Tensor<%s,%s> B = permute<%s>(permute<%s>(A));\n    %s' % (town(ty, shape, 'a'), ty.cpp, dims(shape), index_list(inverse(p)), index_list(p), copy_out('B', 'b', n))
        ens = [(b, k, E.inp(a, k)) for k in range(n)]
    elif kind == 'roundtrip-expr':
        # unevaluated expression argument: permute<p^-1>(permute<p>(-A)) == A+A (integer addition: SYM)
        body = '    %s\n    Tensor<%s,%s> B = permute<%s>(permute<%s>(A + A));\n    %s' % (town(ty, shape, 'a'), ty.cpp, dims(shape), index_list(inverse(p)), index_list(p), copy_out('B', 'b', n))
        ens = [(b, k, E.inp(a, k) + E.inp(a, k)) for k in range(n)]
    return Case('C14/%s/%s/%s/p%s/%s' % (kind, ty.name, 'x'.join(map(str, shape)), ''.join(map(str, p)), cfg.tag()), 'C14', body, [a, b], ens, 'SYM', cfg)

def permutation_case(ty, shape, p, cfg, expr=False):
    """legacy permutation<>: by p or by p^-1, consistently for extents and elements.
    expr=True: the argument is the unevaluated expression A+A (int) -- the element read must then be a[i]+a[i]."""
    n = prod(shape); r = len(shape)
    a = Buf('a', ty, n, 'in'); b = Buf('b', ty, n, 'out'); d = Buf('d', U64, r, 'out')
    body = ('    %s\n    auto B = permutation<%s>(ARG_);\n    static_assert(sizeof(B) >= sizeof(%s) * %d, "result size");\n    %s\n'
            '    for (int i_ = 0; i_ < %d; ++i_) d[i_] = B.dimension(i_);'
            % (town(ty, shape, 'a'), index_list(p), ty.cpp, n, copy_out('B', 'b', n), r))
    body = body.replace('ARG_', 'A + A' if expr else 'A')
    q = inverse(p)
    s1, e1 = permute_ensures(a, b, shape, p)
    s2, e2 = permute_ensures(a, b, shape, q)
    if expr:
        e1 = [(bb, k, x + x) for (bb, k, x) in e1]; e2 = [(bb, k, x + x) for (bb, k, x) in e2]
    def dims_are(s):
        c = None
        for k in range(r):
            t = E.post(d, k).cmp('eq', E.const(s[k], U64))
            c = t if c is None else c.band(t)
        return c
    ens = []
    for (b1, k1, x1), (b2, k2, x2) in zip(e1, e2):
        assert k1 == k2
        c = (dims_are(s1).band(E.post(b, k1).same(x1))).bor(dims_are(s2).band(E.post(b, k1).same(x2)))
        ens.append(('bool', 'b[%d] by p or by p^-1 consistently with the extents' % k1, c))
    fam = ('permutation-expr' if expr else 'permutation') + ('' if q == tuple(p) else '-noninvolution')
    return Case('C14/%s/%s/%s/p%s/%s' % (fam, ty.name, 'x'.join(map(str, shape)), ''.join(map(str, p)), cfg.tag()), 'C14', body, [a, b, d], ens, 'SYM', cfg)

def ctrans_case(M, N, cfg, kind, base=DBL):
    """conjugate transpose on std::complex<base>: buffers are interleaved (re,im) pairs of the base type."""
    n = M * N; C = 'std::complex<%s>' % base.cpp
    a = Buf('a', base, 2 * n, 'in')
    ld = lambda nm, sh, src: 'Tensor<%s,%s> %s(reinterpret_cast<const %s*>(%s));' % (C, dims(sh), nm, C, src)
    out = lambda var, buf: 'for (int i_ = 0; i_ < %d; ++i_) %s[i_] = reinterpret_cast<const %s*>(%s.data())[i_];' % (2 * n, buf, base.cpp, var)
    re = lambda buf, i, j, cols: E.inp(buf, 2 * (i * cols + j)); im = lambda buf, i, j, cols: E.inp(buf, 2 * (i * cols + j) + 1)
    ens = []
    if kind in ('ctranspose', 'ctrans-assign'):
        b = Buf('b', base, 2 * n, 'out'); bufs = [a, b]; mode = 'SYM'
        call = 'ctranspose(A)' if kind == 'ctranspose' else 'ctrans(A)'
        body = '    %s\n    Tensor<%s,%d,%d> B = %s;\n    %s' % (ld('A', (M, N), 'a'), C, N, M, call, out('B', 'b'))
        for i in range(M):
            for j in range(N):
                ens.append((b, 2 * (j * M + i), re(a, i, j, N))); ens.append((b, 2 * (j * M + i) + 1, -im(a, i, j, N)))
    else:
        # X += ctrans(A)  /  B = X + ctrans(A): element (j,i) gets x + conj(a(i,j)); either fadd(x,-a) or fsub(x,a) is the same IEEE value
        # X -= ctrans(A)  /  B = X - ctrans(A): element (j,i) gets x - conj(a(i,j)) = (x.re - a.re, x.im + a.im)
        inplace = kind in ('ctrans-addassign', 'ctrans-subassign'); minus = kind in ('ctrans-subassign', 'ctrans-sub')
        x = Buf('x', base, 2 * n, 'inout' if inplace else 'in'); mode = 'UF'
        if inplace:
            body = '    %s %s\n    X %s= ctrans(A);\n    %s' % (ld('A', (M, N), 'a'), ld('X', (N, M), 'x'), '-' if minus else '+', out('X', 'x')); o = x; bufs = [a, x]
        else:
            o = Buf('b', base, 2 * n, 'out'); bufs = [a, x, o]
            body = '    %s %s\n    Tensor<%s,%d,%d> B = X %s ctrans(A);\n    %s' % (ld('A', (M, N), 'a'), ld('X', (N, M), 'x'), C, N, M, '-' if minus else '+', out('B', 'b'))
        for i in range(M):
            for j in range(N):
                k = 2 * (j * M + i)
                xi = E.inp(x, k + 1); ai = im(a, i, j, N)
                if not minus:
                    ens.append((o, k, E.inp(x, k) + re(a, i, j, N)))
                    ens.append(('bool', '%s[%d] == x.im + (-a.im)' % (o.name, k + 1), E.post(o, k + 1).same(xi + (-ai)).bor(E.post(o, k + 1).same(xi - ai))))
                else:
                    ens.append((o, k, E.inp(x, k) - re(a, i, j, N)))
                    ens.append(('bool', '%s[%d] == x.im - (-a.im)' % (o.name, k + 1), E.post(o, k + 1).same(xi - (-ai)).bor(E.post(o, k + 1).same(xi + ai))))
    ens.sort(key=lambda t: t[1] if t[0] != 'bool' else 10 ** 6)
    c = Case('C14/%s/c%s/%dx%d/%s' % (kind, base.name, M, N, cfg.tag()), 'C14', body, bufs, ens, mode, cfg)
    if mode == 'UF': c.solver = 'cadical'    # MiniSat was seen to hang on small UF instances
    return c

SHAPES = {2: [(3, 5), (2, 9)], 3: [(2, 3, 5), (3, 2, 9)], 4: [(2, 3, 4, 5), (3, 2, 2, 9)], 5: [(2, 3, 2, 3, 5)], 6: [(2, 2, 3, 2, 2, 3)]}

def trans_macro_cases(tier):
    """transpose under the tuning macros FASTOR_TRANS_{OUTER,INNER}_BLOCK_SIZE (AVX blocked kernel only): shapes with at
    least one full block of the configured size plus a remainder row/column, and two blocks in the blocked direction."""
    out = []
    for isa in (['avx2'] if tier != 'thorough' else ['avx', 'avx2', 'avx512']):
        for ty in ((DBL,) if tier != 'thorough' else (DBL, FLT, INT)):
            V = vec_elems(isa, ty)
            for k in (1, 2, 3, 4):
                if k * V > 16: continue
                for (mac, shapes) in (('FASTOR_TRANS_OUTER_BLOCK_SIZE=%d' % k, [(V + 1, k * V + 1), (V, 2 * k * V)]),
                                      ('FASTOR_TRANS_INNER_BLOCK_SIZE=%d' % k, [(k * V + 1, V + 1), (2 * k * V, V)])):
                    for (M, N) in shapes:
                        if M * N > 200: continue
                        out.append(transpose_case(ty, M, N, Cfg(isa, 'c++14', macros=(mac,)), 'own'))
            if tier == 'thorough' and 2 * V <= 8:
                out.append(transpose_case(ty, 2 * V + 1, 2 * V + 1, Cfg(isa, 'c++14', macros=('FASTOR_TRANS_OUTER_BLOCK_SIZE=2', 'FASTOR_TRANS_INNER_BLOCK_SIZE=1')), 'own'))
    return out

def cases(tier, seed):
    rng = random.Random(seed)
    out = []
    thorough = tier == 'thorough'
    for isa in isas(tier):
        for std in (['c++14', 'c++17'] if thorough else ['c++14']):
            cfg = Cfg(isa, std)
            # transpose: every M,N <= bound, three element types
            B = 9 if not thorough else 12
            for ty in (FLT, DBL, INT):
                V = vec_elems(isa, ty)
                pairs = [(M, N) for M in range(1, B + 1) for N in range(1, B + 1)]
                if not thorough:
                    # quick: all pairs up to 5, plus every pair that touches a register-block boundary
                    keep = [(M, N) for (M, N) in pairs if (M <= 4 and N <= 4) or (M in (V - 1, V, V + 1, 2 * V + 1) and N in (1, 3, V, V + 1)) or (N in (V - 1, V, V + 1, 2 * V + 1) and M in (1, 3, V, V + 1))]
                    keep = [(M, N) for (M, N) in keep if M <= 17 and N <= 17]
                    pairs = sorted(set(keep + sample(rng, pairs, 6)))
                else:
                    pairs += [(M, N) for M in (V, V + 1, 2 * V, 2 * V + 1) for N in (V, V + 1, 2 * V, 2 * V + 1) if M <= 17 and N <= 17]
                    pairs = sorted(set(pairs))
                for (M, N) in pairs:
                    out.append(transpose_case(ty, M, N, cfg, 'own'))
                for (M, N) in sample(rng, pairs, 8 if not thorough else 40):
                    out.append(transpose_case(ty, M, N, cfg, 'map'))
                for (M, N) in sample(rng, pairs, 4 if not thorough else 20):
                    out.append(transpose_case(ty, M, N, cfg, 'trans'))
                if ty is not DBL:
                    for (M, N) in sample(rng, pairs, 2 if not thorough else 10):
                        out.append(transpose_case(ty, M, N, cfg, 'trans_expr'))
        # conjugate transpose on complex tensors (eager, lazy assignment: SYM; lazy in + / +=: UF on pipeline P0)
        for base in (DBL, FLT):
            for (M, N) in ([(2, 3), (3, 3)] if not thorough else [(2, 3), (3, 3), (4, 4), (1, 5), (5, 2)]):
                out.append(ctrans_case(M, N, Cfg(isa), 'ctranspose', base))
                out.append(ctrans_case(M, N, Cfg(isa), 'ctrans-assign', base))
                out.append(ctrans_case(M, N, Cfg(isa, pipe='P0'), 'ctrans-addassign', base))
                out.append(ctrans_case(M, N, Cfg(isa, pipe='P0'), 'ctrans-add', base))
                out.append(ctrans_case(M, N, Cfg(isa, pipe='P0'), 'ctrans-subassign', base))
                out.append(ctrans_case(M, N, Cfg(isa, pipe='P0'), 'ctrans-sub', base))
        # permute: both language standards see different index maps
        for std in ('c++14', 'c++17'):
            cfg = Cfg(isa, std)
            for r in ((2, 3, 4) if not thorough else (2, 3, 4, 5)):
                perms = list(itertools.permutations(range(r)))
                for shape in (SHAPES[r][:1] if not thorough else SHAPES[r]):
                    ps = perms if (r <= 3 or thorough and r <= 4) else sample(rng, perms, 8 if not thorough else 30)
                    for p in ps:
                        ty = rng.choice([FLT, DBL, INT]) if not thorough else None
                        for t in ([ty] if ty else [FLT, DBL, INT]):
                            out.append(permute_case(t, shape, p, cfg, 'permute'))
                    for p in sample(rng, perms, 2 if not thorough else 6):
                        out.append(permute_case(rng.choice([FLT, INT]), shape, p, cfg, 'permute-own'))
                        out.append(permute_case(rng.choice([FLT, DBL, INT]), shape, p, cfg, 'roundtrip'))
                        out.append(permute_case(INT, shape, p, cfg, 'roundtrip-expr'))
                    for p in sample(rng, perms, 3 if not thorough else 8):
                        out.append(permutation_case(rng.choice([FLT, INT]), shape, p, cfg))
                    for p in sample(rng, [q_ for q_ in perms if inverse(q_) == tuple(q_) and q_ != tuple(range(r))], 2 if not thorough else 6):
                        out.append(permutation_case(INT, shape, p, cfg, expr=True))
                    for p in sample(rng, [q_ for q_ in perms if inverse(q_) != tuple(q_)], 1 if not thorough else 3):
                        out.append(permutation_case(INT, shape, p, cfg, expr=True))
            if thorough:
                perms = list(itertools.permutations(range(6)))
                for p in sample(rng, perms, 6):
                    out.append(permute_case(INT, SHAPES[6][0], p, cfg, 'permute'))
    out += trans_macro_cases(tier)
    # de-duplicate ids (sampling may repeat)
    seen = set(); res = []
    for c in out:
        if c.cid not in seen: seen.add(c.cid); res.append(c)
    return res
