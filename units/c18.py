"""C18 -- overlapping slice assignment with noalias() acts on a snapshot of the source.

Contract (from the property text): for one tensor A (in/out) and two views of it with equal extents,
    A(r1).noalias() op= f(A(r2), ...)
leaves   A_after[dst_k] == old(A)[dst_k] op f(old(A)[src_k], ...)   for every k (dst_k / src_k = k-th position of
the destination / source view in view order) and every other element of A unchanged: the whole right-hand side is
evaluated on the original contents, then the destination is updated.  Without noalias() the same holds when source
and destination coincide exactly:  A(r) op= g(A(r)).
Repeated application on one view object: marking again before every assignment gives the snapshot semantics
every time; after the flag has been consumed, an assignment whose source does not overlap the destination (or
coincides with it) is the plain one.

Mode SYM for int with = += -= (pure data movement + adders, all element values symbolic); mode UF on pipeline P0 for
float/double with all five operators (the clause applies the same scalar operation to the same two old elements).
Ranges (dynamic seq: run-time values, therefore *enumerated*; fseq: template arguments) are enumerated; index
tensors and masks are *symbolic* input buffers (all in-range duplicate-free destination index vectors, all source
index vectors, all 2^n masks in one proof).
"""
from units.common import *

LEVEL_NOTE = ('per instantiation (parent shape, pair of ranges, view kind, operator, right-hand-side form, element type, ISA, '
              'std, macro) the snapshot contract + frame + memory safety is proved for all element values (and for all '
              'in-range index vectors / all masks where those are symbolic buffers); ranges, shapes and configurations '
              'are enumerated (dynamic seq arguments are run-time values: enumerated, not proved for all ranges)')

OPS = {'=': 'set', '+=': 'add', '-=': 'sub', '*=': 'mul', '/=': 'div'}
INT_OPS = ['=', '+=', '-=']
ALL_OPS = ['=', '+=', '-=', '*=', '/=']

# ----------------------------------------------------------------------------------------------
# ranges:  (first, last, step) as the user writes them;  positions as the documentation defines them
# ----------------------------------------------------------------------------------------------
def rsize(f, l, s):
    r = l - f
    q = abs(r) // abs(s)            # r and s have the same sign for every range generated here
    return q if r % s == 0 else q + 1

def rpos(r):
    f, l, s = r
    return [f + k * s for k in range(rsize(f, l, s))]

def all_ranges(N, max_step=3, neg=True):
    """every (first,last,step) with >= 1 position, all positions inside [0,N); `last` both as 'final element + 1'
    and as 'first + n*step' (the two ways of writing the same strided range); reversed order via negative step where
    `last` stays >= 0 (a negative `last` means 'counted from the end')."""
    out = []
    for s in range(1, max_step + 1):
        for f in range(N):
            for n in range(1, N + 1):
                e = f + (n - 1) * s
                if e >= N: break
                out.append((f, e + 1, s))
                if f + n * s <= N: out.append((f, f + n * s, s))
                if neg:
                    if f - 1 >= 0: out.append((e, f - 1, -s))
                    if e - n * s >= 0: out.append((e, e - n * s, -s))
    return sorted(set(out))

def seq_txt(r):
    f, l, s = r
    return 'seq(%d,%d)' % (f, l) if s == 1 else 'seq(%d,%d,%d)' % (f, l, s)

def fseq_txt(r):
    f, l, s = r
    return 'fseq<%d,%d>()' % (f, l) if s == 1 else 'fseq<%d,%d,%d>()' % (f, l, s)

def rtag(r):
    return '%d:%d:%d' % tuple(r)

def overlap_kind(D, S):
    d, s = set(D), set(S)
    if list(D) == list(S): return 'same'
    if d == s: return 'perm'
    if not (d & s): return 'disjoint'
    return 'partial'

def classify_pair(d, s):
    tags = [overlap_kind(rpos(d), rpos(s))]
    if d[2] < 0 or s[2] < 0: tags.append('rev')
    if abs(d[2]) != abs(s[2]): tags.append('mixstride')
    elif abs(d[2]) > 1: tags.append('strided')
    return tuple(tags)

_PAIR_CACHE = {}
def pairs_1d(N, max_step=3, neg=True):
    key = (N, max_step, neg)
    if key not in _PAIR_CACHE:
        by = {}
        for r in all_ranges(N, max_step, neg): by.setdefault(rsize(*r), []).append(r)
        _PAIR_CACHE[key] = [(d, s) for n, lst in sorted(by.items()) for d in lst for s in lst]
    return _PAIR_CACHE[key]

def pick_pairs(rng, N, count, max_step=3, neg=True, want=None):
    """stratified sample over (overlap class) x (forward / reversed / strided / mixed strides); larger views preferred;
    disjoint pairs (no aliasing at all) thinned out."""
    strata = {}
    for (d, s) in pairs_1d(N, max_step, neg):
        t = classify_pair(d, s)
        if want and not want(t): continue
        if t[0] == 'disjoint' and (hash((d, s)) % 5): continue
        strata.setdefault(t, []).append((d, s))
    keys = sorted(strata)
    out = []
    i = 0
    while len(out) < count and any(strata.values()):
        k = keys[i % len(keys)]; i += 1
        lst = strata[k]
        if lst:
            w = [rsize(*d) ** 2 for (d, s) in lst]
            j = rng.choices(range(len(lst)), weights=w)[0]
            out.append(lst.pop(j))
    return out

def pick_pairs_nd(rng, shape, count, max_step=2, neg=True):
    """per-axis pairs; at least one axis with overlapping, non-identical ranges."""
    out = []; seen = set()
    guard = 0
    while len(out) < count and guard < 50 * count:
        guard += 1
        dst = []; src = []
        for N in shape:
            ps = pairs_1d(N, max_step, neg)
            w = [rsize(*d) ** 2 * (1 if overlap_kind(rpos(d), rpos(s)) != 'disjoint' else 0.15) for (d, s) in ps]
            d, s = ps[rng.choices(range(len(ps)), weights=w)[0]]
            dst.append(d); src.append(s)
        kinds = [overlap_kind(rpos(d), rpos(s)) for d, s in zip(dst, src)]
        if all(k == 'same' for k in kinds) and rng.random() < 0.8: continue
        if prod(rsize(*d) for d in dst) < 2: continue
        key = (tuple(dst), tuple(src))
        if key in seen: continue
        seen.add(key); out.append((dst, src))
    return out

# ----------------------------------------------------------------------------------------------
# element-wise specification
# ----------------------------------------------------------------------------------------------
def apply_op(op, old, rhs):
    if op == '=': return rhs
    if op == '+=': return old + rhs
    if op == '-=': return old - rhs
    if op == '*=': return old * rhs
    if op == '/=': return old / rhs
    raise ValueError(op)

# right-hand-side forms: name -> (C++ text from the source view text(s), spec from the source element(s), n_sources)
RHS = {
    'v':     (lambda v: '%s' % v[0],               lambda x: x[0],            1),
    'neg':   (lambda v: '-%s' % v[0],              lambda x: -x[0],           1),
    'sum2':  (lambda v: '%s + %s' % (v[0], v[1]),  lambda x: x[0] + x[1],     2),
    'diff2': (lambda v: '%s - %s' % (v[0], v[1]),  lambda x: x[0] - x[1],     2),
    'v+v':   (lambda v: '%s + %s' % (v[0], v[0]),  lambda x: x[0] + x[0],     1),
}

def calm_op(ty, op, rhs):
    """int:  a -= v + v  is compiled to  a + v * -2 ; the 32-bit multiplication by a negative constant against the adder
    form of the clause is a hard SAT instance (measured: one element, > 300 s) although nothing is wrong: use += there."""
    if ty.kind == 'int' and op == '-=' and rhs == 'v+v': return '+='
    return op

def mode_cfg(ty, isa, std='c++14', macros=()):
    if ty.kind == 'float': return 'UF', Cfg(isa, std, macros=macros, pipe='P0')
    return 'SYM', Cfg(isa, std, macros=macros)

def parent_decl(ty, shape, kind):
    """'own': owning tensor copied in/out (1D / 2D specialised view classes for rank 1 / 2); 'map': TensorMap on the
    caller buffer (generic n-dimensional view implementation for every rank; writes go straight to the buffer)."""
    if kind == 'own': return town(ty, shape, 'a'), copy_out('A', 'a', prod(shape))
    return tmap(ty, shape, 'a', const=False), ''

def positions(shape, rs):
    return [flat(shape, idx) for idx in itertools.product(*[rpos(r) for r in rs])]

def shp(shape): return 'x'.join(map(str, shape))

def view_case(fam, ty, shape, dst, srcs, op, rhs, isa, viewtxt, parent='own', std='c++14', macros=(), noalias=True, srctxt=None):
    """A(dst).noalias() op= rhs(A(src0), A(src1)); dst / srcs[i]: per-axis list of ranges."""
    n = prod(shape)
    op = calm_op(ty, op, rhs)
    a = Buf('a', ty, n, 'inout')
    mode, cfg = mode_cfg(ty, isa, std, macros)
    D = positions(shape, dst); Ss = [positions(shape, s) for s in srcs]
    assert all(len(S) == len(D) for S in Ss) and len(set(D)) == len(D) and min(D) >= 0 and max(D) < n
    srctxt = srctxt or viewtxt
    def vt(rs, f): return 'A(%s)' % ','.join(f(r) for r in rs)
    txt, spec, ns = RHS[rhs]
    assert ns == len(srcs)
    decl, out = parent_decl(ty, shape, parent)
    stmt = '%s%s %s %s;' % (vt(dst, viewtxt), '.noalias()' if noalias else '', op, txt([vt(s, srctxt) for s in srcs]))
    body = '    %s\n    %s\n    %s' % (decl, stmt, out)
    new = {}
    for k, d in enumerate(D):
        new[d] = apply_op(op, E.inp(a, d), spec([E.inp(a, S[k]) for S in Ss]))
    ens = [(a, p, new.get(p, E.inp(a, p))) for p in range(n)]
    cid = 'C18/%s/%s/%s/%s/d%s/%s/%s/%s/%s' % (fam, ty.name, shp(shape), OPS[op], ','.join(rtag(r) for r in dst),
                                                '+'.join('s' + ','.join(rtag(r) for r in s) for s in srcs), rhs, parent, cfg.tag())
    return Case(cid, 'C18', body, [a], ens, mode, cfg)

def flat_src_case(ty, shape, dst, lo, op, isa, how='flatten', noalias=True):
    """A(dst rows, dst cols).noalias() op= flatten(A)(seq(lo, lo+count)): the source is a 1-D slice of a map onto the
    same storage (different rank than the destination view); snapshot semantics required all the same."""
    n = prod(shape)
    a = Buf('a', ty, n, 'inout')
    mode, cfg = mode_cfg(ty, isa)
    D = positions(shape, dst); cnt = len(D)
    assert lo >= 0 and lo + cnt <= n
    src = 'flatten(A)(seq(%d,%d))' % (lo, lo + cnt) if how == 'flatten' else 'reshape<%d>(A)(seq(%d,%d))' % (n, lo, lo + cnt)
    decl, out = parent_decl(ty, shape, 'own')
    stmt = 'A(%s)%s %s %s;' % (','.join(seq_txt(r) for r in dst), '.noalias()' if noalias else '', op, src)
    body = '    %s\n    %s\n    %s' % (decl, stmt, out)
    new = {d: apply_op(op, E.inp(a, d), E.inp(a, lo + k)) for k, d in enumerate(D)}
    ens = [(a, p, new.get(p, E.inp(a, p))) for p in range(n)]
    cid = 'C18/seq2d-from-flat/%s/%s/%s/d%s/%s%d/%s' % (ty.name, shp(shape), OPS[op], ','.join(rtag(r) for r in dst), how, lo, cfg.tag())
    return Case(cid, 'C18', body, [a], ens, mode, cfg)

def bool_view_case(N, d, s, rhs, isa):
    """Tensor<bool,N>: b(d).noalias() = !b(s)  /  = (b(s) == c(s)): boolean right-hand sides take their own early-out path
    in the view assignment; the snapshot requirement is the same."""
    a = Buf('a', BOOL, N, 'in'); c = Buf('c', BOOL, N, 'in'); o = Buf('o', BOOL, N, 'out')
    cfg = Cfg(isa)
    D = rpos(d); S = rpos(s)
    assert len(D) == len(S)
    src = 'B(%s)' % seq_txt(s)
    txt = {'not': '!%s' % src, 'eq': '(%s == C(%s))' % (src, seq_txt(s))}[rhs]
    body = ('    Tensor<bool,%d> B(a); Tensor<bool,%d> C(c);\n    B(%s).noalias() = %s;\n    %s'
            % (N, N, seq_txt(d), txt, copy_out('B', 'o', N)))
    new = {}
    for k, p in enumerate(D):
        x = E.inp(a, S[k])
        new[p] = x.bnot() if rhs == 'not' else x.same(E.inp(c, S[k]))
    ens = [(o, p, new.get(p, E.inp(a, p))) for p in range(N)]
    return Case('C18/bool-seq1d/bool/%d/set/d%s/s%s/%s/%s' % (N, rtag(d), rtag(s), rhs, cfg.tag()), 'C18', body, [a, c, o], ens, 'SYM', cfg,
                requires=is_bool(a, N) + is_bool(c, N))

def twice_case(ty, N, d, s, op1, op2, kind, isa, viewtxt=seq_txt):
    """one view object used for two assignments.
    kind 'remark'  : v.noalias() op1= A(s); v.noalias() op2= A(s);      snapshot semantics both times
    kind 'consumed': v.noalias() op1= A(s); v op2= A(d);                second use: flag consumed, source coincides
    kind 'other'   : v.noalias() op1= A(s); v op2= B;                   second use: unrelated source tensor"""
    a = Buf('a', ty, N, 'inout'); bufs = [a]
    mode, cfg = mode_cfg(ty, isa)
    D = rpos(d); S = rpos(s); n = len(D)
    st1 = {p: E.inp(a, p) for p in range(N)}
    mid = dict(st1)
    for k in range(n): mid[D[k]] = apply_op(op1, st1[D[k]], st1[S[k]])
    fin = dict(mid)
    body = '    %s\n    auto v = A(%s);\n    v.noalias() %s A(%s);\n' % (town(ty, (N,), 'a'), viewtxt(d), op1, viewtxt(s))
    if kind == 'remark':
        body += '    v.noalias() %s A(%s);\n' % (op2, viewtxt(s))
        for k in range(n): fin[D[k]] = apply_op(op2, mid[D[k]], mid[S[k]])
    elif kind == 'consumed':
        body += '    v %s A(%s);\n' % (op2, viewtxt(d))
        for k in range(n): fin[D[k]] = apply_op(op2, mid[D[k]], mid[D[k]])
    else:
        b = Buf('b', ty, n, 'in'); bufs.append(b)
        body += '    Tensor<%s,%d> B(b);\n    v %s B;\n' % (ty.cpp, n, op2)
        for k in range(n): fin[D[k]] = apply_op(op2, mid[D[k]], E.inp(b, k))
    body += '    ' + copy_out('A', 'a', N)
    ens = [(a, p, fin[p]) for p in range(N)]
    vk = 'seq' if viewtxt is seq_txt else 'fseq'
    cid = 'C18/twice-%s-%s/%s/%d/%s-%s/d%s/s%s/%s' % (kind, vk, ty.name, N, OPS[op1], OPS[op2], rtag(d), rtag(s), cfg.tag())
    return Case(cid, 'C18', body, bufs, ens, mode, cfg)

# ----------------------------------------------------------------------------------------------
# index-tensor and mask views (symbolic index / mask buffers)
# ----------------------------------------------------------------------------------------------
def in_range(buf, K, n):
    out = []
    for k in range(K):
        x = E.inp(buf, k)
        c = x.cmp('lt', n)
        if buf.ty.signed: c = x.cmp('ge', 0).band(c)
        out.append(c)
    return out

def dup_free(buf, K):
    return [E.inp(buf, i).cmp('ne', E.inp(buf, j)) for i in range(K) for j in range(i + 1, K)]

def is_bool(buf, K):
    return [E.inp(buf, k).cmp('le', 1) for k in range(K)]

def replay_perm(name, K, N, ty):
    """native replay: fill index buffer with the first K entries of a random permutation of 0..N-1 (duplicate-free)."""
    return ('    { int pm_[%d]; for (int k = 0; k < %d; k++) pm_[k] = k; for (int k = %d - 1; k > 0; k--) { int j = (int)(rng() %% (k + 1)); int t_ = pm_[k]; pm_[k] = pm_[j]; pm_[j] = t_; }'
            ' for (int k = 0; k < %d; k++) %s[k] = (%s)pm_[k]; }' % (N, N, N, K, name, ty.cpp))

def replay_any(name, K, N, ty):
    return '    for (int k = 0; k < %d; k++) %s[k] = (%s)(rng() %% %d);' % (K, name, ty.cpp, N)

def scatter_ens(a, n, P, K, val):
    """position q changes iff some index equals q (indices duplicate-free): clause per position as a sel chain."""
    ens = []
    for q in range(n):
        e = E.inp(a, q)
        for k in reversed(range(K)):
            e = E.sel(E.inp(P, k).cmp('eq', q), val(k, q), e)
        ens.append((a, q, e))
    return ens

def it_decl(name, ity, ishape):
    return 'Tensor<%s,%s> %s(%s);' % (ity.cpp, dims(ishape), name.upper(), name)

def itview_case(ty, shape, ishape, op, rhs, isa, ity=INT, srckind='it', noalias=True, src_range=None):
    """A(P).noalias() op= f(A(Q))   P: symbolic duplicate-free index tensor (flat indices), Q: symbolic index tensor
    (repeats allowed) or a seq range of the same length (rank 1)."""
    n = prod(shape); K = prod(ishape)
    op = calm_op(ty, op, rhs)
    a = Buf('a', ty, n, 'inout'); p = Buf('p', ity, K, 'in')
    bufs = [a, p]; req = in_range(p, K, n) + dup_free(p, K)
    replay = replay_perm('p', K, n, ity)
    mode, cfg = mode_cfg(ty, isa)
    txt, spec, ns = RHS[rhs]
    assert ns == 1
    if srckind == 'it':
        q = Buf('q', ity, K, 'in'); bufs.append(q); req += in_range(q, K, n)
        replay += '\n' + replay_any('q', K, n, ity)
        srcdecl = it_decl('q', ity, ishape); srcv = 'A(Q)'
        src_el = lambda k: E.inp(a, E.inp(q, k))
        stag = 'q'
    elif srckind == 'self':            # coinciding source and destination (no noalias needed)
        srcdecl = ''; srcv = 'A(P)'
        src_el = lambda k: E.inp(a, E.inp(p, k))
        stag = 'self'
    else:                               # seq source, rank 1
        S = rpos(src_range); assert len(S) == K and len(shape) == 1
        srcdecl = ''; srcv = 'A(%s)' % seq_txt(src_range)
        src_el = lambda k: E.inp(a, S[k])
        stag = 's' + rtag(src_range)
    body = '    %s %s %s\n    A(P)%s %s %s;\n    %s' % (town(ty, shape, 'a'), it_decl('p', ity, ishape), srcdecl,
                                                        '.noalias()' if noalias else '', op, txt([srcv]), copy_out('A', 'a', n))
    ens = scatter_ens(a, n, p, K, lambda k, pos: apply_op(op, E.inp(a, pos), spec([src_el(k)])))
    cid = 'C18/itview%s/%s/%s/i%s-%s/%s/%s/%s/%s' % ('' if noalias else '-coincide', ty.name, shp(shape), shp(ishape), ity.name, OPS[op], stag, rhs, cfg.tag())
    return Case(cid, 'C18', body, bufs, ens, mode, cfg, requires=req, replay_values=replay)

def seq_from_it_case(ty, N, d, op, isa, ity=INT, fixed=False):
    """A(seq).noalias() op= A(Q)   destination a range, source an index-tensor view of the same tensor."""
    D = rpos(d); K = len(D)
    a = Buf('a', ty, N, 'inout'); q = Buf('q', ity, K, 'in')
    mode, cfg = mode_cfg(ty, isa)
    body = '    %s %s\n    A(%s).noalias() %s A(Q);\n    %s' % (town(ty, (N,), 'a'), it_decl('q', ity, (K,)), (fseq_txt if fixed else seq_txt)(d), op, copy_out('A', 'a', N))
    new = {D[k]: apply_op(op, E.inp(a, D[k]), E.inp(a, E.inp(q, k))) for k in range(K)}
    ens = [(a, pos, new.get(pos, E.inp(a, pos))) for pos in range(N)]
    cid = 'C18/%s-from-it/%s/%d/%s/d%s/i%d-%s/%s' % ('fseq' if fixed else 'seq', ty.name, N, OPS[op], rtag(d), K, ity.name, cfg.tag())
    return Case(cid, 'C18', body, [a, q], ens, mode, cfg, requires=in_range(q, K, N), replay_values=replay_any('q', K, N, ity))

def whole_from_it_case(ty, shape, op, isa, spelling):
    """destination = the whole tensor spelled as a view: A(fall) / A(all) / A(fall,fall) / A(seq(0,N)) ...; source an
    index-tensor view (a symbolic rearrangement of A)."""
    n = prod(shape)
    a = Buf('a', ty, n, 'inout'); q = Buf('q', INT, n, 'in')
    mode, cfg = mode_cfg(ty, isa)
    dv = {'fall': 'A(%s)' % ','.join(['fall'] * len(shape)), 'all': 'A(%s)' % ','.join(['all'] * len(shape)),
          'seq': 'A(%s)' % ','.join('seq(0,%d)' % s for s in shape), 'seqlast': 'A(%s)' % ','.join('seq(first,last)' for s in shape),
          'fseq': 'A(%s)' % ','.join('fseq<0,%d>()' % s for s in shape)}[spelling]
    body = '    %s %s\n    %s.noalias() %s A(Q);\n    %s' % (town(ty, shape, 'a'), it_decl('q', INT, shape), dv, op, copy_out('A', 'a', n))
    ens = [(a, pos, apply_op(op, E.inp(a, pos), E.inp(a, E.inp(q, pos)))) for pos in range(n)]
    cid = 'C18/whole-%s-from-it/%s/%s/%s/%s' % (spelling, ty.name, shp(shape), OPS[op], cfg.tag())
    return Case(cid, 'C18', body, [a, q], ens, mode, cfg, requires=in_range(q, n, n), replay_values=replay_any('q', n, n, INT))

def mask_case(ty, shape, op, rhs, isa, srckind, noalias=True):
    """A(M).noalias() op= f(src)    M: symbolic mask (all 2^n masks); src has the parent's shape:
    'it'   : A(Q), Q a symbolic full-size index tensor (a rearrangement of A -- overlapping source)
    'self' : A(M) itself (coinciding; without noalias)
    'whole': A (coinciding, the tensor itself)"""
    n = prod(shape)
    op = calm_op(ty, op, rhs)
    a = Buf('a', ty, n, 'inout'); m = Buf('m', BOOL, n, 'in')
    bufs = [a, m]; req = is_bool(m, n); replay = None
    mode, cfg = mode_cfg(ty, isa)
    txt, spec, ns = RHS[rhs]
    mdecl = 'Tensor<bool,%s> M(m);' % dims(shape)
    if srckind == 'it':
        q = Buf('q', INT, n, 'in'); bufs.append(q); req += in_range(q, n, n); replay = replay_any('q', n, n, INT)
        sdecl = it_decl('q', INT, shape); sv = 'A(Q)'; src = lambda pos: E.inp(a, E.inp(q, pos))
    elif srckind == 'self':
        sdecl = ''; sv = 'A(M)'; src = lambda pos: E.inp(a, pos)      # read where the mask is true
    else:
        sdecl = ''; sv = 'A'; src = lambda pos: E.inp(a, pos)
    body = '    %s %s %s\n    A(M)%s %s %s;\n    %s' % (town(ty, shape, 'a'), mdecl, sdecl, '.noalias()' if noalias else '', op, txt([sv]), copy_out('A', 'a', n))
    ens = [(a, pos, E.sel(E.inp(m, pos).cmp('ne', 0), apply_op(op, E.inp(a, pos), spec([src(pos)])), E.inp(a, pos))) for pos in range(n)]
    cid = 'C18/mask%s/%s/%s/%s/%s/%s/%s' % ('' if noalias else '-coincide', ty.name, shp(shape), OPS[op], srckind, rhs, cfg.tag())
    return Case(cid, 'C18', body, bufs, ens, mode, cfg, requires=req, replay_values=replay)

# ----------------------------------------------------------------------------------------------
# Families whose overlapping members currently fail on the unchanged tree (recorded in known_findings.txt, each one
# costs a native replay): fseq1d / fseq2d / fseq1d-expr / fseq-from-seq / fseq-from-it / twice-*-fseq (noalias() is
# compiled out of the fixed 1-D and 2-D view classes), mask (filter views never look at the flag),
# whole-{fall,all,fseq}-from-it (the whole-tensor fixed view is the tensor itself and Tensor::noalias() is a no-op).
# The quick tier keeps a handful of those per ISA; the thorough tier enumerates them like the others.
# Not in the box (reported, cannot be expressed as a contract): compound / noalias assignment to a dynamic view of a
# rank-1 or rank-2 TensorMap does not compile; integer unary minus (SIMD) is wrong by itself (C02/C08), so `neg`
# right-hand sides are only generated for float types.
# ----------------------------------------------------------------------------------------------
OVERLAP = lambda t: t[0] in ('partial', 'perm')
CALM = lambda t: t[0] in ('disjoint', 'same')

def cases(tier, seed):
    rng = random.Random(seed)
    T = tier == 'thorough'
    out = []
    def ops_for(ty): return INT_OPS if ty is INT else ALL_OPS
    def ftype(): return rng.choice([FLT, DBL])
    def rhs1(ty): return rng.choice(['v', 'v', 'v+v'] + (['neg'] if ty is not INT else []))
    def full(d, N): return rsize(*d) == N
    for isa in isas(tier):
        # ---- rank 1: dynamic seq views of an owning tensor (1-D view class) --------------------------------------
        for N in range(2, 10 if not T else 13):
            for (d, s) in pick_pairs(rng, N, 3 if not T else 12):
                out.append(view_case('seq1d', INT, (N,), [d], [[s]], rng.choice(INT_OPS), 'v', isa, seq_txt))
            for (d, s) in pick_pairs(rng, N, (N % 2) if not T else 3, want=OVERLAP):
                out.append(view_case('seq1d', ftype(), (N,), [d], [[s]], rng.choice(ALL_OPS), 'v', isa, seq_txt))
        # ---- rank 1: fixed fseq views (1-D fixed view class) -----------------------------------------------------
        for N in range(3, 10 if not T else 13):
            for (d, s) in pick_pairs(rng, N, 1 if not T else 4, want=CALM):
                if not full(d, N): out.append(view_case('fseq1d', INT, (N,), [d], [[s]], rng.choice(INT_OPS), 'v', isa, fseq_txt))
            if T:
                for (d, s) in pick_pairs(rng, N, 2, want=OVERLAP):
                    if not full(d, N):
                        ty = INT if rng.random() < 0.75 else ftype()
                        out.append(view_case('fseq1d', ty, (N,), [d], [[s]], rng.choice(ops_for(ty)), 'v', isa, fseq_txt))
        if not T:
            for N in (9,):
                for (d, s) in pick_pairs(rng, N, 1, want=OVERLAP):
                    if not full(d, N): out.append(view_case('fseq1d', INT, (N,), [d], [[s]], rng.choice(INT_OPS), 'v', isa, fseq_txt))
        # all five operators on the test-suite patterns (shift right = hazardous in storage order, shift left, strided)
        pats = [(9, (2, 9, 1), (0, 7, 1)), (9, (0, 7, 1), (2, 9, 1)), (9, (1, 9, 2), (0, 8, 2))]
        for (N, d, s) in (pats if T else pats[:2]):
            for op in ALL_OPS:
                for ty in ([FLT] if not T else [FLT, DBL]):
                    out.append(view_case('seq1d', ty, (N,), [d], [[s]], op, 'v', isa, seq_txt))
        for (N, d, s) in (pats[:2] if T else pats[1:2]):           # quick: the hazard-free direction only
            for op in (ALL_OPS if not T else ['=', '+=', '*=']):
                out.append(view_case('fseq1d', FLT, (N,), [d], [[s]], op, 'v', isa, fseq_txt))
        # right-hand sides that are expressions of one or two overlapping views
        for N in ((8, 9) if not T else range(3, 12)):
            for rhs in ('sum2', 'diff2', 'v+v', 'neg'):
                for vk, vtxt in (('seq1d', seq_txt), ('fseq1d', fseq_txt)):
                    if vk == 'fseq1d' and not (N == 8 and rhs == 'sum2') and not (T and N % 3 == 0 and rhs in ('sum2', 'v+v')): continue
                    for (d, s) in pick_pairs(rng, N, 1 if (not T or vk == 'fseq1d') else 2, want=OVERLAP):
                        if vk == 'fseq1d' and full(d, N): continue
                        srcs = [[s]]
                        if RHS[rhs][2] == 2:
                            srcs.append([rng.choice([r for r in all_ranges(N) if rsize(*r) == rsize(*d)])])
                        ty = ftype() if (rhs == 'neg' or rng.random() < 0.25) else INT
                        out.append(view_case(vk + '-expr', ty, (N,), [d], srcs, rng.choice(ops_for(ty)), rhs, isa, vtxt))
        # destination seq / source fseq and the other way round
        for N in ((6, 9) if not T else range(4, 11)):
            for (d, s) in pick_pairs(rng, N, 1 if not T else 2, want=OVERLAP):
                if full(s, N) or full(d, N): continue
                out.append(view_case('seq-from-fseq', INT, (N,), [d], [[s]], rng.choice(INT_OPS), 'v', isa, seq_txt, srctxt=fseq_txt))
                if (T and N % 2) or (N == 9 and isa != 'avx2'): out.append(view_case('fseq-from-seq', INT, (N,), [d], [[s]], rng.choice(INT_OPS), 'v', isa, fseq_txt, srctxt=seq_txt))
        # FASTOR_USE_VECTORISED_EXPR_ASSIGN (strided vector paths)
        for N in ((9,) if not T else (5, 9, 12)):
            for (d, s) in pick_pairs(rng, N, 3 if not T else 6, want=OVERLAP):
                out.append(view_case('seq1d', INT, (N,), [d], [[s]], rng.choice(INT_OPS), 'v', isa, seq_txt, macros=('FASTOR_USE_VECTORISED_EXPR_ASSIGN',)))
        # ---- C++17 (if-constexpr branches of the view classes) ---------------------------------------------------------
        for N in ((9,) if not T else (4, 7, 9, 12)):
            for (d, s) in pick_pairs(rng, N, 2 if not T else 3, want=OVERLAP):
                out.append(view_case('seq1d', INT, (N,), [d], [[s]], rng.choice(INT_OPS), 'v', isa, seq_txt, std='c++17'))
        for (dst, src) in pick_pairs_nd(rng, (3, 5), 2 if not T else 5):
            out.append(view_case('seq2d', INT, (3, 5), dst, [src], rng.choice(INT_OPS), 'v', isa, seq_txt, std='c++17'))
        for (dst, src) in pick_pairs_nd(rng, (2, 3, 4), 1 if not T else 3, neg=False):
            out.append(view_case('fseqnd', INT, (2, 3, 4), dst, [src], rng.choice(INT_OPS), 'v', isa, fseq_txt, std='c++17'))
        # ---- rank 2 -----------------------------------------------------------------------------------------------
        shapes2 = [(2, 3), (3, 4), (4, 5), (3, 9)] if not T else [(2, 2), (2, 3), (3, 3), (3, 4), (4, 4), (4, 5), (5, 4), (3, 9), (2, 17), (5, 6)]
        for shape in shapes2:
            for (dst, src) in pick_pairs_nd(rng, shape, 3 if not T else 10):
                ty = INT if rng.random() < 0.75 else ftype()
                out.append(view_case('seq2d', ty, shape, dst, [src], rng.choice(ops_for(ty)), rhs1(ty), isa, seq_txt))
            for (dst, src) in pick_pairs_nd(rng, shape, 1 if not T else 2):
                if all(full(d, N) for d, N in zip(dst, shape)): continue
                ty = INT if rng.random() < 0.75 else ftype()
                out.append(view_case('fseq2d', ty, shape, dst, [src], rng.choice(ops_for(ty)), rhs1(ty), isa, fseq_txt))
        for op in ALL_OPS:     # the test-suite pattern a(all,seq(2,5)) op= a(all,seq(0,3)) on 3x5
            out.append(view_case('seq2d', FLT, (3, 5), [(0, 3, 1), (2, 5, 1)], [[(0, 3, 1), (0, 3, 1)]], op, 'v', isa, seq_txt))
            if op == '+=' or (T and op == '='): out.append(view_case('fseq2d', FLT, (3, 5), [(0, 3, 1), (2, 5, 1)], [[(0, 3, 1), (0, 3, 1)]], op, 'v', isa, fseq_txt))
        # ---- rank 3: generic n-dimensional seq views (owning tensor and TensorMap), n-dimensional fixed views ---
        for shape in ([(2, 3, 4)] if not T else [(2, 3, 4), (3, 2, 5), (2, 2, 9)]):
            for vk, vtxt, parent in (('seqnd', seq_txt, 'own'), ('fseqnd', fseq_txt, 'own'), ('seqnd-map', seq_txt, 'map')):
                for (dst, src) in pick_pairs_nd(rng, shape, 2 if not T else 6, neg=False):
                    if vk == 'fseqnd' and all(full(d, N) for d, N in zip(dst, shape)): continue
                    op = rng.choice(INT_OPS if parent == 'own' else ['+=', '-='])     # TensorMap: view = view does not compile
                    out.append(view_case(vk, INT, shape, dst, [src], op, 'v', isa, vtxt, parent=parent))
        # ---- plain '=' from a bare view whose stride is smaller than the destination's and that starts at or after it
        # (the copy order matters although the source does not start before the destination)
        for (N, d, sr) in [(9, (0, 8, 2), (1, 5, 1)), (9, (1, 9, 2), (2, 6, 1)), (9, (0, 9, 3), (3, 6, 1))] + ([(12, (0, 12, 3), (2, 6, 1)), (10, (0, 10, 2), (3, 8, 1))] if T else []):
            for ty in ((INT, ftype()) if T else (INT,)):
                out.append(view_case('seq1d-stride', ty, (N,), [d], [[sr]], '=', 'v', isa, seq_txt))
        out.append(view_case('seq2d-stride', INT, (3, 9), [(0, 3, 1), (0, 8, 2)], [[(0, 3, 1), (1, 5, 1)]], '=', 'v', isa, seq_txt))
        # ---- coinciding source and destination, no noalias(): full rows wider than the vector (vector body + remainder)
        for ty in (INT, FLT, DBL):
            V_ = vec_elems(isa, ty)
            for cols in sorted({V_ + 1, 2 * V_ + 1} if V_ <= 8 else {V_ + 1}):
                dst = [(0, 3, 1), (0, cols, 1)]
                for op in (('=',) if not T else ('=', '+=')):
                    out.append(view_case('seq2d-coincide-rows', ty, (3, cols), dst, [dst], op, 'v+v', isa, seq_txt, noalias=False))
        # ---- coinciding source and destination, no noalias() --------------------------------------------------
        for N in ((5, 9) if not T else range(2, 12)):
            for vk, vtxt in (('seq1d', seq_txt), ('fseq1d', fseq_txt)):
                rs = [r for r in all_ranges(N) if rsize(*r) >= 2 and not (vk == 'fseq1d' and full(r, N))]
                for r in sample(rng, rs, 2 if not T else 3):
                    ty = INT if rng.random() < 0.7 else ftype()
                    out.append(view_case(vk + '-coincide', ty, (N,), [r], [[r]], rng.choice(ops_for(ty)), rhs1(ty), isa, vtxt, noalias=False))
        for shape in ([(3, 5)] if not T else [(2, 3), (3, 5), (4, 4)]):
            for vk, vtxt in (('seq2d', seq_txt), ('fseq2d', fseq_txt)):
                for _ in range(2 if not T else 5):
                    dst = [rng.choice([r for r in all_ranges(N, 2) if rsize(*r) >= 2 or N < 3]) for N in shape]
                    if vk == 'fseq2d' and all(full(d, N) for d, N in zip(dst, shape)): continue
                    ty = INT if rng.random() < 0.7 else ftype()
                    out.append(view_case(vk + '-coincide', ty, shape, dst, [dst], rng.choice(ops_for(ty)), rhs1(ty), isa, vtxt, noalias=False))
        # ---- the same view object used twice --------------------------------------------------------------------
        for N in ((6, 9) if not T else range(4, 11)):
            for kind in ('remark', 'consumed', 'other'):
                for vtxt in (seq_txt, fseq_txt):
                    if vtxt is fseq_txt and not (N == 9 and kind == 'remark') and not (T and N % 3 == 0): continue
                    for (d, s) in pick_pairs(rng, N, 1 if (not T or vtxt is fseq_txt) else 2, want=OVERLAP):
                        if vtxt is fseq_txt and full(d, N): continue
                        ty = INT if rng.random() < 0.75 else ftype()
                        out.append(twice_case(ty, N, d, s, rng.choice(ops_for(ty)), rng.choice(ops_for(ty)), kind, isa, vtxt))
        # ---- index-tensor views: symbolic duplicate-free destination indices, symbolic source indices ---------
        # (the noalias path scatters into a copy through symbolic addresses and then gathers from it: the formula grows
        #  quickly; 2 indices with every operator, 3 indices with `=` only -- larger ones did not finish in 300 s)
        its = [((4,), (2,)), ((5,), (2,)), ((6,), (3,)), ((2, 3), (1, 2))] if not T else [((3,), (2,)), ((4,), (2,)), ((5,), (2,)), ((6,), (2,)), ((6,), (3,)), ((7,), (3,)), ((2, 3), (1, 2)), ((2, 2), (2, 1)), ((2, 2, 2), (1, 1, 2))]
        for (shape, ishape) in its:
            big = prod(ishape) >= 3
            for op in (INT_OPS if not big else ['=']):
                out.append(itview_case(INT, shape, ishape, op, 'v', isa))
            if not big:
                ty = ftype()
                for op in sample(rng, ALL_OPS, 1 if not T else 2):
                    out.append(itview_case(ty, shape, ishape, op, 'v', isa))
                out.append(itview_case(INT, shape, ishape, rng.choice(INT_OPS), 'v', isa, ity=rng.choice([I64, U64])))
            out.append(itview_case(INT, shape, ishape, rng.choice(INT_OPS), rng.choice(['v', 'v+v']), isa, srckind='self', noalias=False))
            if len(shape) == 1:
                N = shape[0]; K = ishape[0]
                rs = [r for r in all_ranges(N) if rsize(*r) == K]
                for r in sample(rng, rs, 1 if not T else 3):
                    out.append(itview_case(INT, shape, ishape, rng.choice(INT_OPS), 'v', isa, srckind='seq', src_range=r))
                    out.append(seq_from_it_case(INT, N, r, rng.choice(INT_OPS), isa, ity=rng.choice([INT, INT, I64, U64])))
                if (T and N in (4, 6)) or (N == 6 and isa == 'avx2'):
                    r = rng.choice(rs)
                    if K < N: out.append(seq_from_it_case(INT, N, r, rng.choice(INT_OPS), isa, fixed=True))
        # ---- destination = whole tensor spelled as a view ---------------------------------------------------------
        if not T:
            sp = {'sse2': 'fall', 'avx2': 'all', 'avx512': 'fseq'}.get(isa, 'fall')
            out.append(whole_from_it_case(INT, (5,), rng.choice(['+=', '-=']), isa, sp))
            out.append(whole_from_it_case(INT, (4,), rng.choice(INT_OPS), isa, rng.choice(['seq', 'seqlast'])))
        else:
            for shape in [(3,), (5,), (2, 3)]:
                for sp in (('fall', 'all', 'fseq') if shape != (3,) else ('seq', 'seqlast')):
                    out.append(whole_from_it_case(INT, shape, rng.choice(INT_OPS if shape == (3,) else ['+=', '-=']), isa, sp))
        # ---- mask views -----------------------------------------------------------------------------------------------
        for shape in ([(5,), (2, 3)] if not T else [(3,), (5,), (9,), (12,), (2, 3), (3, 4), (2, 2, 3)]):
            for op in [rng.choice(INT_OPS)]:
                if T or (shape == (5,)) == (isa != 'avx2'): out.append(mask_case(INT, shape, op, 'v', isa, 'it'))
            if T and prod(shape) in (5, 6): out.append(mask_case(ftype(), shape, rng.choice(ALL_OPS), 'v', isa, 'it'))
            out.append(mask_case(INT, shape, rng.choice(INT_OPS), rng.choice(['v', 'v+v']), isa, 'self', noalias=False))
            out.append(mask_case(INT, shape, rng.choice(INT_OPS), rng.choice(['v', 'v+v']), isa, 'whole', noalias=False))
            out.append(mask_case(INT, shape, rng.choice(INT_OPS), 'v', isa, 'whole', noalias=True))
            ty = ftype()
            out.append(mask_case(ty, shape, rng.choice(ALL_OPS), rhs1(ty), isa, 'whole', noalias=bool(rng.getrandbits(1))))
    # ---- source of a different rank over the same storage; boolean right-hand sides (second round of seeds) ----
    for isa in isas(tier):
        for ty in (INT, FLT):
            for (shape, dst, lo) in [((4, 7), [(1, 4, 1), (2, 6, 1)], 3), ((3, 5), [(0, 2, 1), (1, 5, 1)], 6)] + ([((5, 9), [(1, 5, 2), (0, 9, 3)], 20)] if T else []):
                for op in (ops_for(ty) if T else (['=', '+=', '-='] if ty is INT else ['=', '*=', '/='])):
                    out.append(flat_src_case(ty, shape, dst, lo, op, isa))
            out.append(flat_src_case(ty, (4, 7), [(1, 4, 1), (2, 6, 1)], 3, '=', isa, how='reshape'))
        for (N, d, s_) in [(9, (1, 9, 1), (0, 8, 1)), (10, (2, 10, 2), (0, 8, 2)), (7, (0, 4, 1), (3, 7, 1))]:
            for rhs in ('not', 'eq'):
                out.append(bool_view_case(N, d, s_, rhs, isa))
    seen = set(); res = []
    for c in out:
        if c.cid not in seen: seen.add(c.cid); res.append(c)
    return res

def evidence_extra(tier):
    T = tier == 'thorough'
    return {'box': {
        'rank1': 'extents 2..%d; pairs of equal-length (first,last,step) ranges with |step| <= 3, both spellings of `last`, negative steps (reversed order) where `last` >= 0; stratified sample over {same, permuted, partial, disjoint} x {forward, reversed, strided, mixed strides}' % (12 if T else 9),
        'rank2': 'shapes up to %s; per-axis range pairs, |step| <= 2' % ('5x6, 2x17' if T else '4x5, 3x9'),
        'rank3': '2x3x4%s (generic n-dimensional seq views on Tensor and on TensorMap, n-dimensional fixed views)' % (', 3x2x5, 2x2x9' if T else ''),
        'view_kinds': ['seq (dynamic; run-time values, enumerated)', 'fseq (compile-time)', 'seq<->fseq mixed', 'index tensor (symbolic, duplicate-free destination; symbolic source)', 'boolean mask (symbolic: all 2^n masks)', 'whole tensor spelled fall / all / fseq<0,N> / seq(0,N) / seq(first,last)'],
        'operators': '= += -= on int (SYM); = += -= *= /= on float, double (UF, pipeline P0)',
        'rhs_forms': ['A(r2)', '-A(r2) (float only)', 'A(r2)+A(r3)', 'A(r2)-A(r3)', 'A(r2)+A(r2)'],
        'histories': ['same view object: re-marked before each of two assignments', 'flag consumed, then coinciding source', 'flag consumed, then unrelated source'],
        'no_noalias_coinciding': 'A(r) op= g(A(r)) for seq, fseq, index-tensor and mask views',
        'macros': ['FASTOR_USE_VECTORISED_EXPR_ASSIGN (rank-1 strided)'],
        'index_view_sizes': 'destination index tensors of 2 indices (all operators) / 3 indices (= only) into parents of <= %d elements' % (8 if T else 6),
    },
    'not_covered': ['dynamic seq views of rank-1 / rank-2 TensorMap with noalias() or any compound assignment: do not compile (tensor_views_nd.h constructs the 1-D/2-D view class with the n-D constructor signature)',
                    'integer unary minus on the right-hand side (SIMD integer negation is wrong by itself: property C02/C08)',
                    'int *= and /= (symbolic 32-bit multiplication / division is not tractable in mode SYM)',
                    'reversed ranges that include element 0 (not expressible: a negative `last` means counted from the end)']}
