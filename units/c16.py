"""C16 -- reductions, predicates and scalar-valued functions agree with their definitions.

Contracts (written from the property text; r = the returned scalar, x_0..x_{n-1} = the elements of the argument in
row-major order; for a lazy-expression argument x_k is the scalar operator applied to element k of the operands):

  sum(x), x.sum()        r == x_0 + ... + x_{n-1}      ATOMS/LIN for int32, float, double (int64 in the thorough tier): the result
                         is the polynomial "every element exactly once, nothing else" (int: real 32-bit adders; float/double in
                         the ring reinterpretation, i.e. exact on integer-valued data; the n*eps bound is not machine-checked).
                         Sizes 1..2V+3 for every vector width V.  int32 additionally in SYM (all 2^(32n) inputs) for n <= V+1:
                         re-associated 32-bit adder trees over fully symbolic data are not decided beyond ~9 summands.
  min(x) / max(x)        (exists k. r is bit-identical to x_k) and (forall k. r <= x_k / r >= x_k), SYM, full domain, in the
                         equivalent form with a universally quantified position j (see minmax_case).  float/double: requires
                         "no NaN" (min/max of NaN data is not specified by the property); families *-flt additionally require
                         finite data, *-flt-inf admit +-infinity.  Sizes up to V+1 (<= 9 in the quick tier, <= 17 thorough).
  all_of/any_of/none_of  r == AND_k x_k / OR_k x_k / NOT OR_k x_k  on bool tensors (requires: the bytes are 0/1) and on comparison
                         expressions (A < B, A == 2, evaluated Tensor<bool>) of int and float tensors                          SYM
  isequal(a,b[,tol])     r == AND_k |a_k - b_k| < tol.  int (tol 1e-14 or 0.5 < 1): AND_k a_k == b_k, SYM.  float/double: mode UF on
                         the P0 pipeline -- the subtraction is uninterpreted, abs / compare / tolerance constant are real.
  issymmetric(A)         r == AND_ij not(|a_ij - a_ji| > 1e-14)  (int SYM with |a| <= 2^30 so that the difference cannot overflow;
                         float/double UF, requires finite data)
  trace(A)               r == sum_i a_ii   ATOMS/LIN (int, float, double), SYM for int32 n <= 5; higher-order trace per matrix
  inner(a,b)             r == sum_k a_k*b_k as a polynomial: ATOMS with A/B atoms (each product a_k*b_k once, no other product)
  norm(a)                r == sqrt(sum_k a_k*a_k): ATOMS with atoms='AA' (the square of element k is a table bit, any other product
                         is outside the typing), sqrt is an uninterpreted function of the radicand.  Decided: the radicand is the
                         specified polynomial and sqrt is applied once to it.  NOT decided: that sqrts() is correctly rounded and
                         the n*eps error bound of the floating sum.
  product(x)             n <= 9 elements: multilinear in its n elements -> TAGS/BASIS pair of vf.multilinear_cases (a proof for all
                         values; floats in the ring reinterpretation); n > 9 (the only way to reach the 16-lane AVX-512 kernels)
                         and lazy-expression arguments: B01 bounded, inputs in {0,1} (families product-*-b01, never counted as proved)
  determinant(A), n<=4   closed-form strategies: multilinear in the n rows -> TAGS/BASIS pair, r == Leibniz sum over permutations
                         (int, float, double; n = 2,3,4); det(A - B) in the bounded 0/1 domain (family det-b01)
Large ATOMS queries are split into a "+typing" and a "+unit" query (see atoms_cases) that together give the same conclusion.
Not decided / left out: LU- and QR-based determinants (n > 4) and isorthogonal (need real floating products / divisions),
product() of more than 9 elements outside the 0/1 domain, norm of integer tensors, every rounding bound of the property
("machine arithmetic treated as mathematical").
"""
from units.common import *
# 64-bit integers as int64_t: on LP64 `long long` (vf.I64) is a different type and never reaches SIMDVector<int64_t,ABI>
L64 = Ty('int64', 'int64_t', 64, 'int')
import os

LEVEL_NOTE = ('per instantiation (function, type, size/shape, argument kind, ISA, std): the returned scalar equals the fold of the '
              'scalar operation over all elements.  SYM, all element values: min/max (floats: requires no NaN), all_of/any_of/none_of, '
              'isequal and issymmetric on ints, trace/sum of int32 for small n.  UF (float subtraction uninterpreted): isequal/issymmetric on '
              'floats.  ATOMS (equality of polynomials, floats in the ring reinterpretation; queries with more than 10 table entries are '
              'split into a typing query over all 0/1 tables and a value query over the unit tables): sum, trace, inner, the radicand of norm '
              '(sqrt opaque).  TAGS/BASIS pairs (multilinear code): product of <= 9 elements, closed-form determinant n <= 4.  B01 bounded, never '
              'counted as proved: product of > 9 elements, product/det of lazy expressions.  Not decided: rounding bounds, LU/QR determinants, '
              'isorthogonal, correct rounding of sqrt.')

FLT_MAX = {32: 3.4028234663852886e+38, 64: 1.7976931348623157e+308}
ALL_TYPES = (INT, FLT, DBL)

def shp(shape):
    return 'x'.join(map(str, shape))

def conj(es):
    r = es[0]
    for e in es[1:]: r = r.band(e)
    return r

def disj(es):
    r = es[0]
    for e in es[1:]: r = r.bor(e)
    return r

# ----------------------------------------------------------------------------------------------
# argument kinds: a tensor-valued argument of n elements built from caller buffers
# ----------------------------------------------------------------------------------------------
def argument(ty, shape, kind, atoms=None, names=('a', 'b')):
    """returns (bufs, decl text, expression text, [E of element k])"""
    n = prod(shape)
    a = Buf(names[0], ty, n, 'in', atoms=atoms)
    A = names[0].upper(); B = names[1].upper()
    if kind == 'own':
        return [a], town(ty, shape, names[0]), A, [E.inp(a, k) for k in range(n)]
    if kind == 'map':
        return [a], tmap(ty, shape, names[0]), A, [E.inp(a, k) for k in range(n)]
    b = Buf(names[1], ty, n, 'in', atoms=atoms)
    if kind == 'expr':        # lazy A + B, one aligned owning operand and one unaligned map
        return [a, b], town(ty, shape, names[0]) + ' ' + tmap(ty, shape, names[1]), '%s + %s' % (A, B), [E.inp(a, k) + E.inp(b, k) for k in range(n)]
    if kind == 'expr-sub':    # lazy A - B
        return [a, b], tmap(ty, shape, names[0]) + ' ' + town(ty, shape, names[1]), '%s - %s' % (A, B), [E.inp(a, k) - E.inp(b, k) for k in range(n)]
    raise ValueError(kind)

def cid(fam, ty, shape, kind, cfg, extra=''):
    return 'C16/%s/%s/%s/%s%s/%s' % (fam, ty.name, shp(shape), kind, extra, cfg.tag())

# ----------------------------------------------------------------------------------------------
# ATOMS queries.  The value clause "result == specified sum" over *all* 0/1 tables is an equivalence of two differently
# associated adder trees over n one-bit summands (a population count); the SAT back end decides it quickly up to about a
# dozen summands and not at all beyond ~30.  Larger instances are therefore split into two queries that together give the
# same conclusion:
#   +typing  for EVERY 0/1 table: no operation leaves the provenance typing (applicability obligation) and every output is
#            a ring value (no poison reached it).  Hence no product of two non-zero data values was ever formed, i.e. the
#            output is an affine-linear function of the table bits (its multilinear form has no term of degree >= 2).
#   +unit    for every table with AT MOST ONE non-zero entry (entry number s, s symbolic): output == specified sum.  An
#            affine-linear function is determined by its values at 0 and at the unit vectors, so all coefficients agree.
# ----------------------------------------------------------------------------------------------
SPLIT_AT = 10

def atoms_cases(mkid, body, bufs, outs, monomials, cfg):
    """outs: [(buf,k,E)] value clauses; monomials: the table entries (as E) the outputs may depend on."""
    if len(monomials) <= SPLIT_AT:
        return [Case(mkid(''), 'C16', body, bufs, outs, 'ATOMS', cfg)]
    typing = Case(mkid('+typing'), 'C16', body, bufs,
                  [('bool', '%s[%d] is a ring value (no ill-typed operation reached it)' % (b.name, k), E.post(b, k).ringval(e)) for (b, k, e) in outs],
                  'ATOMS', cfg)
    s = Scalar('s_', INT, 0, len(monomials) - 1)
    lits = [E.arg(s).cmp('eq', E.const(i, INT)).bor(m.same(E.const(0, m.ty))) for i, m in enumerate(monomials)]
    req = [conj(lits[i:i + 32]) for i in range(0, len(lits), 32)]      # few large clauses: contract instrumentation is per clause
    unit = Case(mkid('+unit'), 'C16', body, bufs, outs, 'ATOMS', cfg, requires=req, scalars=[s])
    return [typing, unit]

def inputs_of(bufs):
    return [E.inp(b, k) for b in bufs if b.role == 'in' for k in range(b.n)]

# ----------------------------------------------------------------------------------------------
# sum
# ----------------------------------------------------------------------------------------------
def sum_case(ty, shape, cfg, kind, mode='ATOMS'):
    n = prod(shape)
    atoms = 'LIN' if mode == 'ATOMS' else None
    c = Buf('c', ty, 1, 'out')
    if kind in ('method', 'method-map'):
        bufs, decl, x, el = argument(ty, shape, 'own' if kind == 'method' else 'map', atoms)
        call = '%s.sum()' % x
    else:
        bufs, decl, x, el = argument(ty, shape, kind, atoms)
        call = 'sum(%s)' % x
    body = '    %s\n    c[0] = %s;' % (decl, call)
    if mode == 'ATOMS':
        return atoms_cases(lambda v: cid('sum', ty, shape, kind + v, cfg), body, bufs + [c], [(c, 0, E.total(el, ty))], inputs_of(bufs), cfg)
    return [Case(cid('sum-sym', ty, shape, kind, cfg), 'C16', body, bufs + [c], [(c, 0, E.total(el, ty))], mode, cfg)]

# ----------------------------------------------------------------------------------------------
# min / max
# ----------------------------------------------------------------------------------------------
def minmax_case(op, ty, shape, cfg, kind, dom='finite'):
    """min / max.  Clauses, for a universally quantified (symbolic) position j:
         A  r <= x_j                                   (>= for max)           "r is a lower bound"
         B  (forall k. x_j <= x_k)  ==>  r == x_j      (bit-identical for ints, numerically for floats)
         C  (floats) r is +0.0 / -0.0 only if some element has that bit pattern
       Without NaN, A & B & C for every j  <=>  (exists k. r bit-identical to x_k) and (forall k. r <= x_k): some j is a
       minimum, B gives r == x_j, and numerically equal non-zero floats are bit-identical.  (The direct disjunction
       "r same x_0 or ... or r same x_n-1" is the same statement but is not decided by the SAT back end for n >= 8.)"""
    n = prod(shape)
    c = Buf('c', ty, 1, 'out')
    bufs, decl, x, el = argument(ty, shape, kind)
    j = Scalar('j', INT, 0, n - 1)
    # element j of the argument, j symbolic: same construction as `el` with a symbolic index
    if kind in ('own', 'map'): ej = E.inp(bufs[0], E.arg(j))
    elif kind == 'expr': ej = E.inp(bufs[0], E.arg(j)) + E.inp(bufs[1], E.arg(j))
    elif kind == 'expr-sub': ej = E.inp(bufs[0], E.arg(j)) - E.inp(bufs[1], E.arg(j))
    body = '    %s\n    c[0] = %s(%s);' % (decl, op, x)
    r = E.post(c, 0)
    le = 'le' if op == 'min' else 'ge'
    word = 'minimum' if op == 'min' else 'maximum'
    ens = [('bool', 'result %s element j (every j)' % ('<=' if op == 'min' else '>='), r.cmp(le, ej)),
           ('bool', 'if element j is a %s the result is that element (every j)' % word,
            conj([ej.cmp(le, e) for e in el]).bnot().bor(r.same(ej) if ty.kind == 'int' else r.cmp('eq', ej)))]
    req = []
    if ty.kind == 'float':
        for z, nm in ((0.0, '+0.0'), (-0.0, '-0.0')):
            zc = E.const(z, ty)
            ens.append(('bool', 'a %s result is the bit pattern of some element' % nm, r.same(zc).bnot().bor(disj([e.same(zc) for e in el]))))
        for b in bufs:
            for k in range(b.n):
                v = E.inp(b, k)
                req.append(v.cmp('eq', v))                                  # no NaN (stated restriction)
                if dom == 'finite': req.append(v.fabs().cmp('le', E.const(FLT_MAX[ty.bits], ty)))
    fam = '%s-%s' % (op, 'int' if ty.kind == 'int' else 'flt') + ('-inf' if dom == 'inf' else '')
    return Case(cid(fam, ty, shape, kind, cfg), 'C16', body, bufs + [c], ens, 'SYM', cfg, requires=req, scalars=[j],
                replay_values=sign_patterns(bufs, dom, kind))

def sign_patterns(bufs, dom, kind):
    """native replay only: the generic trials cycle through the sign patterns named by the property (as generated / all
    negative / all positive / one extreme element at a random position) and respect the stated requires (no NaN; finite)."""
    L = []
    for b in bufs:
        T = b.ty.cpp; n = b.n; nm = b.name
        sub = kind == 'expr-sub' and b is bufs[1]     # second operand of A - B: opposite sign gives elements of one sign
        if b.ty.kind == 'float':
            big = 'std::numeric_limits<%s>::max()' % T
            L.append('    for (int k = 0; k < %d; k++) { if (%s[k] != %s[k]) %s[k] = 0; %s}' % (n, nm, nm, nm,
                     ('if (std::isinf(%s[k])) %s[k] = %s[k] < 0 ? -%s : %s; ' % (nm, nm, nm, big, big)) if dom == 'finite' else ''))
            L.append('    if (t %% 4 == 1) for (int k = 0; k < %d; k++) %s[k] = %s(std::fabs(%s[k]) + 1);' % (n, nm, '' if sub else '-', nm))
            L.append('    if (t %% 4 == 2) for (int k = 0; k < %d; k++) %s[k] = %s(std::fabs(%s[k]) + 1);' % (n, nm, '-' if sub else '', nm))
            ext = ('(t & 4) ? -%s : %s' % (big, big)) if dom == 'finite' else '(t & 4) ? -INFINITY : INFINITY'
            L.append('    if (t %% 4 == 3) %s[rng() %% %d] = %s;' % (nm, n, ext))
            if dom == 'inf': L.append('    if (t %% 8 == 5) for (int k = 0; k < %d; k++) %s[k] = (t & 8) ? -INFINITY : INFINITY;' % (n, nm))
        else:
            top = '((%s)1 << %d)' % (T, b.ty.bits - 1)
            L.append('    if (t %% 4 == 1) for (int k = 0; k < %d; k++) %s[k] = %s;' % (n, nm, ('(%s[k] & ~%s) | 1' if sub else '%s[k] | %s') % (nm, top)))
            L.append('    if (t %% 4 == 2) for (int k = 0; k < %d; k++) %s[k] = %s;' % (n, nm, ('%s[k] | %s' if sub else '(%s[k] & ~%s) | 1') % (nm, top)))
            L.append('    if (t %% 4 == 3) %s[rng() %% %d] = (t & 4) ? %s : ~%s;' % (nm, n, top, top))
    return '\n'.join(L)

# ----------------------------------------------------------------------------------------------
# predicates
# ----------------------------------------------------------------------------------------------
CMP_CPP = {'lt': '<', 'gt': '>', 'le': '<=', 'ge': '>=', 'eq': '==', 'ne': '!='}

def fold_pred(pred, xs):
    if pred == 'all_of': return conj(xs)
    if pred == 'any_of': return disj(xs)
    if pred == 'none_of': return disj(xs).bnot()
    raise ValueError(pred)

def pred_case(pred, shape, cfg, kind, ty=BOOL, rel=None):
    n = prod(shape)
    r = Buf('r', BOOL, 1, 'out')
    req = []
    if kind in ('bool-own', 'bool-map'):
        b = Buf('b', BOOL, n, 'in')
        decl = town(BOOL, shape, 'b') if kind == 'bool-own' else tmap(BOOL, shape, 'b')
        x = 'B'; xs = [E.inp(b, k).cast(BOOL) for k in range(n)]
        req = [E.inp(b, k).cmp('le', E.const(1, BOOL)) for k in range(n)]     # a bool object holds 0 or 1
        bufs = [b]
    elif kind == 'cmp':      # comparison expression of two tensors
        a = Buf('a', ty, n, 'in'); b = Buf('b', ty, n, 'in'); bufs = [a, b]
        decl = town(ty, shape, 'a') + ' ' + tmap(ty, shape, 'b')
        x = 'A %s B' % CMP_CPP[rel]; xs = [E.inp(a, k).cmp(rel, E.inp(b, k)) for k in range(n)]
    elif kind == 'cmp-scalar':   # comparison of a tensor with a scalar
        a = Buf('a', ty, n, 'in'); bufs = [a]
        decl = tmap(ty, shape, 'a')
        x = 'A %s %s' % (CMP_CPP[rel], '2' if ty.kind == 'int' else ('2.5f' if ty.bits == 32 else '2.5'))
        xs = [E.inp(a, k).cmp(rel, E.const(2 if ty.kind == 'int' else 2.5, ty)) for k in range(n)]
    elif kind == 'cmp-eval':     # boolean expression evaluated into a Tensor<bool> first
        a = Buf('a', ty, n, 'in'); b = Buf('b', ty, n, 'in'); bufs = [a, b]
        decl = town(ty, shape, 'a') + ' ' + town(ty, shape, 'b') + ' Tensor<bool,%s> X = A %s B;' % (dims(shape), CMP_CPP[rel])
        x = 'X'; xs = [E.inp(a, k).cmp(rel, E.inp(b, k)) for k in range(n)]
    elif kind == 'cmp-trans':    # boolean expression over an operand that needs evaluation (lazy transpose): trans(A) rel B
        M_, N_ = shape
        a = Buf('a', ty, n, 'in'); b = Buf('b', ty, n, 'in'); bufs = [a, b]
        decl = town(ty, (N_, M_), 'a') + ' ' + town(ty, (M_, N_), 'b')
        x = 'trans(A) %s B' % CMP_CPP[rel]
        xs = [E.inp(a, j * M_ + i).cmp(rel, E.inp(b, i * N_ + j)) for i in range(M_) for j in range(N_)]
    else:
        raise ValueError(kind)
    body = '    %s\n    r[0] = %s(%s);' % (decl, pred, x)
    ens = [(r, 0, fold_pred(pred, xs))]
    k2 = kind + ('-' + rel if rel else '')
    cs = Case(cid(pred, ty, shape, k2, cfg), 'C16', body, bufs + [r], ens, 'SYM', cfg, requires=req)
    cs.solver = 'minisat2'     # early-exit loops (symbolic trip count): MiniSat decides these 3-5x faster than CaDiCaL
    return cs

def isequal_case(ty, shape, cfg, kind, tol=None):
    n = prod(shape)
    a = Buf('a', ty, n, 'in'); b = Buf('b', ty, n, 'in'); r = Buf('r', BOOL, 1, 'out')
    if kind == 'own': decl = town(ty, shape, 'a') + ' ' + town(ty, shape, 'b'); x = 'A, B'
    elif kind == 'map': decl = tmap(ty, shape, 'a') + ' ' + town(ty, shape, 'b'); x = 'A, B'
    body = '    %s\n    r[0] = isequal(%s%s);' % (decl, x, '' if tol is None else ', %r' % tol)
    t = 1e-14 if tol is None else tol
    if ty.kind == 'int':
        assert t < 1          # |a-b| < t  <=>  a == b for integers
        xs = [E.inp(a, k).cmp('eq', E.inp(b, k)) for k in range(n)]
    else:
        xs = [(E.inp(a, k) - E.inp(b, k)).fabs().cmp('lt', E.const(t, ty)) for k in range(n)]
    fam = 'isequal-int' if ty.kind == 'int' else 'isequal-flt'
    # floats: the subtraction is uninterpreted (mode UF on the P0 pipeline: identical IEEE subtractors on both sides are not
    # matched by the SAT back end in SYM); abs and the comparison with the tolerance keep their real meaning
    mode = 'SYM' if ty.kind == 'int' else 'UF'
    if mode == 'UF': cfg = Cfg(cfg.isa, cfg.std, cfg.macros, 'P0', cfg.checks)
    return Case(cid(fam, ty, shape, kind, cfg, '' if tol is None else '-tol%g' % tol), 'C16', body, [a, b, r], [(r, 0, conj(xs))], mode, cfg)

def issymmetric_case(ty, M, cfg, kind):
    n = M * M
    a = Buf('a', ty, n, 'in'); r = Buf('r', BOOL, 1, 'out')
    decl = town(ty, (M, M), 'a') if kind == 'own' else tmap(ty, (M, M), 'a')
    body = '    %s\n    r[0] = issymmetric(A);' % decl
    req = []
    if ty.kind == 'int':
        # a_ij - a_ji must not overflow (signed overflow / abs(INT_MIN) are undefined): |a| <= 2^30
        for k in range(n):
            req.append(E.inp(a, k).cmp('le', E.const(1 << 30, ty))); req.append(E.inp(a, k).cmp('ge', E.const(-(1 << 30), ty)))
        xs = [E.inp(a, i * M + j).cmp('eq', E.inp(a, j * M + i)) for i in range(M) for j in range(i + 1, M)]
    else:
        # the comparison is made in double precision against the tolerance 1e-14.  Written as not(|d| > tol) over *all* ordered
        # pairs (i,j): under the requires (finite data) d is never NaN and a_ii - a_ii is 0 in IEEE arithmetic, so this is the
        # definition |a_ij - a_ji| <= tol; the form is the one that stays valid when the subtraction is uninterpreted (mode UF)
        xs = [(E.inp(a, i * M + j) - E.inp(a, j * M + i)).fabs().cast(DBL).cmp('gt', E.const(1e-14, DBL)).bnot() for i in range(M) for j in range(M)]
        # requires: finite data (for NaN / inf-inf differences "symmetric within tol" is not defined by the property)
        for k in range(n):
            req.append(E.inp(a, k).fabs().cmp('le', E.const(FLT_MAX[ty.bits], ty)))
    ens = [(r, 0, conj(xs) if xs else E.const(1, BOOL))]
    hook = None
    if ty.kind == 'float':   # native replay: respect the requires, and make half of the trials symmetric
        hook = ('    for (int k = 0; k < %d; k++) if (!std::isfinite(a[k])) a[k] = 0;\n'
                '    if (t %% 2) for (int i = 0; i < %d; i++) for (int j = 0; j < i; j++) a[i*%d+j] = a[j*%d+i];' % (n, M, M, M))
    else:
        hook = ('    for (int k = 0; k < %d; k++) a[k] %%= (1 << 30);\n'
                '    if (t %% 2) for (int i = 0; i < %d; i++) for (int j = 0; j < i; j++) a[i*%d+j] = a[j*%d+i];' % (n, M, M, M))
    mode = 'SYM' if ty.kind == 'int' else 'UF'     # floats: subtraction uninterpreted (see isequal)
    if mode == 'UF': cfg = Cfg(cfg.isa, cfg.std, cfg.macros, 'P0', cfg.checks)
    return Case(cid('issymmetric', ty, (M, M), kind, cfg), 'C16', body, [a, r], ens, mode, cfg, requires=req, replay_values=hook)

# ----------------------------------------------------------------------------------------------
# trace / inner / norm
# ----------------------------------------------------------------------------------------------
def trace_case(ty, M, cfg, kind, mode='ATOMS'):
    atoms = 'LIN' if mode == 'ATOMS' else None
    c = Buf('c', ty, 1, 'out')
    bufs, decl, x, el = argument(ty, (M, M), kind, atoms)
    body = '    %s\n    c[0] = trace(%s);' % (decl, x)
    ens = [(c, 0, E.total([el[i * M + i] for i in range(M)], ty))]
    if mode == 'ATOMS':
        return atoms_cases(lambda v: cid('trace', ty, (M, M), kind + v, cfg), body, bufs + [c], ens, inputs_of(bufs), cfg)
    return [Case(cid('trace-sym', ty, (M, M), kind, cfg), 'C16', body, bufs + [c], ens, mode, cfg)]

def trace_batch_case(ty, P, M, cfg):
    """trace of a higher-order tensor: one trace per trailing MxM matrix."""
    n = P * M * M
    a = Buf('a', ty, n, 'in', atoms='LIN'); c = Buf('c', ty, P, 'out')
    body = '    %s\n    Tensor<%s,%d> C = trace(A);\n    %s' % (town(ty, (P, M, M), 'a'), ty.cpp, P, copy_out('C', 'c', P))
    ens = [(c, p, E.total([E.inp(a, p * M * M + i * M + i) for i in range(M)], ty)) for p in range(P)]
    return atoms_cases(lambda v: cid('trace-batch', ty, (P, M, M), 'own' + v, cfg), body, [a, c], ens, inputs_of([a]), cfg)

def inner_case(ty, shape, cfg, kind):
    n = prod(shape)
    a = Buf('a', ty, n, 'in', atoms='A'); b = Buf('b', ty, n, 'in', atoms='B'); c = Buf('c', ty, 1, 'out')
    if kind == 'own': decl = town(ty, shape, 'a') + ' ' + town(ty, shape, 'b')
    elif kind == 'map': decl = tmap(ty, shape, 'a') + ' ' + tmap(ty, shape, 'b')
    elif kind == 'mixed': decl = tmap(ty, shape, 'a') + ' ' + town(ty, shape, 'b')
    body = '    %s\n    c[0] = inner(A, B);' % decl
    ens = [(c, 0, E.total([E.inp(a, k) * E.inp(b, k) for k in range(n)], ty))]
    mono = [E.inp(a, p) * E.inp(b, q) for p in range(n) for q in range(n)]      # every entry of the n x n product table
    return atoms_cases(lambda v: cid('inner', ty, shape, kind + v, cfg), body, [a, b, c], ens, mono, cfg)

def norm_case(ty, shape, cfg, kind):
    n = prod(shape)
    a = Buf('a', ty, n, 'in', atoms='AA'); c = Buf('c', ty, 1, 'out')
    decl = town(ty, shape, 'a') if kind in ('own', 'expr') else tmap(ty, shape, 'a')
    # kind 'expr': norm of an unevaluated element-wise expression -- the fused, 8/4/2/1-way unrolled kernel of unary_norm_op.h
    body = '    %s\n    c[0] = norm(%s);' % (decl, 'A' if kind != 'expr' else 'A + 0')
    ens = [(c, 0, E.total([E.inp(a, k) * E.inp(a, k) for k in range(n)], ty).sqrt())]
    mono = [E.inp(a, k) * E.inp(a, k) for k in range(n)]     # squares are the only products inside the typing (atoms='AA')
    return atoms_cases(lambda v: cid('norm', ty, shape, kind + v, cfg), body, [a, c], ens, mono, cfg)

# ----------------------------------------------------------------------------------------------
# product / determinant (bounded: inputs 0/1)
# ----------------------------------------------------------------------------------------------
def zero_one(bufs):
    req = []
    for b in bufs:
        for k in range(b.n):
            v = E.inp(b, k)
            if b.ty.kind == 'int': req.append(v.bitand(E.const(-2, b.ty)).cmp('eq', E.const(0, b.ty)))
            else: req.append(v.same(E.const(0.0, b.ty)).bor(v.same(E.const(1.0, b.ty))))
    return req

def fold_mul(es):
    r = es[0]
    for e in es[1:]: r = r * e
    return r

def product_case(ty, shape, cfg, kind):
    """n == 1: exact (SYM).  2 <= n <= 9 with a tensor argument: multilinear in the n elements -> TAGS/BASIS pair (a proof for
    all values; floats in the ring reinterpretation).  Otherwise (more than 9 elements -- needed to reach the 16-lane AVX-512
    kernels -- or a lazy-expression argument): bounded B01, inputs in {0,1}."""
    n = prod(shape)
    c = Buf('c', ty, 1, 'out')
    tensor_arg = kind in ('own', 'map', 'method', 'method-map')
    multilinear = tensor_arg and 2 <= n <= 9      # (vf's negative control for TAGS uses tag bit 9: at most 9 operands here)
    if kind in ('method', 'method-map'):
        bufs, decl, x, el = argument(ty, shape, 'own' if kind == 'method' else 'map', atoms=('TR', 1, 0) if multilinear else None)
        call = '%s.product()' % x
    else:
        bufs, decl, x, el = argument(ty, shape, kind, atoms=('TR', 1, 0) if multilinear else None)
        call = 'product(%s)' % x
    body = '    %s\n    c[0] = %s;' % (decl, call)
    fam = 'product-' + ('int' if ty.kind == 'int' else 'flt')
    if n == 1 and tensor_arg:
        return [Case(cid(fam, ty, shape, kind, cfg), 'C16', body, bufs + [c], [(c, 0, el[0])], 'SYM', cfg)]
    if multilinear:
        return multilinear_cases(Case(cid(fam, ty, shape, kind, cfg), 'C16', body, bufs + [c], [(c, 0, fold_mul(el))], 'SYM', cfg))
    ens = [('bool', 'product == x_0*...*x_n-1', E.post(c, 0).cmp('eq', fold_mul(el)))]
    return [Case(cid(fam + '-b01', ty, shape, kind, cfg), 'C16', body, bufs + [c], ens, 'SYM', cfg, requires=zero_one(bufs), bounded=True)]

def perm_sign(p):
    s = 1; p = list(p)
    for i in range(len(p)):
        while p[i] != i:
            j = p[i]; p[i], p[j] = p[j], p[i]; s = -s
    return s

def leibniz(el, n, ty):
    pos = []; neg = []
    for p in itertools.permutations(range(n)):
        t = fold_mul([el[i * n + p[i]] for i in range(n)])
        (pos if perm_sign(p) > 0 else neg).append(t)
    r = E.total(pos, ty)
    for t in neg: r = r - t
    return r

def det_case(ty, n, cfg, kind, fn='determinant'):
    """closed-form determinants: multilinear in the n rows -> TAGS/BASIS pair for tensor arguments; a lazy-expression
    argument (A - B) is checked in the bounded 0/1 domain."""
    c = Buf('c', ty, 1, 'out')
    multilinear = kind in ('own', 'map') and n >= 2
    bufs, decl, x, el = argument(ty, (n, n), kind, atoms=('TR', n, 0) if multilinear else None)
    body = '    %s\n    c[0] = %s(%s);' % (decl, fn, x)
    k2 = kind + ('' if fn == 'determinant' else '-' + fn)
    if n == 1:
        return [Case(cid('det-1x1', ty, (n, n), k2, cfg), 'C16', body, bufs + [c], [(c, 0, el[0])], 'SYM', cfg)]
    if multilinear:
        return multilinear_cases(Case(cid('det', ty, (n, n), k2, cfg), 'C16', body, bufs + [c], [(c, 0, leibniz(el, n, ty))], 'SYM', cfg))
    ens = [('bool', 'determinant == Leibniz sum', E.post(c, 0).cmp('eq', leibniz(el, n, ty)))]
    return [Case(cid('det-b01', ty, (n, n), k2, cfg), 'C16', body, bufs + [c], ens, 'SYM', cfg, requires=zero_one(bufs), bounded=True)]

# ----------------------------------------------------------------------------------------------
# the box
# ----------------------------------------------------------------------------------------------
def sizes_all(V):
    return list(range(1, 2 * V + 4))

def sizes_boundary(V):
    s = {1, 2, 3, V - 1, V, V + 1, 2 * V - 1, 2 * V, 2 * V + 1, 2 * V + 3}
    return sorted(x for x in s if x >= 1)

def sizes_few(V):
    return sorted({1, 3, V, V + 1, 2 * V + 3})

def sizes_min(V):
    return sorted({1, 3, min(V, 8) + 1})

def sizes_minmax(V, full):
    """min/max: the full-domain order reasoning is decided quickly up to about 9 elements (17 for int)"""
    s = {1, 2, 3, V - 1, V, V + 1} | ({2 * V - 1, 2 * V + 1} if full else set())
    if not full: s = {x for x in s if x <= 9}
    return sorted(x for x in s if 1 <= x <= 17)

def cases(tier, seed):
    rng = random.Random(seed)
    out = []
    thorough = tier == 'thorough'
    for isa in isas(tier):
        for std in (['c++14', 'c++17'] if thorough else ['c++14']):
            cfg = Cfg(isa, std)
            main_std = std == 'c++14'
            full = thorough and main_std           # the large box: thorough tier, main language standard
            for ty in ALL_TYPES + ((L64,) if full else ()):
                V = vec_elems(isa, ty)
                mult_ok = ty is not L64            # emulated 64-bit integer multiplies leave the ATOMS typing / are intractable
                # ---- sum: every size 1..2V+3 (every residue modulo the vector width) ----
                kinds = ['own', 'map', 'expr', 'method', 'method-map', 'expr-sub']
                # quick: every size for float, boundary sizes for int / double (int: plus the SYM family below)
                szs = sizes_all(V) if (full or (main_std and ty is FLT)) else sizes_boundary(V)
                for i, n in enumerate(szs):
                    ks = [kinds[(i + t) % 6] for t in (0, 2, 3)] if full else [kinds[(i + ty.bits // 32) % 6]]
                    for k in ks: out += sum_case(ty, (n,), cfg, k)
                for shape in ([(3, 5), (2, 3, 4)] if not full else [(3, 5), (2, 3, 4), (4, 4), (2, 2, 2, 3)]):
                    out += sum_case(ty, shape, cfg, 'own'); out += sum_case(ty, shape, cfg, 'expr')
                if ty is INT and main_std:
                    for n in range(1, V + 2):
                        out += sum_case(ty, (n,), cfg, 'own' if n % 2 else 'map', mode='SYM')
                # ---- min / max ----
                # (min-int, max-int, max-flt and the *-inf families are defective on the unchanged tree: every failing case
                #  is replayed natively, so they are kept small in the quick tier)
                for op in ('min', 'max'):
                    if ty.bits == 32 or full:
                        szs = sizes_minmax(V, True) if full else (sizes_minmax(V, False) if ty.kind == 'float' else sizes_min(V))
                        if ty.kind == 'float' or ty.bits == 64: szs = [x for x in szs if x <= 9]
                        for i, n in enumerate(szs):
                            out.append(minmax_case(op, ty, (n,), cfg, ['own', 'map'][i % 2]))
                        if ty.kind == 'int':
                            out.append(minmax_case(op, ty, (min(V, 8) + 2,), cfg, 'expr'))
                            if full: out.append(minmax_case(op, ty, (2, 3), cfg, 'expr-sub'))
                        else:
                            for n in ((min(V, 8) + 1,) if not full else [x for x in sizes_few(V) if x <= 9]):
                                out.append(minmax_case(op, ty, (n,), cfg, 'own', dom='inf'))
                        if full or ty.kind == 'float': out.append(minmax_case(op, ty, (2, min(V, 4)), cfg, 'own'))
                    elif main_std:
                        for n in (3, V + 1):
                            out.append(minmax_case(op, ty, (n,), cfg, 'own'))
                # ---- trace ----
                if main_std:
                    for M in (range(1, 6) if not full else range(1, 10)):
                        out += trace_case(ty, M, cfg, 'own')
                        if M in (2, 3) or full: out += trace_case(ty, M, cfg, 'map')
                        if M == 3 or full: out += trace_case(ty, M, cfg, 'expr')
                        if ty is INT and M <= 5: out += trace_case(ty, M, cfg, 'own', mode='SYM')
                    out += trace_batch_case(ty, 2, 3, cfg)
                    if full: out += trace_batch_case(ty, 3, 2, cfg); out += trace_batch_case(ty, 2, 4, cfg)
                else:
                    out += trace_case(ty, 3, cfg, 'own'); out += trace_case(ty, 4, cfg, 'expr')
                # ---- inner ----
                if mult_ok:
                    if full: szs = sizes_all(V) + [3 * V, 4 * V - 1, 4 * V, 4 * V + 1, 5 * V + 3, 8 * V + 1]
                    elif main_std: szs = sizes_few(V) + [2 * V - 1, 4 * V + 1]
                    else: szs = [V + 1, 4 * V + 1]
                    # the n x n product table: n <= 41 in the quick tier, n <= 67 in the thorough tier
                    szs = [x for x in szs if x <= (67 if full else 41)] + ([] if full or 4 * V + 1 <= 41 else [35])
                    for i, n in enumerate(sorted(set(szs))):
                        out += inner_case(ty, (n,), cfg, ['own', 'map', 'mixed'][i % 3])
                    if main_std:
                        for shape in [(2, 2), (3, 3), (2, 3, 2)]:
                            out += inner_case(ty, shape, cfg, 'own')
                # ---- norm (floating types) ----
                if ty.kind == 'float':
                    szs = sizes_few(V) + [4, 9, 4 * V + 1] + ([8 * V + 3] if isa == 'avx512' else [])
                    if full: szs = szs + sizes_all(V) + [3 * V, 4 * V, 5 * V + 3, 6 * V + 1, 8 * V, 8 * V + 3, 9 * V + 1]
                    if not main_std: szs = [4, 9, 2 * V + 3]
                    for i, n in enumerate(sorted(set(szs))):
                        out += norm_case(ty, (n,), cfg, 'own')
                        if i % 3 == 0 or full: out += norm_case(ty, (n,), cfg, 'map')
                    if main_std:
                        for shape in [(2, 2), (3, 3)]:
                            out += norm_case(ty, shape, cfg, 'own')
                        # every unroll stage of the lazy kernel once (8V only exists under AVX-512), plus a scalar tail
                        for n in sorted({3, V + 1, 7 * V + 1} | ({15 * V + 1, 8 * V} if isa == 'avx512' else set())):
                            out += norm_case(ty, (n,), cfg, 'expr')
                # ---- product: multilinear pair for n <= 9, bounded 0/1 beyond ----
                if mult_ok and main_std:
                    szs = {1, 2, 3, V - 1, V, V + 1, 2 * V + 1} if not full else set(range(1, 10)) | {V - 1, V, V + 1, 2 * V + 1}
                    szs = sorted(x for x in szs if 1 <= x <= 9) + ([V + 1] if V + 1 > 9 else []) + ([2 * V + 3] if full else [])
                    for i, n in enumerate(szs):
                        out += product_case(ty, (n,), cfg, ['own', 'map', 'method', 'method-map'][i % 4])
                    out += product_case(ty, (2, 3), cfg, 'own')
                    if ty.kind == 'int': out += product_case(ty, (V + 1,), cfg, 'expr-sub')
                # ---- closed-form determinants: multilinear in the rows ----
                if mult_ok and main_std:
                    for n in (1, 2, 3, 4):
                        out += det_case(ty, n, cfg, 'own')
                        if n in (2, 3): out += det_case(ty, n, cfg, 'map')
                        if n == 2 and ty.kind == 'int': out += det_case(ty, n, cfg, 'expr-sub', fn='det')
                # ---- predicates on comparison expressions, isequal, issymmetric ----
                if (ty.bits == 32 and main_std) or full:
                    rels = ['lt', 'eq', 'ge', 'ne', 'gt', 'le']
                    for j, pred in enumerate(('all_of', 'any_of', 'none_of')):
                        W = min(V, 8)
                        szs = (1, 2, 3, W, W + 1, 2 * W + 1) if full else ((3, W + 1) if pred != 'none_of' else (W + 1,))
                        for i, n in enumerate(szs):
                            out.append(pred_case(pred, (n,), cfg, 'cmp', ty, rels[(i + j) % 6]))
                        if full or pred != 'none_of':
                            out.append(pred_case(pred, (2, 3), cfg, 'cmp-scalar', ty, rels[(j + 3) % 6]))
                            out.append(pred_case(pred, (W + 2,), cfg, 'cmp-eval', ty, rels[(j + 1) % 6]))
                            out.append(pred_case(pred, (2, 3), cfg, 'cmp-trans', ty, rels[(j + 2) % 6]))
                    if ty.kind == 'int':
                        for n in ((V + 1,) if not full else (1, 3, V + 1)):
                            out.append(isequal_case(ty, (n,), cfg, 'own'))
                        out.append(isequal_case(ty, (3,), cfg, 'own', tol=0.5))
                        if full: out.append(isequal_case(ty, (2, 2), cfg, 'map'))
                    else:
                        for n in (1, 3, 5):
                            out.append(isequal_case(ty, (n,), cfg, 'own'))
                        out.append(isequal_case(ty, (2, 2), cfg, 'map'))
                        out.append(isequal_case(ty, (3,), cfg, 'own', tol=0.5))
                    for M in (1, 2, 3):
                        out.append(issymmetric_case(ty, M, cfg, 'own' if M != 2 else 'map'))
            # ---- predicates on bool tensors ----
            for pred in ('all_of', 'any_of', 'none_of'):
                szs = (1, 2, 3, 5, 8, 9, 16, 17) if full else ((1, 2, 5, 9) if pred != 'none_of' else (1, 5))
                for i, n in enumerate(szs):
                    out.append(pred_case(pred, (n,), cfg, ['bool-own', 'bool-map'][i % 2]))
                if full or pred != 'none_of': out.append(pred_case(pred, (2, 3), cfg, 'bool-own'))
    seen = set(); res = []
    for c in out:
        if c.cid not in seen: seen.add(c.cid); res.append(c)
    return res


def evidence_extra(tier):
    return {'box': {'sizes': 'sum: every n in 1..2V+3 per ISA vector width V; min/max: n <= V+1 (quick <= 9, thorough <= 17); inner/norm: boundary sizes up to 4V+1 / 8V+3',
                    'argument_kinds': ['owning tensor', 'TensorMap (unaligned)', 'lazy A + B', 'lazy A - B', 'member function', 'rank 2-4 shapes'],
                    'bounded_families': ['product-int-b01', 'product-flt-b01', 'det-b01'],
                    'not_decided': ['LU/QR determinants', 'isorthogonal', 'rounding bounds', 'correct rounding of sqrt in norm',
                                    'product of more than 9 elements outside the 0/1 domain', 'norm of integer tensors']}}
