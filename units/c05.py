"""C05 -- writing through a slice changes exactly the selected elements and nothing else.

Contracts (from the property text):
  A(slice) op= rhs, op in = += -= *= /= :  for every selected element (j0..jk) of the slice (ranges read as in C04:
      element (j..) is A(first0+j0*step0, ...), extent ceil((last-first)/step), negative bounds last-relative)
          A_after[p_j] == A_before[p_j] op rhs[j]      (for `=`: == rhs[j])
      and for every other element of A      A_after[p] == A_before[p]   bit for bit;
  nothing outside A is written (assigns clause: only the destination buffer; exact-extent objects + pointer checks).
  Scalar element assignment A(i,..) = v / += v with *symbolic* indices obeys the same rule.
The destination is an 'inout' buffer, either wrapped by TensorMap (exact extent: a store that spills past the end of A
fails a pointer check, one that spills into unselected elements fails their `== old` clause) or copied into an owning
Tensor and copied back (every element of the owning tensor is observed).
Right-hand sides: scalar, tensor, slice of another tensor with a different range of equal extent, arithmetic expression,
expression needing evaluation (trans(B), trans(B)+C).  Sequences of 2-3 writes in one entry cover the `histories`
quantifier to that depth only.
Modes: int = += -= (and *= by a literal): SYM.  float/double: `=` of pure data movement SYM; compound operators and
arithmetic right-hand sides UF on P0 (the clause applies the same scalar operation to the same operands; for `/= scalar`
the documented reciprocal form x*(1/s) is accepted as well as x/s).
"""
from units.common import *
from units.c04 import (Ax, seq, fseq, ALL, SALL, FIRST, LAST, FIXLAST, ix, fix, encode, slice_sel, slice_cpp, slice_tag, slice_elems,
                       shape_tag, triples, ENCS, ENC2, chunked, ax1, vsweep, lead_axis, rand_axis, covering_pairs, sym_flat_index, INAMES)

LEVEL_NOTE = ('per instantiation (destination shape and range tuple, operator, right-hand-side kind, type, ISA, std, '
              'FASTOR_USE_VECTORISED_EXPR_ASSIGN on/off) the contract (selected == old op rhs, unselected == old, assigns only A) is '
              'proved for all element values; destination ranges are enumerated as in C04 (exhaustive rank-1 triples up to extent 6/8, '
              'rank-2 covering sets, V-straddling last-axis extents per ISA); write sequences only to depth 3')

OPNAME = {'=': 'set', '+=': 'add', '-=': 'sub', '*=': 'mul', '/=': 'div'}
VEA = 'FASTOR_USE_VECTORISED_EXPR_ASSIGN'

def apply_op(op, old, v):
    if op == '=': return v
    if op == '+=': return old + v
    if op == '-=': return old - v
    if op == '*=': return old * v
    if op == '/=': return old / v
    raise ValueError(op)

class Write:
    """one statement  A(axes) op rhs.   rhs: ('scalar',) | ('lit', value) | ('tensor', 'own'|'map') | ('slice', shape_b, axes_b) |
    ('neg',) | ('add',) | ('addslice', shape_b, axes_b) | ('trans',) | ('transadd',)"""
    def __init__(s, axes, op, rhs):
        s.axes = tuple(axes); s.op = op; s.rhs = tuple(rhs)
    def tag(s):
        return '%s.%s.%s' % (slice_tag(s.axes), OPNAME[s.op], s.rhs[0])
    def is_float_arith(s, ty):
        if ty.kind != 'float': return False
        return s.op != '=' or s.rhs[0] in ('add', 'addslice', 'transadd')

def rhs_text(ty, w, ext, bname):
    """-> (declarations, C++ rhs expression, list of new buffers, list of rhs element values E in slice row-major order, either_div)"""
    T = ty.cpp; m = prod(ext); k = w.rhs[0]
    U = bname.upper()
    if k == 'scalar':
        b = Buf(bname, ty, 1, 'in')
        return '', '%s[0]' % bname, [b], [E.inp(b, 0)] * m
    if k == 'lit':
        return '', '%d' % w.rhs[1], [], [E.const(w.rhs[1], ty)] * m
    if k == 'tensor':
        b = Buf(bname, ty, m, 'in')
        decl = town(ty, ext, bname) if w.rhs[1] == 'own' else tmap(ty, ext, bname)
        return decl, U, [b], [E.inp(b, j) for j in range(m)]
    if k == 'slice':
        shape_b, axes_b = w.rhs[1], w.rhs[2]
        sb, extb = slice_sel(shape_b, axes_b)
        assert sb is not None and tuple(extb) == tuple(ext), (ext, extb, slice_cpp(axes_b))
        b = Buf(bname, ty, prod(shape_b), 'in')
        return town(ty, shape_b, bname), '%s(%s)' % (U, slice_cpp(axes_b)), [b], [E.inp(b, p) for (_, p) in slice_elems(shape_b, sb)]
    if k == 'neg':
        b = Buf(bname, ty, m, 'in')
        return town(ty, ext, bname), '-%s' % U, [b], [-E.inp(b, j) for j in range(m)]
    if k == 'add':
        b = Buf(bname, ty, m, 'in'); c = Buf(bname + 'x', ty, m, 'in')
        return town(ty, ext, bname) + ' ' + town(ty, ext, bname + 'x'), '%s + %sX' % (U, U), [b, c], [E.inp(b, j) + E.inp(c, j) for j in range(m)]
    if k == 'addslice':
        shape_b, axes_b = w.rhs[1], w.rhs[2]
        sb, extb = slice_sel(shape_b, axes_b)
        assert sb is not None and tuple(extb) == tuple(ext)
        b = Buf(bname, ty, prod(shape_b), 'in'); c = Buf(bname + 'x', ty, m, 'in')
        return (town(ty, shape_b, bname) + ' ' + town(ty, ext, bname + 'x'), '%s(%s) + %sX' % (U, slice_cpp(axes_b), U), [b, c],
                [E.inp(b, p) + E.inp(c, j) for (j, p) in slice_elems(shape_b, sb)])
    if k in ('trans', 'transadd'):
        assert len(ext) == 2
        r, cc = ext
        b = Buf(bname, ty, m, 'in')
        vals = [E.inp(b, j * r + i) for i in range(r) for j in range(cc)]     # trans(B)(i,j) == B(j,i), B is cc x r
        if k == 'trans':
            return town(ty, (cc, r), bname), 'trans(%s)' % U, [b], vals
        c = Buf(bname + 'x', ty, m, 'in')
        return (town(ty, (cc, r), bname) + ' ' + town(ty, ext, bname + 'x'), 'trans(%s) + %sX' % (U, U), [b, c],
                [v + E.inp(c, j) for j, v in enumerate(vals)])
    raise ValueError(k)

def write_case(fam, ty, targets, cfg, ident):
    """targets: list of (shape, dst, [Write,...]); dst in 'own' | 'map'.  Every target has its own inout buffer a<t>."""
    bufs = []; L = []; ens = []
    uf = False; nfl = 0
    for t, (shape, dst, writes) in enumerate(targets):
        n = prod(shape)
        an = 'a%d' % t; AN = an.upper()
        a = Buf(an, ty, n, 'inout'); bufs.append(a)
        L.append('    {')
        L.append('      ' + (town(ty, shape, an) if dst == 'own' else tmap(ty, shape, an, const=False)))
        state = [E.inp(a, p) for p in range(n)]
        either = {}
        for wi, w in enumerate(writes):
            sels, ext = slice_sel(shape, w.axes)
            assert sels is not None, 'inadmissible destination %s on %s' % (slice_cpp(w.axes), shape)
            decl, rhs, nb, vals = rhs_text(ty, w, ext, 'b%d%s' % (t, 'pqr'[wi]))
            bufs += nb
            if decl: L.append('      ' + decl)
            L.append('      %s(%s) %s %s;' % (AN, slice_cpp(w.axes), w.op, rhs))
            if w.is_float_arith(ty): uf = True
            for (j, p) in slice_elems(shape, sels):
                assert p not in either, 'either-or clause must be the last write to an element'
                if w.op == '/=' and w.rhs[0] == 'scalar' and ty.kind == 'float':
                    either[p] = (state[p] / vals[j], state[p] * (E.const(1, ty) / vals[j]))
                state[p] = apply_op(w.op, state[p], vals[j])
        if dst == 'own': L.append('      ' + copy_out(AN, an, n))
        L.append('    }')
        for p in range(n):
            if p in either:
                x, y = either[p]
                ens.append(('bool', '%s[%d] == old / s  or  old * (1/s)' % (an, p), E.post(a, p).same(x).bor(E.post(a, p).same(y))))
            else:
                ens.append((a, p, state[p]))
            nfl += state[p].count(('add', 'sub', 'mul', 'div')) if ty.kind == 'float' else 0
    mode = 'UF' if uf else 'SYM'
    if uf and cfg.pipe != 'P0': cfg = Cfg(cfg.isa, cfg.std, cfg.macros, 'P0', cfg.checks)
    shape0 = targets[0][0]
    cid = 'C05/%s/%s/%s/%s/%s' % (fam, ty.name, shape_tag(shape0), ident, cfg.tag())
    c = Case(cid, 'C05', '\n'.join(L), bufs, ens, mode, cfg)
    c.n_float_ops = nfl
    return c

def elem_assign_case(ty, shape, cfg, dst, op):
    """A(i,j,..) op v with symbolic indices (negative ones counted from the end)."""
    n = prod(shape)
    a = Buf('a', ty, n, 'inout'); v = Buf('v', ty, 1, 'in')
    scs = [Scalar(INAMES[k], INT, -shape[k], shape[k] - 1) for k in range(len(shape))]
    decl = town(ty, shape, 'a') if dst == 'own' else tmap(ty, shape, 'a', const=False)
    body = '    %s\n    A(%s) %s v[0];' % (decl, ','.join(s.name for s in scs), op)
    if dst == 'own': body += '\n    ' + copy_out('A', 'a', n)
    idx = sym_flat_index(shape, scs)
    ens = [(a, p, E.sel(idx.cmp('eq', p), apply_op(op, E.inp(a, p), E.inp(v, 0)), E.inp(a, p))) for p in range(n)]
    mode = 'UF' if (ty.kind == 'float' and op != '=') else 'SYM'
    if mode == 'UF': cfg = Cfg(cfg.isa, cfg.std, cfg.macros, 'P0', cfg.checks)
    return Case('C05/elem-%s/%s/%s/%s/%s' % (dst, ty.name, shape_tag(shape), OPNAME[op], cfg.tag()), 'C05', body, [a, v], ens, mode, cfg, scalars=scs)

# ----------------------------------------------------------------------------------------------
def ops_for(ty, rhs_kind):
    if ty.kind == 'int':
        return ['=', '+=', '-='] + (['*='] if rhs_kind == 'lit' else [])
    return ['=', '+=', '-=', '*=', '/=']

def other_slice(rng, ext, fixed=None):
    """a slice of another tensor B with a *different* range and the extents ext: -> (shape_b, axes_b)"""
    shape_b = []; axes = []
    for e in ext:
        st = rng.choice([1, 1, 2, 3]) if e > 1 else 1
        f = rng.choice([1, 2])
        span = (e - 1) * st + 1
        N = f + span + rng.choice([0, 1])
        l = min(N, f + span + rng.choice([0, st - 1]))
        kind = ('fseq' if rng.random() < 0.5 else 'seq') if fixed is None else ('fseq' if fixed else 'seq')
        axes.append(ax1(kind, f, l, st, N, rng.choice(ENCS)))
        shape_b.append(N)
    return tuple(shape_b), tuple(axes)

def rhs_for(rng, kind, ext, fixed=None):
    if kind == 'scalar': return ('scalar',)
    if kind == 'lit': return ('lit', 3)
    if kind == 'tensor': return ('tensor', rng.choice(['own', 'map']))
    if kind == 'slice': return ('slice',) + other_slice(rng, ext, fixed)
    if kind == 'addslice': return ('addslice',) + other_slice(rng, ext, fixed)
    return (kind,)

def op_groups(ty, ops, m):
    """split the operators so that a UF case stays below ~150 uninterpreted float operations."""
    if ty.kind == 'int': return [ops]
    per = max(1, 140 // max(m, 1))
    arith = [o for o in ops if o != '=']
    groups = [arith[i:i + per] for i in range(0, len(arith), per)]
    if '=' in ops:
        if groups: groups[0] = ['='] + groups[0]
        else: groups = [['=']]
    return groups

def accepted(dst, axes, rk):
    """API acceptance (front-end fact): a *dynamic* slice of a rank-1/rank-2 TensorMap only accepts scalar right-hand sides
    (tensor / expression right-hand sides do not compile: tensor_views_nd.h builds TensorViewExpr<Tensor<T,N>,1|2> from an array of seq)."""
    if dst == 'map' and len(axes) <= 2 and not all(a.is_fixed() for a in axes):
        return rk in ('scalar', 'lit')
    return True

def dest_cases(fam, ty, shape, axes, dst, cfg, rng, rhs_kinds, fixed=None, ident=None):
    """for one destination slice: one entry per right-hand-side kind holding all operators (one inout buffer per operator)."""
    out = []
    sels, ext = slice_sel(shape, axes)
    assert sels is not None, (shape, slice_cpp(axes))
    m = prod(ext)
    for rk in rhs_kinds:
        if rk in ('trans', 'transadd') and len(ext) != 2: continue
        if not accepted(dst, axes, rk): continue
        ops = ops_for(ty, rk)
        extra = 2 if rk in ('add', 'addslice', 'transadd') else 1
        for gi, grp in enumerate(op_groups(ty, ops, m * extra)):
            targets = [(shape, dst, [Write(axes, op, rhs_for(rng, rk, ext, fixed))]) for op in grp]
            out.append(write_case(fam, ty, targets, cfg, '%s.%s%s' % (ident or slice_tag(axes), rk, ('.g%d' % gi) if gi else '')))
    return out

RHS_ALL = ['scalar', 'lit', 'tensor', 'slice', 'neg', 'add', 'addslice', 'trans', 'transadd']

def cases(tier, seed):
    rng = random.Random(seed)
    out = []
    thorough = tier == 'thorough'
    TYPES = (INT, FLT, DBL)
    DST = ['own', 'map']
    for ni, isa in enumerate(isas(tier)):
        cfg = Cfg(isa)
        for ti, ty in enumerate(TYPES):
            out += dest_cases('seq1-own', ty, (8,), (seq(1, 7, 2),), 'own', cfg, rng, RHS_ALL)
            out += dest_cases('seq2-map', ty, (4, 5), (seq(1, -1), seq(0, 5, 2)), 'map', cfg, rng, RHS_ALL)
            out += dest_cases('fseq2-own', ty, (4, 5), (fseq(1, -1), fseq(0, 5, 2)), 'own', cfg, rng, RHS_ALL)
            out.append(elem_assign_case(ty, (3, 5), cfg, 'map', '='))
            out.append(elem_assign_case(ty, (3, 5), cfg, 'own', '+='))
    seen = set(); res = []
    for c in out:
        if c.cid not in seen: seen.add(c.cid); res.append(c)
    return res
