"""C05 -- writing through a slice changes exactly the selected elements and nothing else.

Contracts (from the property text):
  A(slice) op= rhs, op in = += -= *= /= :  for every selected element (j0..jk) of the slice (ranges read as in C04:
      element (j..) is A(first0+j0*step0, ...), extent ceil((last-first)/step), negative bounds last-relative)
          A_after[p_j] == A_before[p_j] op rhs[j]      (for `=`: == rhs[j])
      and for every other element of A      A_after[p] == A_before[p]   bit for bit;
  nothing outside A is written (assigns clause: only the destination buffer; exact-extent objects + pointer checks).
  Scalar element assignment A(i,..) = v / += v with *symbolic* indices obeys the same rule.
The destination is an 'inout' buffer, either wrapped by TensorMap (exact extent: a store that spills past the end of A
fails a pointer check, one that spills into unselected elements fails their `== old` clause) or copied into an owning
Tensor and copied back (every element of the owning tensor is observed).
Right-hand sides: scalar, tensor, slice of another tensor with a different range of equal extent, arithmetic expression,
expression needing evaluation (trans(B), trans(B)+C).  Sequences of 2-3 writes in one entry cover the `histories`
quantifier to that depth only.
Modes: int = += -= (and *= by a literal): SYM.  float/double: `=` of pure data movement SYM; compound operators and
arithmetic right-hand sides UF on P0 (the clause applies the same scalar operation to the same operands; for `/= scalar`
the documented reciprocal form x*(1/s) is accepted as well as x/s).
"""
from units.common import *
from units.c04 import (Ax, seq, fseq, ALL, SALL, FIRST, LAST, FIXLAST, ix, fix, encode, slice_sel, slice_cpp, slice_tag, slice_elems,
                       shape_tag, triples, ENCS, ENC2, chunked, ax1, vsweep, lead_axis, rand_axis, covering_pairs, sym_flat_index, INAMES)

LEVEL_NOTE = ('per instantiation (destination shape and range tuple, operator, right-hand-side kind, type, destination kind owning Tensor / TensorMap, ISA, '
              'std, FASTOR_USE_VECTORISED_EXPR_ASSIGN on/off) the contract (selected == old op rhs, unselected == old, assigns only A) is proved for all '
              'element values; destination ranges are enumerated as in C04 (every rank-1 triple up to extent 4 quick / 8 thorough, rank-2 covering sets on 4x5, '
              'last-axis extents V-1, V, V+1, 2V(+1) per ISA, ranks 1-3, mixtures of seq/fseq/all/int/first/last/fix); all five operators for int '
              '(*= only by a literal, no /=: symbolic integer products are out of reach of SYM) and, for float/double, `=` in SYM and compound operators as '
              'uninterpreted functions (UF on P0) for destinations of at most 24 (float) / 12 (double) arithmetic operations -- larger float destinations are '
              'covered for `=` only, the addressing of the compound forms by the int cases of the same SIMD width; write sequences to depth 3.  '
              'Known defect (families seq2ms-own / fseq2ms-own): A(seq,seq) op= slice of a rank-2 TensorMap reads the right-hand side with eval(row,col) although '
              'the generic view means flat offset i+j.  Not covered because the API rejects them at compile time: tensor / expression right-hand sides on '
              'dynamic slices of rank-1/2 TensorMaps, TensorMap slice = TensorMap slice; int unary minus as right-hand side is left to C02')

def evidence_extra(tier):
    t = tier == 'thorough'
    return {'box': {
        'isas': isas(tier), 'std': ['c++14', 'c++17'] if t else ['c++14'], 'types': ['int', 'float', 'double'],
        'macros': ['(none)', VEA + ' (owning rank-1/2 destinations with step > 1)'],
        'operators': {'int': ['=', '+=', '-=', '*= literal'], 'float/double': ['=', '+=', '-=', '*=', '/=']},
        'rhs_kinds': ['scalar', 'literal', 'tensor (owning / TensorMap)', 'slice of another tensor (different range, equal extent)', 'slice of a TensorMap',
                      '-B (float types)', 'B + C', 'B(slice) + C', 'trans(B) (needs evaluation)', 'trans(B) + C (needs evaluation)'],
        'rank1_exhaustive_extent': 8 if t else 4, 'rank2_covering': '4x5',
        'simd_sweep': 'last-axis destination extent in {V-1, V, V+1, 2V, 2V+1}, steps {1,2,3}, ranks 1-3',
        'element_assignment': 'A(i,..) op v with symbolic indices in [-extent, extent-1], ranks 1-3(4)',
        'histories': '2-3 writes to one tensor per entry (random ranges / operators / right-hand sides)',
        'uf_budget': {'applications_per_case': UF_BUDGET, 'largest_single_write': UF_MAX_TARGET, 'double_weight': 2},
        'dynamic_ranges': 'enumerated (bounded by the extents above), not symbolic'}}

OPNAME = {'=': 'set', '+=': 'add', '-=': 'sub', '*=': 'mul', '/=': 'div'}
VEA = 'FASTOR_USE_VECTORISED_EXPR_ASSIGN'

def apply_op(op, old, v):
    if op == '=': return v
    if op == '+=': return old + v
    if op == '-=': return old - v
    if op == '*=': return old * v
    if op == '/=': return old / v
    raise ValueError(op)

class Write:
    """one statement  A(axes) op rhs.   rhs: ('scalar',) | ('lit', value) | ('tensor', 'own'|'map') | ('slice', shape_b, axes_b) |
    ('neg',) | ('add',) | ('addslice', shape_b, axes_b) | ('trans',) | ('transadd',)"""
    def __init__(s, axes, op, rhs):
        s.axes = tuple(axes); s.op = op; s.rhs = tuple(rhs)
    def tag(s):
        return '%s.%s.%s' % (slice_tag(s.axes), OPNAME[s.op], s.rhs[0])
    def is_float_arith(s, ty):
        if ty.kind != 'float': return False
        return s.op != '=' or s.rhs[0] in ('add', 'addslice', 'transadd')

class Pool:
    """all right-hand-side data of an entry lives in one 'in' buffer b, all destinations in one 'inout' buffer a
    (few contract objects keep the DFCC instrumentation small); every operand is an exact sub-range at its own offset."""
    def __init__(s): s.n = 0
    def take(s, k):
        o = s.n; s.n += k; return o

def tdecl(ty, shape, var, ptr, kind='own'):
    if kind == 'own':
        # owning tensor filled by a plain element loop (the Tensor(const T*) constructor goes through std::copy -> memmove with a
        # length that is not a constant on pipeline P0; CBMC's byte-level memmove model is slow and imprecise for offset sources)
        return 'Tensor<%s,%s> %s; for (int i_ = 0; i_ < %d; ++i_) %s.data()[i_] = (%s)[i_];' % (ty.cpp, dims(shape), var, prod(shape), var, ptr)
    return 'TensorMap<%s,%s> %s(const_cast<%s*>(%s));' % (ty.cpp, dims(shape), var, ty.cpp, ptr)

def rhs_text(ty, w, ext, var, pool, b):
    """-> (declarations, C++ rhs expression, list of rhs element values E in slice row-major order)"""
    m = prod(ext); k = w.rhs[0]
    def operand(shape, v, kind='own'):
        o = pool.take(prod(shape))
        return tdecl(ty, shape, v, 'b + %d' % o, kind), o
    if k == 'scalar':
        o = pool.take(1)
        return '', 'b[%d]' % o, [E.inp(b, o)] * m
    if k == 'lit':
        # literal of the element type (an int literal on a float tensor is converted at run time or folded by the compiler
        # depending on the view type: not a stable uninterpreted term)
        lit = '%d' % w.rhs[1] if ty.kind == 'int' else ('%d.0f' % w.rhs[1] if ty.bits == 32 else '%d.0' % w.rhs[1])
        return '', lit, [E.const(w.rhs[1], ty)] * m
    if k == 'tensor':
        d, o = operand(ext, var, w.rhs[1])
        return d, var, [E.inp(b, o + j) for j in range(m)]
    if k == 'slice':
        shape_b, axes_b = w.rhs[1], w.rhs[2]
        sb, extb = slice_sel(shape_b, axes_b)
        assert sb is not None and tuple(extb) == tuple(ext), (ext, extb, slice_cpp(axes_b))
        d, o = operand(shape_b, var)
        return d, '%s(%s)' % (var, slice_cpp(axes_b)), [E.inp(b, o + p) for (_, p) in slice_elems(shape_b, sb)]
    if k == 'mslice':     # slice of a TensorMap (generic view) as right-hand side
        shape_b, axes_b = w.rhs[1], w.rhs[2]
        sb, extb = slice_sel(shape_b, axes_b)
        assert sb is not None and tuple(extb) == tuple(ext), (ext, extb, slice_cpp(axes_b))
        d, o = operand(shape_b, var, 'map')
        return d, '%s(%s)' % (var, slice_cpp(axes_b)), [E.inp(b, o + p) for (_, p) in slice_elems(shape_b, sb)]
    if k == 'neg':
        d, o = operand(ext, var)
        return d, '-%s' % var, [-E.inp(b, o + j) for j in range(m)]
    if k == 'add':
        d, o = operand(ext, var); d2, o2 = operand(ext, var + 'x')
        return d + ' ' + d2, '%s + %sx' % (var, var), [E.inp(b, o + j) + E.inp(b, o2 + j) for j in range(m)]
    if k == 'addslice':
        shape_b, axes_b = w.rhs[1], w.rhs[2]
        sb, extb = slice_sel(shape_b, axes_b)
        assert sb is not None and tuple(extb) == tuple(ext)
        d, o = operand(shape_b, var); d2, o2 = operand(ext, var + 'x')
        return (d + ' ' + d2, '%s(%s) + %sx' % (var, slice_cpp(axes_b), var),
                [E.inp(b, o + p) + E.inp(b, o2 + j) for (j, p) in slice_elems(shape_b, sb)])
    if k in ('trans', 'transadd'):
        assert len(ext) == 2
        r, cc = ext
        d, o = operand((cc, r), var)
        vals = [E.inp(b, o + j * r + i) for i in range(r) for j in range(cc)]     # trans(B)(i,j) == B(j,i), B is cc x r
        if k == 'trans':
            return d, 'trans(%s)' % var, vals
        d2, o2 = operand(ext, var + 'x')
        return d + ' ' + d2, 'trans(%s) + %sx' % (var, var), [v + E.inp(b, o2 + j) for j, v in enumerate(vals)]
    raise ValueError(k)

def write_case(fam, ty, targets, cfg, ident):
    """targets: list of (shape, dst, [Write,...]); dst in 'own' | 'map'.  Target t occupies its own sub-range of the inout buffer a
    (the neighbouring sub-ranges act as guard regions: every element of a has a clause)."""
    pool = Pool()
    ntot = sum(prod(shape) for (shape, _, _) in targets)
    a = Buf('a', ty, ntot, 'inout')
    b = Buf('b', ty, 1, 'in')       # size fixed below
    L = []; ens = []
    uf = False
    aoff = 0
    for t, (shape, dst, writes) in enumerate(targets):
        n = prod(shape)
        AN = 'A%d' % t
        L.append('    {')
        L.append('      ' + (tdecl(ty, shape, AN, 'a + %d' % aoff) if dst == 'own' else 'TensorMap<%s,%s> %s(a + %d);' % (ty.cpp, dims(shape), AN, aoff)))
        state = [E.inp(a, aoff + p) for p in range(n)]
        either = {}
        for wi, w in enumerate(writes):
            sels, ext = slice_sel(shape, w.axes)
            assert sels is not None, 'inadmissible destination %s on %s' % (slice_cpp(w.axes), shape)
            decl, rhs, vals = rhs_text(ty, w, ext, 'B%d%s' % (t, 'pqr'[wi]), pool, b)
            if decl: L.append('      ' + decl)
            L.append('      %s(%s) %s %s;' % (AN, slice_cpp(w.axes), w.op, rhs))
            if w.is_float_arith(ty): uf = True
            for (j, p) in slice_elems(shape, sels):
                assert p not in either, 'either-or clause must be the last write to an element'
                if w.op == '/=' and w.rhs[0] == 'scalar' and ty.kind == 'float':
                    either[p] = (state[p] / vals[j], state[p] * (E.const(1, ty) / vals[j]))
                state[p] = apply_op(w.op, state[p], vals[j])
        if dst == 'own': L.append('      for (int i_ = 0; i_ < %d; ++i_) a[%d + i_] = %s.data()[i_];' % (n, aoff, AN))
        L.append('    }')
        for p in range(n):
            if p in either:
                x, y = either[p]
                ens.append(('bool', 'a[%d] == old / s  or  old * (1/s)' % (aoff + p), E.post(a, aoff + p).same(x).bor(E.post(a, aoff + p).same(y))))
            else:
                ens.append((a, aoff + p, state[p]))
        aoff += n
    b.n = max(pool.n, 1)
    mode = 'UF' if uf else 'SYM'
    if uf and cfg.pipe != 'P0': cfg = Cfg(cfg.isa, cfg.std, cfg.macros, 'P0', cfg.checks)
    shape0 = targets[0][0]
    cid = 'C05/%s/%s/%s/%s/%s' % (fam, ty.name, shape_tag(shape0), ident, cfg.tag())
    return Case(cid, 'C05', '\n'.join(L), [a, b], ens, mode, cfg)

def elem_assign_case(ty, shape, cfg, dst, op):
    """A(i,j,..) op v with symbolic indices (negative ones counted from the end)."""
    n = prod(shape)
    a = Buf('a', ty, n, 'inout'); v = Buf('v', ty, 1, 'in')
    scs = [Scalar(INAMES[k], INT, -shape[k], shape[k] - 1) for k in range(len(shape))]
    decl = town(ty, shape, 'a') if dst == 'own' else tmap(ty, shape, 'a', const=False)
    body = '    %s\n    A(%s) %s v[0];' % (decl, ','.join(s.name for s in scs), op)
    if dst == 'own': body += '\n    ' + copy_out('A', 'a', n)
    idx = sym_flat_index(shape, scs)
    ens = [(a, p, E.sel(idx.cmp('eq', p), apply_op(op, E.inp(a, p), E.inp(v, 0)), E.inp(a, p))) for p in range(n)]
    mode = 'UF' if (ty.kind == 'float' and op != '=') else 'SYM'
    if mode == 'UF': cfg = Cfg(cfg.isa, cfg.std, cfg.macros, 'P0', cfg.checks)
    return Case('C05/elem-%s/%s/%s/%s/%s' % (dst, ty.name, shape_tag(shape), OPNAME[op], cfg.tag()), 'C05', body, [a, v], ens, mode, cfg, scalars=scs)

# ----------------------------------------------------------------------------------------------
def ops_for(ty, rhs_kind):
    if ty.kind == 'int':
        return ['=', '+=', '-='] + (['*='] if rhs_kind == 'lit' else [])
    if rhs_kind == 'lit': return ['=', '+=', '-=', '*=']      # x /= literal is x * (1/literal) with a compiler-folded reciprocal: left out
    return ['=', '+=', '-=', '*=', '/=']

def other_slice(rng, ext, fixed=None):
    """a slice of another tensor B with a *different* range and the extents ext: -> (shape_b, axes_b)"""
    shape_b = []; axes = []
    for e in ext:
        st = rng.choice([1, 1, 2, 3]) if e > 1 else 1
        f = rng.choice([1, 2])
        span = (e - 1) * st + 1
        N = f + span + rng.choice([0, 1])
        l = min(N, f + span + rng.choice([0, st - 1]))
        kind = ('fseq' if rng.random() < 0.5 else 'seq') if fixed is None else ('fseq' if fixed else 'seq')
        axes.append(ax1(kind, f, l, st, N, rng.choice(ENCS)))
        shape_b.append(N)
    return tuple(shape_b), tuple(axes)

def rhs_for(rng, kind, ext, fixed=None):
    if kind == 'scalar': return ('scalar',)
    if kind == 'lit': return ('lit', 3)
    if kind == 'tensor': return ('tensor', rng.choice(['own', 'map']))
    if kind == 'slice': return ('slice',) + other_slice(rng, ext, fixed)
    if kind == 'mslice': return ('mslice',) + other_slice(rng, ext, fixed)
    if kind == 'addslice': return ('addslice',) + other_slice(rng, ext, fixed)
    return (kind,)

UF_BUDGET = 28      # uninterpreted float applications per case on the code side (the clause side doubles it; Ackermann is quadratic)
UF_MAX_TARGET = 24  # a single float arithmetic write with more applications than this is not decidable in the time budget: left out
MOVE_KINDS = ('scalar', 'lit', 'tensor', 'slice', 'mslice', 'neg', 'trans')

def target_cost(ty, shape, w):
    """float operations one write executes (selected elements x operations per element)."""
    if ty.kind != 'float': return 0
    sels, ext = slice_sel(shape, w.axes)
    m = prod(ext)
    per = (0 if w.op == '=' else 1) + (1 if w.rhs[0] in ('add', 'addslice', 'transadd') else 0)
    return m * per * (2 if ty.bits == 64 else 1)        # 64-bit uninterpreted applications cost about twice as much

EL_BUDGET = 260     # elements of the inout buffer per entry (keeps the DFCC-instrumented program inside its time budget)

def split_by_size(groups):
    out = []
    for g in groups:
        cur = []; n = 0
        for t in g:
            k = prod(t[0])
            if cur and n + k > EL_BUDGET:
                out.append(cur); cur = []; n = 0
            cur.append(t); n += k
        if cur: out.append(cur)
    return out

def split_targets(ty, targets):
    return split_by_size(split_targets_by_mode(ty, targets))

def split_targets_by_mode(ty, targets):
    """float: pure data movement (`=` of a movement right-hand side) stays SYM in its own entry; arithmetic targets are packed
    into UF entries below the budget.  int: one entry."""
    if ty.kind != 'float': return [targets]
    sym = [t for t in targets if all(not w.is_float_arith(ty) for w in t[2])]
    uf = [t for t in targets if t not in sym and sum(target_cost(ty, t[0], w) for w in t[2]) <= UF_MAX_TARGET]
    out = [sym] if sym else []
    cur = []; cost = 0
    for t in uf:
        c = sum(target_cost(ty, t[0], w) for w in t[2])
        if cur and cost + c > UF_BUDGET:
            out.append(cur); cur = []; cost = 0
        cur.append(t); cost += c
    if cur: out.append(cur)
    return out

def pick_ops(ty, ops, k, nkeep):
    """float: `=` plus nkeep of the compound operators (rotating with k); nkeep None or int type: all operators."""
    if ty.kind == 'int' or nkeep is None: return ops
    comp = [o for o in ops if o != '=']
    keep = [comp[(k + q) % len(comp)] for q in range(min(nkeep, len(comp)))] if comp else []
    return [o for o in ops if o == '=' or o in keep]

RHS_ALL = ['scalar', 'lit', 'tensor', 'slice', 'neg', 'add', 'addslice', 'trans', 'transadd']

def rhs_ok(ty, rk):
    """integer unary minus belongs to the element-wise layer (property C02; its SIMD negate was defective when this check was written);
    it is not a view matter, so int destinations do not use it as a right-hand side."""
    return not (ty.kind == 'int' and rk == 'neg')

def accepted(dst, axes, rk):
    """API acceptance (front-end fact): a *dynamic* slice of a rank-1/rank-2 TensorMap only accepts scalar right-hand sides
    (tensor / expression right-hand sides do not compile: tensor_views_nd.h builds TensorViewExpr<Tensor<T,N>,1|2> from an array of seq)."""
    if dst == 'map' and len(axes) <= 2 and not all(a.is_fixed() for a in axes):
        return rk in ('scalar', 'lit')
    return True

def dest_cases(fam, ty, shape, axes, dst, cfg, rng, rhs_kinds, fixed=None, ident=None, nkeep=None, rot=0):
    """for one destination slice: per right-hand-side kind, all operators (one sub-range of the inout buffer per operator)."""
    out = []
    sels, ext = slice_sel(shape, axes)
    assert sels is not None, (shape, slice_cpp(axes))
    for ri, rk in enumerate(rhs_kinds):
        if rk in ('trans', 'transadd') and len(ext) != 2: continue
        if not accepted(dst, axes, rk) or not rhs_ok(ty, rk): continue
        ops = pick_ops(ty, ops_for(ty, rk), rot + ri, nkeep)
        targets = [(shape, dst, [Write(axes, op, rhs_for(rng, rk, ext, fixed))]) for op in ops]
        for gi, grp in enumerate(split_targets(ty, targets)):
            out.append(write_case(fam, ty, grp, cfg, '%s.%s%s' % (ident or slice_tag(axes), rk, ('.g%d' % gi) if gi else '')))
    return out

RHS_1D = ['scalar', 'tensor', 'slice', 'add', 'lit', 'neg', 'addslice']

def multi_dest_cases(fam, ty, shape, dests, dst, cfg, rng, rhs_cycle, per, ident, fixed=None, nkeep=None):
    """several destination slices of the same shape per entry, every operator on each (own sub-range of the inout buffer);
    the right-hand-side kind rotates over the destinations."""
    out = []
    groups = chunked(dests, per)
    for gi, grp in enumerate(groups):
        targets = []
        for di, axes in enumerate(grp):
            sels, ext = slice_sel(shape, axes)
            assert sels is not None, (shape, slice_cpp(axes))
            cands = [rk for rk in rhs_cycle if accepted(dst, axes, rk) and rhs_ok(ty, rk) and not (rk in ('trans', 'transadd') and len(ext) != 2)]
            rk = cands[(gi * per + di) % len(cands)]
            for op in pick_ops(ty, ops_for(ty, rk), gi * per + di, nkeep):
                targets.append((shape, dst, [Write(axes, op, rhs_for(rng, rk, ext, fixed))]))
        for ci, ch in enumerate(split_targets(ty, targets)):
            out.append(write_case(fam, ty, ch, cfg, '%s%d%s' % (ident, gi, ('.%d' % ci) if ci else '')))
    return out

def random_write(rng, ty, shape, dst, kinds, allow_div=True):
    while True:
        axes = tuple(rand_axis(rng, kinds, N) for N in shape)
        if all(a.is_integer() for a in axes): continue
        sels, ext = slice_sel(shape, axes)
        if sels is None: continue
        break
    cands = [rk for rk in RHS_ALL if accepted(dst, axes, rk) and rhs_ok(ty, rk) and not (rk in ('trans', 'transadd') and len(ext) != 2)]
    rk = rng.choice(cands)
    ops = ops_for(ty, rk)
    if not allow_div: ops = [o for o in ops if not (o == '/=' and rk == 'scalar')]
    w = Write(axes, rng.choice(ops), rhs_for(rng, rk, ext, None))
    if target_cost(ty, shape, w) > UF_MAX_TARGET: return random_write(rng, ty, shape, dst, kinds, allow_div)
    return w

def cases(tier, seed):
    rng = random.Random(seed)
    out = []
    thorough = tier == 'thorough'
    TYPES = (INT, FLT, DBL)
    DST = ['own', 'map']
    for ni, isa in enumerate(isas(tier)):
      for std in (['c++14', 'c++17'] if thorough else ['c++14']):
        cfg = Cfg(isa, std)
        cfv = Cfg(isa, std, macros=(VEA,))
        main = std == 'c++14'
        dense = thorough and main                      # thorough, C++14: the dense box; thorough, C++17: the quick box again
        wide = dense and isa in ('sse2', 'avx2')       # the two ISAs whose widths (2,4,8) are straddled by small extents: densest
        nkeep = 1 if not wide else 2
        # ---------------- scalar element assignment with symbolic indices ----------------
        for ti, ty in enumerate(TYPES):
            for si, shape in enumerate([(7,), (3, 5), (2, 3, 4)] + ([(2, 3, 2, 3)] if dense else [])):
                for di, dst in enumerate(DST):
                    ops = ['=', '+=', '-='] if ty.kind == 'int' else ['=', '+=', '*=', '/=']
                    if not dense:
                        if (si + di + ti + ni) % 2: continue
                        ops = [ops[(si + di + ti + ni) % len(ops)]]
                    for op in ops:
                        if ty.kind == 'float' and op != '=' and prod(shape) > 15: continue     # one uninterpreted application per element in the clause
                        out.append(elem_assign_case(ty, shape, cfg, dst, op))
        # ---------------- rank 1: every (first,last,step) triple as destination ----------------
        for N in range(1, 9):
            for kind in ('seq', 'fseq'):
                if dense:
                    if kind == 'fseq' and N > 6: continue
                    tys = TYPES if (wide and N <= 6) else [TYPES[(N + ni) % 3]]
                else:
                    # quick: int for every N <= 4 (3 for fseq), one float type (rotating) for N <= 3 (2 for fseq)
                    if N > (4 if kind == 'seq' else 3): continue
                    tys = [INT] + ([TYPES[1 + (N + ni) % 2]] if N <= (3 if kind == 'seq' else 2) else [])
                for ty in tys:
                    ti = TYPES.index(ty)
                    ts = triples(N)
                    for dst in (DST if (dense and N in (4, 6)) or (N == 3 and kind == 'seq' and ty is INT) else ['own']):
                        encs = ENCS if (wide and dst == 'own' and kind == 'seq' and ty is INT) else None
                        dests = []
                        for n, (f, l, st) in enumerate(ts):
                            for enc in (encs or [ENCS[(n + ti + N) % 3]]):
                                dests.append((ax1(kind, f, l, st, N, enc),))
                        out += multi_dest_cases('%s1-%s' % (kind, dst), ty, (N,), dests, dst, cfg, rng, RHS_1D, 5 if kind == 'seq' else 3, 'x', nkeep=1 if not wide else 2)
        # ---------------- tall rank-2 destinations: more rows than the vector width, one or two contiguous columns ----------------
        # (row count and column count play different roles in the vector/remainder split of the 2-D views)
        if main:
            for ti, ty in enumerate(TYPES):
                V = vec_elems(isa, ty)
                for (R, Cc) in ([(V + 1, 1), (2 * V, 2)] if V <= 8 else [(V + 1, 1)]):
                    Cw = Cc + 2
                    for kind in ('seq', 'fseq'):
                        axes = (ax1(kind, 0, R, 1, R, 'pos'), ax1(kind, 1, 1 + Cc, 1, Cw, 'pos'))
                        out += dest_cases('%s2tall-own' % kind, ty, (R, Cw), axes, 'own', cfg, rng, ['tensor'] if not dense else ['tensor', 'scalar', 'add'], ident='r%d.c%d' % (R, Cc), nkeep=None)
        for ti, ty in enumerate(TYPES):
            V = vec_elems(isa, ty)
            # ---------------- destinations whose last-axis extent straddles the SIMD width ----------------
            es = sorted(({V - 1, V, V + 1, 2 * V + 1} if ty.kind == 'int' else {V - 1, V, V + 1}) - {0}) if not dense else sorted({V - 1, V, V + 1, 2 * V, 2 * V + 1} - {0})
            sweep = vsweep(V, es=es, ss=(1, 2) if not dense else (1, 2, 3), fs=(0, 1), both=False, rot=ti)
            for n, (N, e, s, sl) in enumerate(sweep):
                for ki, kind in enumerate(('seq', 'fseq')):
                    if not dense and (n + ki + ti + ni) % 2: continue      # the two vocabularies alternate over the sweep
                    fixed = kind == 'fseq'
                    (f, l, enc) = sl[(n + ki) % len(sl)]
                    last_ax = ax1(kind, f, l, s, N, enc)
                    rot = n + ti + ni
                    do1 = dense or (n // 2 + ki + ti) % 2 == 0      # quick: ranks 1 and 2 alternate over the sweep
                    # rank 1
                    for dst in ((DST if wide else [DST[(n // 2 + ti) % 2]]) if do1 else []):
                        kinds = [RHS_1D[(n + 2 * ti + ni + q) % len(RHS_1D)] for q in range(2 if wide else 1)]
                        out += dest_cases('%s1v-%s' % (kind, dst), ty, (N,), (last_ax,), dst, cfg, rng, kinds, ident='e%d.s%d' % (e, s), nkeep=nkeep, rot=rot)
                        if s > 1 and e >= V and (dst == 'own' or not dense):
                            out += dest_cases('%s1v-own' % kind, ty, (N,), (last_ax,), 'own', cfv, rng, kinds, ident='e%d.s%d' % (e, s), nkeep=nkeep, rot=rot + 1)
                    # rank 2
                    if not dense and (e > 17 or do1): continue
                    lead = lead_axis(fixed, 3, n + ki + ti)
                    axes2 = (lead, last_ax)
                    for dst in (DST if wide else [DST[(n // 2 + ti + 1) % 2]]):
                        kinds = [RHS_ALL[(n + 4 * ti + 2 * ni + 3 * q) % len(RHS_ALL)] for q in range(2 if wide else 1)]
                        out += dest_cases('%s2v-%s' % (kind, dst), ty, (3, N), axes2, dst, cfg, rng, kinds, ident='e%d.s%d' % (e, s), nkeep=nkeep, rot=rot)
                        if s > 1 and e >= V and (dst == 'own' or not dense):
                            out += dest_cases('%s2v-own' % kind, ty, (3, N), axes2, 'own', cfv, rng, kinds, ident='e%d.s%d' % (e, s), nkeep=nkeep, rot=rot + 1)
                    # rank 3 (generic nD views)
                    if (e == V and s == 1 and e <= 8) or (dense and e <= 9):
                        axes3 = (lead_axis(fixed, 3, n + ti + 1, allow_int=True), lead_axis(fixed, 3, n + 2 * ki + ni, allow_int=False), last_ax)
                        dst = DST[(n + ki) % 2]
                        kinds = [k for k in RHS_ALL if k not in ('trans', 'transadd')]
                        kinds = [kinds[(n + ki + ti + ni + 2 * q) % len(kinds)] for q in range(2 if wide else 1)]
                        out += dest_cases('%sNv-%s' % (kind, dst), ty, (3, 3, N), axes3, dst, cfg, rng, kinds, ident='e%d.s%d' % (e, s), nkeep=nkeep, rot=rot)
            # ---------------- rank 2: covering set of (triple x triple) destinations ----------------
            shape = (4, 5)
            allpairs = covering_pairs(shape[0], shape[1], rng)
            for ki, kind in enumerate(('seq', 'fseq')):
                if not dense and (ti + ni + ki) % 3 == 2: continue        # quick: two of the three element types per ISA and vocabulary
                if dense:
                    pairs = allpairs if (wide or ti == ni % 3) else sample(rng, allpairs, 18)
                    if kind == 'fseq': pairs = sample(rng, pairs, 24)
                else:
                    pairs = sample(rng, allpairs, (12 if ti == ni % 3 else 4) if kind == 'seq' else 4)
                for dst in DST:
                    sel = pairs if dst == 'own' else sample(rng, pairs, 2 if not dense else 12)
                    dests = []
                    for n, (t0, t1) in enumerate(sel):
                        e0, e1 = ENC2[(n + ti) % len(ENC2)]
                        dests.append((ax1(kind, t0[0], t0[1], t0[2], shape[0], e0), ax1(kind, t1[0], t1[1], t1[2], shape[1], e1)))
                    out += multi_dest_cases('%s2-%s' % (kind, dst), ty, shape, dests, dst, cfg, rng, RHS_ALL, 3, 'c', nkeep=1 if not wide else 2)
                    if dst == 'own':
                        strided = [d for d in dests if d[1].st > 1][:2 if not dense else 12]
                        out += multi_dest_cases('%s2-%s' % (kind, dst), ty, shape, strided, dst, cfv, rng, RHS_ALL, 3, 'c', nkeep=1 if not wide else 2)
            # ---------------- mixed argument kinds (rank 2 overloads, rank 3/4 generic views) ----------------
            for shape in ([(4, 5), (2, 3, 4)] if not dense else [(4, 5), (2, 3, 4), (2, 2, 3, 3)]):
                for di, dst in enumerate(DST):
                    if not dense and (di + ti + ni + len(shape)) % 2: continue
                    k = 1 if not dense else 8
                    for q in range(k):
                        w = random_write(rng, ty, shape, dst, ['seq', 'fseq', 'all', 'int', 'last', 'first', 'fix', 'fixlast'])
                        out.append(write_case('mixed%d-%s' % (len(shape), dst), ty, [(shape, dst, [w])], cfg, 'm%d.%s' % (q, w.tag())))
            # ---------------- right-hand side = slice of a TensorMap (generic view) ----------------
            # rank 2 destinations in an owning tensor use the 2-D view whose evaluator calls rhs.eval(row, col); the generic view
            # reads eval(i,j) as flat offset i+j: known defect, kept in families of its own (*2ms-own); ranks 1 and 3 are unaffected
            if ty.kind == 'int' or dense or ti == 1 + ni % 2:
                for ki, kind in enumerate(('seq', 'fseq')):
                    if not dense and (ki + ti + ni) % 2: continue
                    fixed = kind == 'fseq'
                    e = min(V + 1, 5)
                    d1 = (ax1(kind, 1, 1 + 2 * e - 1, 2, 2 * e + 1, 'nl'),)
                    d2 = (ax1(kind, 0, 3, 2, 3, 'pos'), ax1(kind, 1, 1 + e, 1, e + 2, 'nl'))
                    d3 = (lead_axis(fixed, 3, ki + ti, allow_int=False), lead_axis(fixed, 3, ki + ni + 1, allow_int=False), ax1(kind, 0, e, 1, e + 1, 'pos'))
                    out += dest_cases('%s1ms-own' % kind, ty, (2 * e + 1,), d1, 'own', cfg, rng, ['mslice'], fixed=False, ident='e%d' % e, nkeep=1, rot=ti)
                    out += dest_cases('%s2ms-own' % kind, ty, (3, e + 2), d2, 'own', cfg, rng, ['mslice'], fixed=False, ident='e%d' % e, nkeep=1, rot=ti)
                    out += dest_cases('%sNms-own' % kind, ty, (3, 3, e + 1), d3, 'own', cfg, rng, ['mslice'], fixed=False, ident='e%d' % e, nkeep=1, rot=ti)
            # ---------------- short histories: 2-3 writes to the same tensor in one entry ----------------
            for hi, shape in enumerate([(9,), (4, 5), (2, 3, 4)]):
                for di, dst in enumerate(DST):
                    if not dense and (hi + di + ti + ni) % 2: continue
                    for q in range(1 if not dense else 6):
                        nw = 2 + (q + ti) % 2
                        while True:
                            ws = [random_write(rng, ty, shape, dst, ['seq', 'fseq', 'all'] if len(shape) < 3 else ['seq', 'fseq', 'all', 'int', 'fix'], allow_div=False) for _ in range(nw)]
                            if sum(target_cost(ty, shape, w) for w in ws) <= UF_MAX_TARGET: break
                        out.append(write_case('history%d-%s' % (len(shape), dst), ty, [(shape, dst, ws)], cfg, 'h%d.%s' % (q, '+'.join(OPNAME[w.op] + '.' + w.rhs[0] for w in ws))))
    seen = set(); res = []
    for c in out:
        if c.cid not in seen: seen.add(c.cid); res.append(c)
    return res
