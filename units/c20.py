"""C20 -- wrapped/reshaped tensors are true aliases; layout conversions are exact inverses.

Contracts (from the property text), mode SYM (data movement; integer + - with real adders), all element values symbolic:

  map-prog      TensorMap<T,shape> M(m + d) over a caller buffer at element offset d in 0..3 (the map is then unaligned for
                every vector width) and an owning Tensor O holding the same initial values; a program of 2-4 operations
                is applied alternately to M and to O.  ensures: the window m[d..d+n) and O both equal the values the
                operations *define* (computed here by a small interpreter of the operation semantics, not taken from
                the implementation), hence buffer == owning result; every buffer element outside the window keeps its
                old value (frame); the second operand buffer is never written.
  alias-prog    owning tensor A and a map R over it (reshape<...>(A), flatten(A), squeeze(A), TensorMap<T,...>(A)); operations
                applied alternately through A and through R; after every write through one name the whole storage is
                read through the *other* name (visibility both ways); final contents of A and of R equal the sequential
                semantics on the shared row-major storage.
  reshape / flatten / squeeze    for every same-size target shape of rank <= 3: extents of the map, map(i,j,k) reads flat
                element i*..+k of the source, a write through the map at a *symbolic* multi-index changes exactly that
                flat element of the source.
  tocolumnmajor(A)   element (i0..ik) of the row-major A lands at the column-major offset i0 + d0*(i1 + d1*(...)).
  torowmajor(A)      inverse: A holds column-major data, the result holds element (i0..ik) at the row-major offset.
  layout-roundtrip   torowmajor(tocolumnmajor(A)) == A and tocolumnmajor(torowmajor(A)) == A bit for bit.
  ctor-*        Tensor(ptr), Tensor(ptr, RowMajor), Tensor(std::array), initializer lists of rank 1-4: element k of the
                given sequence is stored at row-major offset k;  Tensor(ptr, ColumnMajor) / Tensor(std::array, ColumnMajor):
                tensor element (i0..ik) is the element at the column-major offset of the given data.
  map-assign-map     M = B for two maps of the same type copies the elements of B into M's buffer (what the statement does for
                owning tensors); B's buffer is not written and M keeps denoting its own buffer.
  reverse-map / reverse-own    X.reverse() through a map over m + d and on an owning tensor: element k becomes element n-1-k.
  map-view-assign    M(seq...) = <tensor>, M(seq...) += <tensor> through a map (compile-time acceptance + effect).  Generated for
                rank 3 only: for rank-1 and rank-2 maps the statement is rejected by the compiler on the current tree
                (tensor_views_nd.h constructs TensorViewExpr<Tensor<T,N[,M]>,DIMS>(tensor, std::array<seq>) but the 1D/2D
                specialisations only have (tensor, seq[, seq]) constructors); set C20_INCLUDE_REJECTED=1 to generate those cases.
The generic programs use neither `map = map` nor reverse() (both defective on the unchanged tree, kept in their own families).
Programs on float/double buffers use the data-movement operations only (assignment, fill, zeros/ones, scalar-index and view
writes); + and - appear in the int programs, where they are real 32/64-bit adders (element-wise float arithmetic is C02's subject).
Excluded: the std::vector constructor (std::vector allocates: the no-allocation stub of the harness would fire; the
constructor body is the same std::copy as the std::array one), stream output, "every misalignment" is the concrete set
d in {0,1,2,3} elements (4..24 bytes), not a symbolic byte offset.
"""
from units.common import *
# 64-bit integers as int64_t: on LP64 `long long` (vf.I64) is a different type and never reaches SIMDVector<int64_t,ABI>
L64 = Ty('int64', 'int64_t', 64, 'int')
import os
INCLUDE_REJECTED = bool(os.environ.get('C20_INCLUDE_REJECTED'))   # units the compiler rejects on the current tree (see map-view-assign)

LEVEL_NOTE = ('per instantiation (program / shape pair / type / offset / ISA / std): buffer contents after operations through a map == '
              'owning-tensor result == the sequential semantics of the operations, frame, visibility both ways; reshape/flatten/squeeze '
              'are views of the same row-major storage (symbolic write index); tocolumnmajor/torowmajor place elements at the '
              'column-/row-major offset and compose to the identity; constructors store row-major.  All element values symbolic '
              '(SYM); instantiations and programs enumerated / sampled; offsets d in {0..3} elements; std::vector constructor excluded.')

def shp(shape):
    return 'x'.join(map(str, shape)) if shape else 's'

def strides(shape):
    st = [1] * len(shape)
    for i in range(len(shape) - 2, -1, -1): st[i] = st[i + 1] * shape[i + 1]
    return st

def col_offset(shape, idx):
    o = 0; m = 1
    for s, i in zip(shape, idx):
        o += i * m; m *= s
    return o

def lit(ty, v):
    if ty.kind == 'float': return ('%d.0f' % v) if ty.bits == 32 else ('%d.0' % v)
    return str(v) if ty.bits == 32 else '%dLL' % v

# ----------------------------------------------------------------------------------------------
# operations: (C++ text on accessor X of shape `shape`, semantics on the flat row-major state)
# ----------------------------------------------------------------------------------------------
class Op:
    def __init__(s, name, text, sem, needs_b=False, arith=False):
        s.name = name; s.text = text; s.sem = sem; s.needs_b = needs_b; s.arith = arith

def make_ops(rng, ty, shape, bshape_ok=True):
    """candidate operations for an accessor of `shape` (n elements); B is a map of the same shape over buffer b."""
    n = prod(shape); r = len(shape); st = strides(shape)
    C = lambda v: E.const(v, ty)
    ops = []
    if bshape_ok:
        # (plain assignment takes the second operand as an owning tensor BT: `map = map` of the same type is the
        #  separate family map-assign-map)
        ops += [Op('assignB', lambda X: '%s = BT;' % X, lambda s, b: list(b), True),
                Op('assignE', lambda X: '%s = B + B;' % X, lambda s, b: [y + y for y in b], True, True),
                Op('addB', lambda X: '%s += B;' % X, lambda s, b: [x + y for x, y in zip(s, b)], True, True),
                Op('subB', lambda X: '%s -= B;' % X, lambda s, b: [x - y for x, y in zip(s, b)], True, True),
                Op('rsubB', lambda X: '%s = B - %s;' % (X, X), lambda s, b: [y - x for x, y in zip(s, b)], True, True),
                Op('addBB', lambda X: '%s += B + B;' % X, lambda s, b: [x + (y + y) for x, y in zip(s, b)], True, True)]
    c1 = rng.randint(2, 9); c2 = rng.randint(2, 9); c3 = rng.randint(2, 9)
    ops += [Op('adds%d' % c1, lambda X: '%s += %s;' % (X, lit(ty, c1)), lambda s, b: [x + C(c1) for x in s], False, True),
            Op('subs%d' % c2, lambda X: '%s -= %s;' % (X, lit(ty, c2)), lambda s, b: [x - C(c2) for x in s], False, True),
            Op('selfadd', lambda X: '%s += %s;' % (X, X), lambda s, b: [x + x for x in s], False, True),
            Op('selfsub', lambda X: '%s -= %s;' % (X, X), lambda s, b: [x - x for x in s], False, True),
            Op('fill%d' % c3, lambda X: '%s.fill(%s);' % (X, lit(ty, c3)), lambda s, b: [C(c3)] * len(s)),
            Op('zeros', lambda X: '%s.zeros();' % X, lambda s, b: [C(0)] * len(s)),
            Op('ones', lambda X: '%s.ones();' % X, lambda s, b: [C(1)] * len(s))]
    # (in-place reverse() is the separate family reverse-*)
    if ty.kind == 'int':
        c4 = rng.randint(0, 5)
        ops.append(Op('iota%d' % c4, lambda X: '%s.iota(%d);' % (X, c4), lambda s, b: [C(c4 + k) for k in range(len(s))]))
    # scalar indexing write
    idx = tuple(rng.randrange(d) for d in shape); c5 = rng.randint(10, 19)
    fi = flat(shape, idx)
    ops.append(Op('set' + ''.join(map(str, idx)), lambda X: '%s(%s) = %s;' % (X, ','.join(map(str, idx)), lit(ty, c5)),
                  lambda s, b: [C(c5) if k == fi else x for k, x in enumerate(s)]))
    # dynamic view: a range of the first axis, everything else `all`; scalar right-hand sides
    lo = rng.randrange(shape[0]); hi = rng.randint(lo + 1, shape[0]); c6 = rng.randint(20, 29)
    sel = set(k for k in range(n) if lo <= k // st[0] < hi)
    vtxt = 'seq(%d,%d)' % (lo, hi) + ''.join(',all' for _ in range(r - 1))
    ops.append(Op('vfill', lambda X: '%s(%s) = %s;' % (X, vtxt, lit(ty, c6)), lambda s, b: [C(c6) if k in sel else x for k, x in enumerate(s)]))
    ops.append(Op('vadd', lambda X: '%s(%s) += %s;' % (X, vtxt, lit(ty, c6)), lambda s, b: [x + C(c6) if k in sel else x for k, x in enumerate(s)], False, True))
    if r >= 2:
        # last-axis column with a stride on the first axis: strided scalar view write
        col = rng.randrange(shape[-1]); c7 = rng.randint(30, 39)
        sel2 = set(k for k in range(n) if k % shape[-1] == col)
        vt2 = ''.join('all,' for _ in range(r - 1)) + str(col)
        ops.append(Op('vcol', lambda X: '%s(%s) = %s;' % (X, vt2, lit(ty, c7)), lambda s, b: [C(c7) if k in sel2 else x for k, x in enumerate(s)]))
        # fixed (compile-time) view
        ftxt = 'fseq<%d,%d>()' % (lo, hi) + ''.join(',fall' for _ in range(r - 1))
        ops.append(Op('fvfill', lambda X: '%s(%s) = %s;' % (X, ftxt, lit(ty, c7)), lambda s, b: [C(c7) if k in sel else x for k, x in enumerate(s)]))
    return ops

HEAVY = ('selfadd', 'addBB', 'assignE', 'rsubB', 'selfmul', 'mulB')

def pick_program(rng, ty, shape, length, arith_ok, b_ok=True):
    """random program; at most two arithmetic operations and at most one of the 'heavy' ones (the compiler re-associates
    chains like x+x+x+x, and equivalence of re-associated 32-bit adder chains is not decided by the SAT back end)."""
    ops = [o for o in make_ops(rng, ty, shape, b_ok) if arith_ok or not o.arith]
    prog = []
    while len(prog) < length:
        o = rng.choice(ops)
        if o.arith and sum(1 for p in prog if p.arith) >= 2: continue
        if o.name in HEAVY and any(p.name in HEAVY for p in prog): continue
        prog.append(o)
    return prog

# ----------------------------------------------------------------------------------------------
# map-prog: map over buffer + d  versus owning tensor
# ----------------------------------------------------------------------------------------------
PAD = 3

def map_prog_case(ty, shape, d, prog, cfg, tag):
    n = prod(shape); e = (2 * d + 1) % 4
    m = Buf('m', ty, n + PAD, 'inout'); b = Buf('b', ty, n + PAD, 'in'); o = Buf('o', ty, n, 'out')
    T = ty.cpp; D = dims(shape)
    L = ['    TensorMap<%s,%s> M(m + %d); Tensor<%s,%s> O(m + %d);' % (T, D, d, T, D, d),
         '    TensorMap<%s,%s> B(const_cast<%s*>(b) + %d); Tensor<%s,%s> BT(b + %d);' % (T, D, T, e, T, D, e)]
    state = [E.inp(m, d + k) for k in range(n)]
    bel = [E.inp(b, e + k) for k in range(n)]
    for op in prog:
        L.append('    ' + op.text('M') + ' ' + op.text('O'))
        state = op.sem(state, bel)
    L.append('    ' + copy_out('O', 'o', n))
    ens = []
    for k in range(n + PAD):
        ens.append((m, k, state[k - d] if d <= k < d + n else E.inp(m, k)))
    for k in range(n):
        ens.append((o, k, state[k]))
    name = '+'.join(op.name for op in prog)
    return Case('C20/map-prog/%s/%s/d%d/%s%s/%s' % (ty.name, shp(shape), d, name, tag, cfg.tag()), 'C20', '\n'.join(L), [m, b, o], ens, 'SYM', cfg)

# ----------------------------------------------------------------------------------------------
# alias-prog: owning tensor and a map over it, operations alternate, reads through the other name
# ----------------------------------------------------------------------------------------------
def squeeze_shape(shape):
    return tuple(s for s in shape if s != 1)

def map_decl(how, ty, sshape, tshape):
    if how == 'reshape': return 'auto R = reshape<%s>(A);' % dims(tshape)
    if how == 'flatten': return 'auto R = flatten(A);'
    if how == 'squeeze': return 'auto R = squeeze(A);'
    if how == 'tmap': return 'TensorMap<%s,%s> R(A);' % (ty.cpp, dims(tshape))
    raise ValueError(how)

def alias_prog_case(ty, sshape, tshape, how, progA, progR, cfg, tag=''):
    """ops alternate A, R, A, R ...; after each op the storage is read through the other name into snapshot buffers."""
    n = prod(sshape)
    a = Buf('a', ty, n, 'in'); b = Buf('b', ty, n, 'in')
    steps = []
    for i in range(max(len(progA), len(progR))):
        if i < len(progA): steps.append(('A', progA[i]))
        if i < len(progR): steps.append(('R', progR[i]))
    snaps = [Buf('s%d' % i, ty, n, 'out') for i in range(len(steps))]
    fa = Buf('fa', ty, n, 'out'); fr = Buf('fr', ty, n, 'out')
    T = ty.cpp
    L = ['    %s %s' % (town(ty, sshape, 'a'), map_decl(how, ty, sshape, tshape)),
         '    static_assert(std::is_same<decltype(R), TensorMap<%s,%s>>::value, "type of the map");' % (T, dims(tshape))]
    state = [E.inp(a, k) for k in range(n)]
    bel = [E.inp(b, k) for k in range(n)]
    ens = []
    for i, (who, op) in enumerate(steps):
        shape_w = sshape if who == 'A' else tshape
        # the second operand has the shape of the accessor the operation goes through
        if op.needs_b:
            L.append('    { TensorMap<%s,%s> B(const_cast<%s*>(b)); Tensor<%s,%s> BT(b); %s }' % (T, dims(shape_w), T, T, dims(shape_w), op.text(who)))
        else:
            L.append('    ' + op.text(who))
        state = op.sem(state, bel)
        other = 'R' if who == 'A' else 'A'; oshape = tshape if who == 'A' else sshape
        L.append('    { Tensor<%s,%s> S_ = %s; %s }' % (T, dims(oshape), other, copy_out('S_', 's%d' % i, n)))
        for k in range(n): ens.append((snaps[i], k, state[k]))
    L.append('    ' + copy_out('A', 'fa', n) + ' { Tensor<%s,%s> S_ = R; %s }' % (T, dims(tshape), copy_out('S_', 'fr', n)))
    for k in range(n): ens.append((fa, k, state[k]))
    for k in range(n): ens.append((fr, k, state[k]))
    name = '+'.join('%s.%s' % (w, op.name) for w, op in steps)
    return Case('C20/alias-prog/%s/%s-%s-%s/%s%s/%s' % (ty.name, shp(sshape), how, shp(tshape), name, tag, cfg.tag()), 'C20', '\n'.join(L),
                [a, b] + snaps + [fa, fr], ens, 'SYM', cfg, pre='#include <type_traits>')

# ----------------------------------------------------------------------------------------------
# reshape / flatten / squeeze: extents, reads, symbolic-index write
# ----------------------------------------------------------------------------------------------
def factorizations(n, maxrank=3):
    """every shape of rank 1..maxrank (extents >= 1) with n elements."""
    out = set()
    divs = [f for f in range(1, n + 1) if n % f == 0]
    for r in range(1, maxrank + 1):
        for t in itertools.product(divs, repeat=r):
            if prod(t) == n: out.add(t)
    return sorted(out)

def view_case(ty, sshape, tshape, how, cfg):
    n = prod(sshape); r = len(tshape)
    a = Buf('a', ty, n, 'in'); c = Buf('c', ty, n, 'out'); o = Buf('o', ty, n, 'out'); dd = Buf('d', U64, max(r, 1), 'out')
    idx = [Scalar('i%d' % t, INT, 0, tshape[t] - 1) for t in range(r)]
    T = ty.cpp
    L = ['    %s %s' % (town(ty, sshape, 'a'), map_decl(how, ty, sshape, tshape)),
         '    static_assert(std::is_same<decltype(R), TensorMap<%s%s>>::value, "type of the map");' % (T, ''.join(',%d' % s for s in tshape)),
         '    { Tensor<%s%s> C_ = R; %s }' % (T, ''.join(',%d' % s for s in tshape), copy_out('C_', 'c', n))]
    if r:
        L.append('    for (int t_ = 0; t_ < %d; ++t_) d[t_] = R.dimension(t_);' % r)
        L.append('    R(%s) = %s;' % (','.join(s.name for s in idx), lit(ty, 77)))
    else:
        L.append('    d[0] = R.size(); R.data()[0] = %s;' % lit(ty, 77))
    L.append('    ' + copy_out('A', 'o', n))
    st = strides(tshape)
    fl = None
    for t in range(r):
        term = E.arg(idx[t]) * E.const(st[t], INT)
        fl = term if fl is None else fl + term
    ens = [(c, k, E.inp(a, k)) for k in range(n)]
    for k in range(n):
        if r: ens.append((o, k, E.sel(fl.cmp('eq', E.const(k, INT)), E.const(77, ty), E.inp(a, k))))
        else: ens.append((o, k, E.const(77, ty)))
    for t in range(r): ens.append((dd, t, E.const(tshape[t], U64)))
    if not r: ens.append((dd, 0, E.const(1, U64)))
    return Case('C20/%s/%s/%s-%s/%s' % (how, ty.name, shp(sshape), shp(tshape), cfg.tag()), 'C20', '\n'.join(L), [a, c, o, dd], ens, 'SYM', cfg,
                scalars=idx, pre='#include <type_traits>')

# ----------------------------------------------------------------------------------------------
# layout conversions
# ----------------------------------------------------------------------------------------------
def layout_case(ty, shape, cfg, what, kind='own'):
    n = prod(shape)
    a = Buf('a', ty, n, 'in'); c = Buf('c', ty, n, 'out')
    decl = town(ty, shape, 'a') if kind == 'own' else tmap(ty, shape, 'a')
    T = ty.cpp; D = dims(shape)
    if what == 'tocolumnmajor':
        call = 'tocolumnmajor(A)'
        ens = [(c, col_offset(shape, i), E.inp(a, flat(shape, i))) for i in indices(shape)]
    elif what == 'torowmajor':
        call = 'torowmajor(A)'
        ens = [(c, flat(shape, i), E.inp(a, col_offset(shape, i))) for i in indices(shape)]
    elif what == 'roundtrip-cr':
        call = 'torowmajor(tocolumnmajor(A))'
        ens = [(c, k, E.inp(a, k)) for k in range(n)]
    elif what == 'roundtrip-rc':
        call = 'tocolumnmajor(torowmajor(A))'
        ens = [(c, k, E.inp(a, k)) for k in range(n)]
    ens.sort(key=lambda t: t[1])
    body = '    %s\n    Tensor<%s,%s> C = %s;\n    %s' % (decl, T, D, call, copy_out('C', 'c', n))
    perm = [col_offset(shape, i) for i in indices(shape)]       # row-major offset k -> column-major offset
    involutive = all(perm[perm[k]] == k for k in range(n))
    fam = ('layout-' + what) if what.startswith('roundtrip') else (what if not involutive else 'layout-involutive-' + what)
    return Case('C20/%s/%s/%s/%s/%s' % (fam, ty.name, shp(shape), kind, cfg.tag()), 'C20', body, [a, c], ens, 'SYM', cfg)

# ----------------------------------------------------------------------------------------------
# constructors
# ----------------------------------------------------------------------------------------------
def nested_list(shape, names):
    if len(shape) == 1: return '{' + ','.join(names) + '}'
    step = len(names) // shape[0]
    return '{' + ','.join(nested_list(shape[1:], names[i * step:(i + 1) * step]) for i in range(shape[0])) + '}'

def ctor_case(ty, shape, cfg, kind):
    n = prod(shape)
    a = Buf('a', ty, n, 'in'); c = Buf('c', ty, n, 'out')
    T = ty.cpp; D = dims(shape)
    row = [(c, k, E.inp(a, k)) for k in range(n)]
    colm = sorted([(c, flat(shape, i), E.inp(a, col_offset(shape, i))) for i in indices(shape)], key=lambda t: t[1])
    pre = '#include <array>'
    if kind == 'ptr': body = '    Tensor<%s,%s> A(a);' % (T, D); ens = row
    elif kind == 'ptr-rowmajor': body = '    Tensor<%s,%s> A(a, RowMajor);' % (T, D); ens = row
    elif kind == 'ptr-colmajor': body = '    Tensor<%s,%s> A(a, ColumnMajor);' % (T, D); ens = colm
    elif kind in ('array', 'array-colmajor'):
        body = ('    std::array<%s,%d> arr_; for (int t_ = 0; t_ < %d; ++t_) arr_[t_] = a[t_];\n    Tensor<%s,%s> A(arr_%s);'
                % (T, n, n, T, D, ', ColumnMajor' if kind.endswith('colmajor') else ''))
        ens = colm if kind.endswith('colmajor') else row
    elif kind == 'initlist':
        body = '    Tensor<%s,%s> A = %s;' % (T, D, nested_list(shape, ['a[%d]' % k for k in range(n)])); ens = row
    elif kind == 'initlist-assign':
        body = '    Tensor<%s,%s> A; A = %s;' % (T, D, nested_list(shape, ['a[%d]' % k for k in range(n)])); ens = row
    elif kind == 'map-ptr':      # TensorMap constructor from a raw pointer, then evaluated
        body = '    TensorMap<%s,%s> M_(const_cast<%s*>(a)); Tensor<%s,%s> A = M_;' % (T, D, T, T, D); ens = row
    elif kind == 'map-const':    # map of const data
        body = '    TensorMap<const %s,%s> M_(a); Tensor<%s,%s> A = M_;' % (T, D, T, D); ens = row
    body += '\n    ' + copy_out('A', 'c', n)
    return Case('C20/ctor-%s/%s/%s/%s' % (kind, ty.name, shp(shape), cfg.tag()), 'C20', body, [a, c], ens, 'SYM', cfg, pre=pre)

# ----------------------------------------------------------------------------------------------
# dynamic views of a map assigned a tensor (rank 1 and 2 are rejected by the compiler on the unchanged tree)
# ----------------------------------------------------------------------------------------------
def map_view_assign_case(ty, shape, cfg, opn):
    n = prod(shape); r = len(shape); st = strides(shape)
    lo, hi = 0, max(1, shape[0] - 1)
    vshape = (hi - lo,) + tuple(shape[1:])
    nv = prod(vshape)
    m = Buf('m', ty, n + PAD, 'inout'); b = Buf('b', ty, nv, 'in')
    T = ty.cpp
    vtxt = 'seq(%d,%d)' % (lo, hi) + ''.join(',all' for _ in range(r - 1))
    body = ('    TensorMap<%s,%s> M(m + 1); %s\n    M(%s) %s B;' % (T, dims(shape), town(ty, vshape, 'b'), vtxt, opn))
    ens = []
    for k in range(n + PAD):
        kk = k - 1
        if 0 <= kk < n and lo <= kk // st[0] < hi:
            v = E.inp(b, kk - lo * st[0])
            ens.append((m, k, v if opn == '=' else (E.inp(m, k) + v if opn == '+=' else E.inp(m, k) - v)))
        else:
            ens.append((m, k, E.inp(m, k)))
    return Case('C20/map-view-assign/%s/%s/%s/%s' % (ty.name, shp(shape), {'=': 'assign', '+=': 'add', '-=': 'sub'}[opn], cfg.tag()), 'C20', body, [m, b], ens, 'SYM', cfg)

def map_assign_map_case(ty, shape, d, cfg):
    """M = B for two maps of the same type: the elements of B are copied into M's buffer (what the same statement
    does for owning tensors), B's buffer is unchanged and M still denotes its own buffer afterwards."""
    n = prod(shape)
    m = Buf('m', ty, n + PAD, 'inout'); b = Buf('b', ty, n, 'in'); o = Buf('o', ty, n, 'out')
    T = ty.cpp; D = dims(shape)
    body = ('    TensorMap<%s,%s> M(m + %d); TensorMap<%s,%s> B(const_cast<%s*>(b)); Tensor<%s,%s> O(m + %d); Tensor<%s,%s> BT(b);\n'
            '    M = B; O = BT;\n    %s' % (T, D, d, T, D, T, T, D, d, T, D, copy_out('O', 'o', n)))
    ens = [(m, k, E.inp(b, k - d) if d <= k < d + n else E.inp(m, k)) for k in range(n + PAD)] + [(o, k, E.inp(b, k)) for k in range(n)]
    return Case('C20/map-assign-map/%s/%s/d%d/%s' % (ty.name, shp(shape), d, cfg.tag()), 'C20', body, [m, b, o], ens, 'SYM', cfg)

def map_compound_case(ty, shape, d, opn, rhs, cfg):
    """M op= RHS through a map over m + d, for every assignment operator and the right-hand sides: another map B (other
    storage), the map itself, a second map M2 over the same storage, and the expression B + M2 reading the destination.
    Effect required: what the scalar loop m[d+k] op= rhs[k] does (the effect on an owning tensor), nothing else written."""
    n = prod(shape)
    m = Buf('m', ty, n + PAD, 'inout'); b = Buf('b', ty, n, 'in')
    T = ty.cpp; D = dims(shape)
    txt = {'B': 'B', 'self': 'M', 'M2': 'M2', 'BplusM2': 'B + M2'}[rhs]
    body = ('    TensorMap<%s,%s> M(m + %d); TensorMap<%s,%s> M2(m + %d); TensorMap<%s,%s> B(const_cast<%s*>(b));\n    M %s %s;'
            % (T, D, d, T, D, d, T, D, T, opn, txt))
    def val(k):
        x = E.inp(m, d + k); y = E.inp(b, k)
        r = {'B': y, 'self': x, 'M2': x, 'BplusM2': y + x}[rhs]
        return {'=': r, '+=': x + r, '-=': x - r, '*=': x * r, '/=': x / r}[opn]
    ens = [(m, k, val(k - d) if d <= k < d + n else E.inp(m, k)) for k in range(n + PAD)]
    mode = 'SYM' if ty.kind == 'int' else 'UF'
    if mode == 'UF': cfg = Cfg(cfg.isa, cfg.std, cfg.macros, pipe='P0')
    return Case('C20/map-compound/%s/%s/d%d/%s/%s/%s' % (ty.name, shp(shape), d, {'=': 'assign', '+=': 'add', '-=': 'sub', '*=': 'mul', '/=': 'div'}[opn], rhs, cfg.tag()),
                'C20', body, [m, b], ens, mode, cfg)

def reverse_case(ty, shape, d, cfg, kind):
    """X.reverse() through a map over m + d (kind 'map') or on an owning tensor (kind 'own')."""
    n = prod(shape)
    T = ty.cpp; D = dims(shape)
    if kind == 'map':
        m = Buf('m', ty, n + PAD, 'inout')
        body = '    TensorMap<%s,%s> M(m + %d);\n    M.reverse();' % (T, D, d)
        ens = [(m, k, E.inp(m, d + (n - 1 - (k - d))) if d <= k < d + n else E.inp(m, k)) for k in range(n + PAD)]
        bufs = [m]
    else:
        a = Buf('a', ty, n, 'in'); o = Buf('o', ty, n, 'out')
        body = '    %s\n    A.reverse();\n    %s' % (town(ty, shape, 'a'), copy_out('A', 'o', n))
        ens = [(o, k, E.inp(a, n - 1 - k)) for k in range(n)]
        bufs = [a, o]
    return Case('C20/reverse-%s/%s/%s/d%d/%s' % (kind, ty.name, shp(shape), d, cfg.tag()), 'C20', body, bufs, ens, 'SYM', cfg)

# ----------------------------------------------------------------------------------------------
# the box
# ----------------------------------------------------------------------------------------------
def prog_shapes(isa, ty, thorough):
    V = vec_elems(isa, ty)
    s = [(V + 1,), (2, V + 1), (2, 3, 2), (2 * V + 3,), (3, V - 1) if V > 2 else (3, 3)]
    if thorough: s += [(V,), (3, V), (2, 2, V + 1), (3, 2 * V + 1), (5,)]
    return [x for x in s if prod(x) <= 48]

def cases(tier, seed):
    rng = random.Random(seed)
    out = []
    thorough = tier == 'thorough'
    for isa in isas(tier):
        for std in (['c++14', 'c++17'] if thorough else ['c++14']):
            cfg = Cfg(isa, std)
            main_std = std == 'c++14'
            full = thorough and main_std
            # ---- programs through a map at offset d versus an owning tensor ----
            for ty in ((INT, FLT, DBL, L64) if full else ((INT, FLT, DBL) if main_std else (INT,))):
                arith = ty.kind == 'int'
                for shape in prog_shapes(isa, ty, thorough):
                    for d in range(4):
                        reps = (2 if ty is INT else 1) if not full else (3 if ty is INT else 1)
                        if not main_std: reps = 1
                        for rep in range(reps):
                            if not thorough and ty is not INT and (d + len(shape)) % 2: continue
                            prog = pick_program(rng, ty, shape, rng.randint(2, 4), arith)
                            out.append(map_prog_case(ty, shape, d, prog, cfg, ''))
            # ---- alias programs ----
            for ty in ((INT, FLT) if not full else (INT, FLT, DBL)):
                arith = ty.kind == 'int'
                V = vec_elems(isa, ty)
                pairs = [((2, 6), (3, 4), 'reshape'), ((2, 6), (2, 2, 3), 'reshape'), ((3, 4), (12,), 'flatten'), ((1, 3, 1, 4), (3, 4), 'squeeze'),
                         ((2, V + 1), (V + 1, 2), 'tmap'), ((2, V + 1), (2 * V + 2,), 'flatten'), ((V + 1, 1, 2), (V + 1, 2), 'squeeze'),
                         ((2, 2, 3), (4, 3), 'tmap'), ((4, V), (2, 2 * V), 'reshape')]
                if not full: pairs = sample(rng, pairs, 5 if ty is INT else 3)
                for (ss, ts, how) in pairs:
                    for rep in range(1 if not full else 2):
                        la = rng.randint(1, 2); lr = rng.randint(1, 2)
                        pa = pick_program(rng, ty, ss, la, arith); pr = pick_program(rng, ty, ts, lr, arith)
                        out.append(alias_prog_case(ty, ss, ts, how, pa, pr, cfg))
            # ---- reshape / flatten / squeeze: all same-size targets of rank <= 3 ----
            if main_std:
                for ty in (INT, DBL) if not thorough else (INT, FLT, DBL):
                    srcs = [(2, 6)] if not thorough else [(2, 6), (2, 2, 2), (3, 3), (2, 3, 3)]
                    for ss in srcs:
                        tg = factorizations(prod(ss), 3)
                        if not thorough: tg = [t for t in tg if t.count(1) <= 1]
                        if not thorough and ty is DBL: tg = sample(rng, tg, 4)
                        for ts in tg:
                            out.append(view_case(ty, ss, ts, 'reshape', cfg))
                    for ss in [(2, 6), (2, 3, 2), (7,)] + ([(2, 2, 2, 3), (1, 5)] if thorough else []):
                        out.append(view_case(ty, ss, (prod(ss),), 'flatten', cfg))
                    for ss in [(1, 3, 1, 4), (3, 1), (1, 5), (2, 1, 3)] + ([(1, 1, 4), (2, 3), (1, 2, 1, 2, 1)] if thorough else []):
                        out.append(view_case(ty, ss, squeeze_shape(ss), 'squeeze', cfg))
                    out.append(view_case(ty, (1, 1), (), 'squeeze', cfg))
            # ---- layout conversions, ranks 1-4 ----
            # families tocolumnmajor / torowmajor: shapes whose row-major <-> column-major offset map is not an involution;
            # layout-involutive: rank 1, square matrices, (n,1), (1,n) -- there the two conversions coincide
            shapes = [(5,), (3, 3), (2, 3), (2, 3, 4), (2, 3, 2, 3)]
            if thorough: shapes += [(3, 2), (3, 2, 2), (1, 4), (4, 1), (5, 7), (4, 3, 2), (2, 2, 2), (3, 2, 3, 2), (2, 1, 3, 2), (4, 4)]
            for shape in shapes:
                for ty in ((INT, DBL) if full else ((INT, DBL if len(shape) % 2 else FLT) if main_std else (INT,))):
                    for what in ('tocolumnmajor', 'torowmajor', 'roundtrip-cr', 'roundtrip-rc'):
                        if not main_std and what.startswith('roundtrip'): continue
                        if not thorough and ty is not INT and what in ('torowmajor', 'roundtrip-rc'): continue
                        out.append(layout_case(ty, shape, cfg, what, 'own'))
                        if ty is INT and (full or len(shape) == 3) and not what.endswith('rc'):
                            out.append(layout_case(ty, shape, cfg, what, 'map'))
            # ---- constructors ----
            for ti, ty in enumerate((INT, FLT, DBL)):
                V = vec_elems(isa, ty)
                for si, shape in enumerate([(V + 1,), (2, 3), (2, 3, 2), (2, 2, 1, 3)]):
                    kinds = ['ptr', 'ptr-colmajor', 'array', 'initlist']
                    if ty is INT or full: kinds += ['ptr-rowmajor', 'array-colmajor', 'map-ptr', 'map-const', 'initlist-assign']
                    elif (si + ti) % 2: kinds = ['ptr-colmajor', 'initlist']
                    for k in kinds:
                        if k == 'initlist-assign' and len(shape) > 2 and not thorough: continue
                        out.append(ctor_case(ty, shape, cfg, k))
            # ---- map = map (same type), in-place reverse ----
            for ty in (INT, DBL):
                V = vec_elems(isa, ty)
                for i, shape in enumerate([(3,), (V + 1,), (2, 3)]):
                    out.append(map_assign_map_case(ty, shape, i % 4, cfg))
                for n in sorted({1, 2, 3, V, V + 1, 2 * V, 2 * V + 3}) if not full else sorted(set(range(1, V + 3)) | {2 * V - 1, 2 * V, 2 * V + 1, 2 * V + 3}):
                    out.append(reverse_case(ty, (n,), n % 4, cfg, 'map'))
                    out.append(reverse_case(ty, (n,), 0, cfg, 'own'))
                out.append(reverse_case(ty, (2, V + 1), 1, cfg, 'map')); out.append(reverse_case(ty, (2, V + 1), 0, cfg, 'own'))
            # ---- every assignment operator with a map / aliasing map / expression on the right ----
            if main_std:
                for ty in (INT, FLT) if not thorough else (INT, FLT, DBL):
                    V = vec_elems(isa, ty)
                    for si, shape in enumerate([(V + 1,), (2, V + 1)] if not thorough else [(V + 1,), (2, V + 1), (2 * V + 3,), (2, 3, 2)]):
                        for opn in ('=', '+=', '-=', '*=', '/='):
                            if ty.kind == 'int' and opn in ('*=', '/='): continue     # symbolic 32-bit multiply/divide: not decided by SAT in reasonable time; the float instances (UF) go through the same type-generic assign_mul/assign_div
                            for rhs in ('B', 'self', 'M2', 'BplusM2'):
                                if rhs == 'BplusM2' and prod(shape) > 20 and not thorough: continue     # 34 uninterpreted lanes x 2 operations: 300 s are not enough on a loaded machine
                                out.append(map_compound_case(ty, shape, (si + 1) % 4, opn, rhs, cfg))
            # ---- tensor assigned to a dynamic view of a map ----
            for shape in [(5,), (3, 4), (3, 2, 2)]:
                if len(shape) < 3 and not INCLUDE_REJECTED: continue
                for opn in (('=', '+=') if thorough or len(shape) == 3 else ('=',)):
                    out.append(map_view_assign_case(INT, shape, cfg, opn))
    seen = set(); res = []
    for c in out:
        if c.cid not in seen: seen.add(c.cid); res.append(c)
    return res


def evidence_extra(tier):
    return {'box': {'map_offsets_elements': [0, 1, 2, 3], 'program_length': '2-4 operations (at most two arithmetic)',
                    'operations': ['= tensor', '= expr', '+= -= tensor', '= B - X', '+= B + B', '+= -= scalar', '+= self', 'fill', 'zeros', 'ones',
                                   'iota (int)', 'scalar-index write', 'dynamic view = / += scalar', 'strided column view = scalar', 'fixed view = scalar'],
                    'reshape_targets': 'every shape of rank <= 3 with the same number of elements (quick: at most one unit extent)',
                    'layout_ranks': [1, 2, 3, 4], 'element_types': ['int', 'float', 'double'] + (['int64'] if tier == 'thorough' else []),
                    'excluded': ['std::vector constructor (allocates)', 'symbolic byte misalignment (concrete element offsets 0..3 instead)']}}
