"""C01 -- matrix product equals the mathematical product for every shape and scalar type.

Contract (from the property text): every element (i,j) of the result equals sum_k A(i,k)*B(k,j); every element of
the result is written (the result buffer is nondeterministic on entry); nothing outside the result is written
(assigns clause / frame); no access outside the operands (pointer checks on exact-extent objects).
Mode ATOMS (DESIGN.md section 4): proves the kernel computes exactly the Einstein polynomial -- each product
a_ik*b_kj once -- for int32 with real 32-bit adders and for float/double in the ring reinterpretation (exact for
integer-valued data; the rounding bound of the property is not machine-checked).
"""
from units.common import *

LEVEL_NOTE = ('per instantiation (M,K,N, type, API form, ISA, std, macros): out[i][j] == sum_k a[i][k]*b[k][j] as polynomials '
              '(ATOMS mode) + frame + memory safety, for all element values; instantiations enumerated')

def matmul_case(ty, M, K, N, cfg, kind='map', tag=''):
    a = Buf('a', ty, M * K, 'in', atoms='A'); b = Buf('b', ty, K * N, 'in', atoms='B'); c = Buf('c', ty, M * N, 'out')
    T = ty.cpp
    def shp(r, cc):   # vectors are rank-1 tensors in the API
        return (r, cc)
    if kind == 'map':
        body = '    %s %s %s\n    C = matmul(A,B);' % (tmap(ty, (M, K), 'a'), tmap(ty, (K, N), 'b'), tmap(ty, (M, N), 'c', const=False))
    elif kind == 'own':
        body = '    %s %s\n    Tensor<%s,%d,%d> C = matmul(A,B);\n    %s' % (town(ty, (M, K), 'a'), town(ty, (K, N), 'b'), T, M, N, copy_out('C', 'c', M * N))
    elif kind == 'lazy':      # A % B assigned to a tensor
        body = '    %s %s\n    Tensor<%s,%d,%d> C = A %% B;\n    %s' % (town(ty, (M, K), 'a'), town(ty, (K, N), 'b'), T, M, N, copy_out('C', 'c', M * N))
    elif kind == 'lazy-map':
        body = '    %s %s %s\n    C = A %% B;' % (tmap(ty, (M, K), 'a'), tmap(ty, (K, N), 'b'), tmap(ty, (M, N), 'c', const=False))
    elif kind == 'matvec':    # N == 1, B is a rank-1 tensor
        assert N == 1
        body = '    %s Tensor<%s,%d> B(b);\n    Tensor<%s,%d> C = matmul(A,B);\n    %s' % (town(ty, (M, K), 'a'), T, K, T, M, copy_out('C', 'c', M))
    elif kind == 'vecmat':    # M == 1, A is a rank-1 tensor
        assert M == 1
        body = '    Tensor<%s,%d> A(a); %s\n    Tensor<%s,%d> C = matmul(A,B);\n    %s' % (T, K, town(ty, (K, N), 'b'), T, N, copy_out('C', 'c', N))
    elif kind == 'lazy-matvec':
        assert N == 1
        body = '    %s Tensor<%s,%d> B(b);\n    Tensor<%s,%d> C = A %% B;\n    %s' % (town(ty, (M, K), 'a'), T, K, T, M, copy_out('C', 'c', M))
    else:
        raise ValueError(kind)
    ens = [(c, i * N + j, E.total([E.inp(a, i * K + k) * E.inp(b, k * N + j) for k in range(K)], ty)) for i in range(M) for j in range(N)]
    return Case('C01/%s/%s/%dx%dx%d/%s%s' % (kind, ty.name, M, K, N, cfg.tag(), tag), 'C01', body, [a, b, c], ens, 'ATOMS', cfg)

def boundary_ns(isa, ty):
    V = vec_elems(isa, ty)
    s = set()
    for v in {V, max(V // 2, 1)}:
        s |= {v - 1, v, v + 1, 2 * v - 1, 2 * v, 2 * v + 1, 3 * v, 3 * v + 1, 4 * v - 1, 4 * v, 4 * v + 1, 5 * v - 1, 5 * v, 5 * v + 1, 5 * v + 2}
    return sorted(x for x in s if 1 <= x <= 41)

def cases(tier, seed):
    rng = random.Random(seed)
    out = []
    thorough = tier == 'thorough'
    types = [INT, FLT, DBL]
    for isa in isas(tier):
        for std in (['c++14', 'c++17'] if thorough else ['c++14']):
            cfg = Cfg(isa, std)
            for ty in types:
                B = 5 if not thorough else 8
                triples = [(M, K, N) for M in range(1, B + 1) for K in range(1, B + 1) for N in range(1, B + 1)]
                base = [(M, K, N) for (M, K, N) in triples if M <= 2 and K <= 2 and N <= 2] + [(2, 1, 3), (3, 1, 2), (1, 3, 1), (3, 3, 3)]
                if thorough: base = [(M, K, N) for (M, K, N) in triples if M <= 3 and K <= 3 and N <= 3]
                if not thorough:
                    triples = sorted(set(sample(rng, triples, 14)) - set(base))
                bn = boundary_ns(isa, ty)
                extra = [(M, K, N) for N in bn for M in (1, 2, 3, 4) for K in (1, 4, 5)]
                if not thorough:
                    # every boundary N once with an odd (M%4==3) and once with an even row count, plus a sample
                    extra = sample(rng, [e for e in extra if e[2] <= 21], 12) + [(3, 5, n) for n in bn if n <= 41] + [(2 if n > 21 else 4, 2, n) for n in bn if n <= 41]
                for (M, K, N) in base:      # the small box in every API form (covers K=1 outer, M=N=1 inner, vectors)
                    for k in ['map', 'own', 'lazy']:
                        out.append(matmul_case(ty, M, K, N, cfg, k))
                for (M, K, N) in sorted(set(triples + extra) - set(base)):
                    kind = rng.choice(['map', 'own', 'lazy']) if not thorough else None
                    for k in ([kind] if kind else ['map', 'own', 'lazy']):
                        out.append(matmul_case(ty, M, K, N, cfg, k))
                # matrix-vector / vector-matrix
                for (M, K) in sample(rng, [(m, k) for m in range(1, 10) for k in range(1, 10)], 5 if not thorough else 30):
                    out.append(matmul_case(ty, M, K, 1, cfg, 'matvec'))
                    out.append(matmul_case(ty, 1, K, M, cfg, 'vecmat'))
                for (M, K) in sample(rng, [(m, k) for m in range(1, 10) for k in range(1, 10)], 2 if not thorough else 10):
                    out.append(matmul_case(ty, M, K, 1, cfg, 'lazy-matvec'))
                # the hand-unrolled float/double specialisations 2,3,4,8
                if ty is not INT:
                    for n in (2, 3, 4, 8):
                        out.append(matmul_case(ty, n, n, n, cfg, 'own', tag=''))
                        out.append(matmul_case(ty, n, n, n, cfg, 'lazy'))
        # tuning macros (block sizes), one at a time
        if thorough or isa == 'avx2':
            for mac in ['FASTOR_MATMUL_OUTER_BLOCK_SIZE=%d' % n for n in (1, 2, 3, 4, 5)] + ['FASTOR_MATMUL_INNER_BLOCK_SIZE=%d' % n for n in (1, 2, 3, 4, 5)]:
                cfgm = Cfg(isa, 'c++14', macros=(mac,))
                V = vec_elems(isa, FLT)
                for (M, K, N) in [(7, 3, 2 * V + 3), (5, 4, V), (6, 5, 3 * V + 1), (3, 2, 5 * V + 1), (2, 3, 6 * V), (5, 2, 5 * V + 1)]:
                    out.append(matmul_case(FLT, M, K, N, cfgm, 'own'))
                    if thorough: out.append(matmul_case(INT, M, K, N, cfgm, 'own'))
        # ... and shapes whose interior block [4*OUTER rows] x [INNER*V columns] of the generic kernel is reached at the
        # configured size (SSE2 double, V=2, keeps them small): one full block plus a remainder row and column
        if isa == 'sse2':
            for k in (1, 2, 3, 4, 5):
                for (mac, shapes) in (('FASTOR_MATMUL_INNER_BLOCK_SIZE=%d' % k, [(9, 2, 2 * k + 1), (8, 3, 4 * k + 1)]),
                                      ('FASTOR_MATMUL_OUTER_BLOCK_SIZE=%d' % k, [(4 * k + 1, 2, 5), (8 * k + 1, 2, 7)])):
                    for (M, K, N) in shapes:
                        if k > 3 and mac.startswith('FASTOR_MATMUL_OUTER') and M > 4 * k + 1: continue
                        out.append(matmul_case(DBL, M, K, N, Cfg(isa, 'c++14', macros=(mac,)), 'own'))
    seen = set(); res = []
    for c in out:
        if c.cid not in seen: seen.add(c.cid); res.append(c)
    return res
