"""C09 -- lazy linear-algebra operators give the same result as their eager counterparts.

Contract (from the property text): `D op= <expression with lazy operators>` leaves in D, element for element and bit
for bit, what the same statement leaves when every lazy operator (%, trans, inv, cof, adj, solve, det, trace, norm) is
replaced by the immediately evaluating function (matmul, transpose, inverse, cofactor, adjoint, solve on tensors,
determinant, trace, norm on tensors) written with explicit temporaries -- for = += -= *= /=, for any surrounding
element-wise arithmetic, and also when D itself is an element-wise operand of the right-hand side.

Each case holds BOTH spellings in one entry: the lazy statement on D1 and the eager spelling on D2, both started from
the same caller data (buffer d0), results copied to d1 / d2; clause per element: d1[k] is bit-identical to d2[k].
Mode UF on pipeline P0: both sides run the same kernels, so congruence decides the equality for every IEEE value;
aliasing, temporaries, overload selection and staging are data movement.

Families
  exact/...     the eager spelling is the statement itself with temporaries (`t1 = matmul(A,B); D2 op= t1 + C`).
                All forms for which the library keeps the association: every `=`, `*=`, `/=`; `+=`/`-=` of a lazy node,
                of a product/quotient, of a unary function.  Division by a scalar (`L / s`, symbolic s): the library
                evaluates the lazy form as tmp = L; tmp *= (1/s) -- the documented reciprocal-multiply -- so the clause
                accepts the eager spelling with `t/s` or with `t*(1/s)` (third buffer d3).
  staged/...    `D += X + Y`, `D -= X - Y`, ... with an evaluation-requiring X or Y.  The library stages these as
                `D += X; D += Y`, i.e. (D+X)+Y instead of D+(X+Y).  Compared with the eager spelling in the staged
                order (`tX = X; tY = Y; D2 += tX; D2 += tY`, both temporaries from the old state): must hold bit for bit.
  reassoc/...   a few of the same statements against the statement itself (strict reading of the property).  Equal in
                exact arithmetic, different in the last bit in floating point: known finding at rounding level.
  alias/...     D also appears as an element-wise operand on the right-hand side; forms that keep the association.
  alias-staged/...       `D +=/-= X +/- Y` where Y is D itself (or D only occurs in X): staged spelling on the old D.
  alias-staged-expr/...  `D +=/-= X +/- Y` where Y is an *expression containing* D (C*D, abs(D), -D, trans(A)*D ...): the
                library substitutes a copy of D for the whole of Y (wrong value, not rounding): known defect, isolated here.
  alias-int/, alias-int-expr/...  the same statements on int tensors with inputs in {0,1} (B01, bounded): integer
                arithmetic is associative, so lazy must equal the natural eager spelling exactly.
  gemm-int/...  statements in which the staging hands a `%` node to assign_add / assign_sub: the library calls its GEMM
                kernel (c = alpha*t + beta*c with alpha = +-1, beta = 1), equal to c +- t in IEEE arithmetic (up to the NaN
                payload chosen) but not by congruence, so UF cannot decide them (filter gemm_path; checked: the UF
                runs fail with no failing native input).  Decided on integer data in {0,1} only (bounded).
  scalar/, scalar-in-expr/...  det / trace / norm of a lazy argument, compared directly and used as a scalar.
  etree/...     trans inside element-wise arithmetic against explicit scalar trees (no second spelling).
  chain/...     D = A%B%C(%E) with non-square extents (so that the library's flop-count model picks different
                associations) and the eager left-to-right product, both against the mathematical product
                sum a_ij b_jk c_kl: multilinear code, decided for all values by a TAGS + BASIS pair of runs
                (vf.multilinear_cases; int, float, double -- floats as polynomials, i.e. equal up to rounding).
  chain-acc/... D += A%B%C: affine in D, not multilinear -- integer data in {0,1} (B01, bounded).
Shapes: 2x2 operands and 2x3.3x2 / 3x2.2x2 products in quick (3x3, 3x2.2x3, 2x4.4x3 in thorough), within a budget of
estimated Ackermann pairs (est_pairs; halved for the ISAs without FMA, whose kernels are separate fmul + fadd).
Not covered: ctrans/ctranspose on real element types (neither spelling compiles: no conj(double) overload);
  statements the library rejects at compile time (`D += X + Y` where Y is inv/cof/adj/..., a TensorMap, one of the
  unary functions without a does_alias overload, or a scalar*tensor product) -- reported, they cannot be cases;
  explicit scalar trees for % / det / trace / norm (the kernels' operation order -- e.g. the trace accumulator starting
  from 0 on SSE2 but not on SSE4.2 -- would have to be copied from the implementation; the two-spelling form needs none).
"""
from units.common import *

LEVEL_NOTE = ('per instantiation (statement, shapes, type, ISA): lazy spelling == eager spelling bit for bit for all element values '
              '(UF congruence; both spellings are real library code in one entry); chains and the integer aliasing family are '
              'bounded (inputs in {0,1}); statements, shapes and configurations are enumerated')

EAGER = {'mm': 'matmul', 'trans': 'transpose', 'inv': 'inverse', 'cof': 'cofactor', 'adj': 'adjoint', 'solve': 'solve',
         'det': 'determinant', 'trace': 'trace', 'norm': 'norm'}
LAZYFN = {'trans': 'trans', 'inv': 'inv', 'cof': 'cof', 'adj': 'adj', 'solve': 'solve', 'det': 'det', 'trace': 'trace', 'norm': 'norm'}
BINOP = {'add': '+', 'sub': '-', 'mul': '*', 'div': '/'}
ASSIGN = {'set': '=', 'add': '+=', 'sub': '-=', 'mul': '*=', 'div': '/='}

class N:
    """expression node.  kind 'T' tensor leaf (data=name), 'K' literal scalar (data=value), 'lazy' (op in mm trans inv
    cof adj solve), 'sc' scalar-valued lazy function (op in det trace norm), 'un' (neg abs sqrt), 'bin' (add sub mul div).
    .shape: () for scalars."""
    def __init__(s, kind, op=None, args=(), data=None, shape=None):
        s.kind = kind; s.op = op; s.args = tuple(args); s.data = data
        if kind == 'T': s.shape = tuple(shape)
        elif kind in ('K', 'S'): s.shape = ()
        elif kind == 'sc': s.shape = ()
        elif kind == 'lazy':
            a = s.args
            if op == 'mm':
                assert a[0].shape[1] == a[1].shape[0], (a[0].shape, a[1].shape)
                s.shape = (a[0].shape[0], a[1].shape[1])
            elif op == 'trans': s.shape = (a[0].shape[1], a[0].shape[0])
            elif op in ('inv', 'cof', 'adj'):
                assert a[0].shape[0] == a[0].shape[1]; s.shape = a[0].shape
            elif op == 'solve':
                assert a[0].shape[0] == a[0].shape[1] == a[1].shape[0]; s.shape = a[1].shape
        elif kind == 'un': s.shape = s.args[0].shape
        elif kind == 'bin':
            sh = [a.shape for a in s.args if a.shape != ()]
            assert all(x == sh[0] for x in sh), sh
            s.shape = sh[0] if sh else ()
    def walk(s):
        yield s
        for a in s.args: yield from a.walk()
    def needs_eval(s):
        """the library's requires_evaluation trait: a lazy operator node (% trans inv cof adj) reachable through
        element-wise nodes; solve(...) and det/trace/norm(...) evaluate at once and yield a tensor / a scalar."""
        if s.kind == 'lazy': return s.op != 'solve'
        if s.kind in ('T', 'K', 'S', 'sc'): return False
        return any(a.needs_eval() for a in s.args)
    def has_lazy(s):
        return any(n.kind in ('lazy', 'sc') for n in s.walk())
    def leaves(s):
        return {n.data: n.shape for n in s.walk() if n.kind == 'T'}
    # ---- lazy spelling ----
    def lazy(s, T, ren):
        k = s.kind
        if k == 'T': return ren.get(s.data, s.data)
        if k == 'K': return '(%s)%r' % (T, s.data)
        if k == 'S': return 's'
        a = [x.lazy(T, ren) for x in s.args]
        if k == 'lazy':
            if s.op == 'mm': return '(%s %% %s)' % (a[0], a[1])
            return '%s(%s)' % (LAZYFN[s.op], ', '.join(a))
        if k == 'sc': return '%s(%s)' % (LAZYFN[s.op], a[0])
        if k == 'un': return {'neg': '(-%s)', 'abs': 'abs(%s)', 'sqrt': 'sqrt(%s)'}[s.op] % a[0]
        if k == 'bin': return '(%s %s %s)' % (a[0], BINOP[s.op], a[1])
        raise ValueError(k)
    # ---- eager spelling: statements defining temporaries + an expression over tensors / temporaries / scalars ----
    def eager(s, T, ren, st, tensor_arg=False):
        """appends temporaries to st (list of C++ statements); returns expression text.  tensor_arg: the caller needs a
        Tensor object (argument of an eager function), so element-wise expressions are materialised as well."""
        k = s.kind
        if k == 'T': return ren.get(s.data, s.data)
        if k == 'K': return '(%s)%r' % (T, s.data)
        if k == 'S': return 's'
        if k in ('lazy', 'sc'):
            a = [x.eager(T, ren, st, tensor_arg=True) for x in s.args]
            name = '%s%d' % (ren.get('#t', 't') if k == 'lazy' else ren.get('#v', 'v'), len(st))
            if k == 'lazy': st.append('Tensor<%s,%s> %s = %s(%s);' % (T, dims(s.shape), name, EAGER[s.op], ', '.join(a)))
            else: st.append('%s %s = %s(%s);' % (T, name, EAGER[s.op], a[0]))
            return name
        a = [x.eager(T, ren, st) for x in s.args]
        if k == 'un': tx = {'neg': '(-%s)', 'abs': 'abs(%s)', 'sqrt': 'sqrt(%s)'}[s.op] % a[0]
        else: tx = '(%s %s %s)' % (a[0], BINOP[s.op], a[1])
        if tensor_arg and s.shape != ():
            name = '%s%d' % (ren.get('#t', 't'), len(st))
            st.append('Tensor<%s,%s> %s = %s;' % (T, dims(s.shape), name, tx))
            return name
        return tx

def TL(n, shape): return N('T', data=n, shape=shape)
def K(v): return N('K', data=v)
SS = N('S')
def LZ(op, *a): return N('lazy', op, a)
def SC(op, x): return N('sc', op, (x,))
def UN(op, x): return N('un', op, (x,))
def BN(op, x, y): return N('bin', op, (x, y))

def recip(t):
    """the documented reciprocal form of a division by a scalar: X / s -> X * (1 / s), everywhere in the tree."""
    if not t.args: return t
    a = [recip(x) for x in t.args]
    if t.kind == 'bin' and t.op == 'div' and t.args[1].shape == () and t.args[0].shape != ():
        return BN('mul', a[0], BN('div', K(1.0), a[1]))
    return N(t.kind, t.op, a, t.data)

def has_div_scalar(t):
    return any(n.kind == 'bin' and n.op == 'div' and n.args[1].shape == () and n.args[0].shape != () for n in t.walk())

def slug(tx):
    s = tx.replace('(float)', '').replace('(double)', '').replace('(int)', '')
    s = s.replace('%', 'M').replace('+', 'p').replace('-', 'm').replace('*', 'x').replace('/', 'd').replace('.', 'o')
    return re.sub(r'[^A-Za-z0-9]+', '', s)[:44]

def _ops(t, acc):
    """rough count of uninterpreted applications of one evaluation of t (budgeting only)."""
    n = prod(t.shape) if t.shape else 1
    def add(k, v): acc[k] = acc.get(k, 0) + v
    if t.kind == 'lazy':
        a = t.args
        if t.op in ('mm', 'solve'):
            x, y = (a[0], a[1])
            M, K_, N_ = (x.shape[0], x.shape[1], y.shape[1] if len(y.shape) > 1 else 1)
            add('fmul', M * K_ * N_); add('fadd', M * (K_ - 1) * N_)
        if t.op in ('inv', 'solve'):
            m = a[0].shape[0]
            add('fmul', {2: 6, 3: 30}.get(m, 60)); add('fsub', {2: 1, 3: 12}.get(m, 30)); add('fdiv', 1)
        if t.op in ('cof', 'adj') and a[0].shape[0] >= 3: add('fmul', 18); add('fsub', 9)
    elif t.kind == 'sc':
        m = t.args[0].shape[0]
        if t.op == 'det': add('fmul', {2: 2, 3: 9}.get(m, 24)); add('fsub', {2: 1, 3: 5}.get(m, 12))
        elif t.op == 'trace': add('fadd', m)
        else: add('fmul', m * m); add('fadd', m * m); add('fsqrt', 1)
    elif t.kind == 'bin': add('f' + t.op, n)
    elif t.kind == 'un' and t.op == 'sqrt': add('fsqrt', n)
    for x in t.args: _ops(x, acc)

def est_pairs(tree, form):
    acc = {}
    _ops(tree, acc)
    if form != 'set': acc['f' + form] = acc.get('f' + form, 0) + prod(tree.shape)
    return sum((2 * m) * (2 * m - 1) // 2 * (3 if k in ('fadd', 'fmul') else 1) for k, m in acc.items())

STAGE2 = {('add', 'add'): 'add', ('add', 'sub'): 'sub', ('sub', 'add'): 'sub', ('sub', 'sub'): 'add'}

def lazy_case(fam, ty, tree, form, cfg, spelling='natural', mode='UF', bounded=False, tagx=''):
    """D op= tree (lazy)  vs  the eager spelling.  spelling: 'natural' (the statement itself with temporaries) or
    'staged' (top-level sum/difference under += / -=: both operands into temporaries from the old state, then
    `D2 op= tX; D2 op'= tY`)."""
    T = ty.cpp
    lv = tree.leaves()
    dshape = tree.shape
    assert dshape != ()
    n = prod(dshape)
    bufs = []; L = []
    req = []
    for nm in sorted(lv):
        if nm == 'D': continue
        b = Buf(nm.lower(), ty, prod(lv[nm]), 'in'); bufs.append(b)
        L.append(town(ty, lv[nm], nm.lower()))
    alias = 'D' in lv
    if alias: assert lv['D'] == dshape
    need_old = alias or form != 'set'
    d0 = Buf('d0', ty, n, 'in')
    if need_old: bufs.append(d0)
    d1 = Buf('d1', ty, n, 'out'); d2 = Buf('d2', ty, n, 'out'); bufs += [d1, d2]
    alt = has_div_scalar(tree) and ty.kind == 'float'      # division by a scalar: the reciprocal-multiply spelling is accepted as well
    if alt:
        assert spelling == 'natural'
        d3 = Buf('d3', ty, n, 'out'); bufs.append(d3)
    scalars = [Scalar('s', ty)] if any(x.kind == 'S' for x in tree.walk()) else []
    if bounded:
        for b in bufs:
            if b.role == 'in':
                for k in range(b.n):
                    x = E.inp(b, k)
                    req.append(x.cmp('ge', E.const(0, ty)).band(x.cmp('le', E.const(1, ty))))
    init = '(d0)' if need_old else ''
    # lazy statement on D1
    L.append('Tensor<%s,%s> D1%s;' % (T, dims(dshape), init))
    stmt = tree.lazy(T, {'D': 'D1'})
    L.append('D1 %s %s;' % (ASSIGN[form], stmt))
    L.append(copy_out('D1', 'd1', n))
    # eager spelling on D2
    L.append('Tensor<%s,%s> D2%s;' % (T, dims(dshape), init))
    st = []
    if spelling == 'natural':
        tx = tree.eager(T, {'D': 'D2'}, st)
        L += st
        L.append('D2 %s %s;' % (ASSIGN[form], tx))
    else:
        assert tree.kind == 'bin' and tree.op in ('add', 'sub') and form in ('add', 'sub')
        x, y = tree.args
        def mat(e):
            tx = e.eager(T, {'D': 'D2'}, st, tensor_arg=(e.shape != ()))
            if e.shape == () and e.kind != 'K':
                nm = 'v%d' % len(st); st.append('%s %s = %s;' % (T, nm, tx)); return nm
            if e.kind == 'T' and e.data == 'D':       # the old destination itself
                nm = 't%d' % len(st); st.append('Tensor<%s,%s> %s = D2;' % (T, dims(dshape), nm)); return nm
            return tx
        tx_, ty_ = mat(x), mat(y)
        L += st
        L.append('D2 %s %s;' % (ASSIGN[form], tx_))
        L.append('D2 %s %s;' % (ASSIGN[STAGE2[(form, tree.op)]], ty_))
    L.append(copy_out('D2', 'd2', n))
    if alt:
        L.append('Tensor<%s,%s> D3%s;' % (T, dims(dshape), init))
        st3 = []
        tx3 = recip(tree).eager(T, {'D': 'D3', '#t': 'r', '#v': 'w'}, st3)
        L += st3
        L.append('D3 %s %s;' % (ASSIGN[form], tx3))
        L.append(copy_out('D3', 'd3', n))
    body = '\n'.join('    ' + l for l in L)
    if alt:
        ens = [('bool', 'd1[%d] == d2[%d] or d3[%d] (lazy == eager with x/s or with x*(1/s))' % (k, k, k), E.post(d1, k).same(E.post(d2, k)).bor(E.post(d1, k).same(E.post(d3, k)))) for k in range(n)]
    else:
        ens = [('bool', 'd1[%d] == d2[%d] (lazy == eager %s)' % (k, k, spelling), E.post(d1, k).same(E.post(d2, k))) for k in range(n)]
    h = hashlib.md5((stmt + form).encode()).hexdigest()[:6]
    shp = '_'.join('%s%s' % (nm, 'x'.join(map(str, lv[nm]))) for nm in sorted(lv))
    cid = 'C09/%s/%s/%s/%s/%s/%s/%s%s/%s' % (fam, ty.name, form, slug(stmt), h, shp, spelling, tagx, cfg.tag())
    c = Case(cid, 'C09', body, bufs, ens, mode, cfg, requires=req, bounded=bounded, scalars=scalars)
    c.pairs = est_pairs(tree, form) if mode == 'UF' else 0
    if c.pairs > 500: c.form = 'harness'      # the DFCC-instrumented program would only burn its 45 s budget
    return c

def scalar_case(ty, fnname, arg, cfg):
    """v = det/trace/norm(lazy argument)  vs  the eager function on the evaluated argument."""
    T = ty.cpp
    lv = arg.leaves()
    bufs = []; L = []
    for nm in sorted(lv):
        b = Buf(nm.lower(), ty, prod(lv[nm]), 'in'); bufs.append(b); L.append(town(ty, lv[nm], nm.lower()))
    d1 = Buf('d1', ty, 1, 'out'); d2 = Buf('d2', ty, 1, 'out'); bufs += [d1, d2]
    node = SC(fnname, arg)
    L.append('d1[0] = %s;' % node.lazy(T, {}))
    st = []
    tx = node.eager(T, {}, st)
    L += st
    L.append('d2[0] = %s;' % tx)
    body = '\n'.join('    ' + l for l in L)
    ens = [('bool', 'd1[0] == d2[0] (lazy == eager)', E.post(d1, 0).same(E.post(d2, 0)))]
    stmt = node.lazy(T, {})
    shp = '_'.join('%s%s' % (nm, 'x'.join(map(str, lv[nm]))) for nm in sorted(lv))
    cid = 'C09/scalar/%s/%s/%s/%s' % (ty.name, slug(stmt), shp, cfg.tag())
    return Case(cid, 'C09', body, bufs, ens, 'UF', cfg)

# ---- explicit scalar trees (no second spelling) -----------------------------------------------------------------
def etree_case(ty, what, form, cfg, M=2, N=2):
    T = ty.cpp
    OP = {'set': None, 'add': lambda o, v: o + v, 'sub': lambda o, v: o - v, 'mul': lambda o, v: o * v, 'div': lambda o, v: o / v}[form]
    if what == 'trans-mulC':       # D op= trans(A) * C   (element-wise product with the transposed operand)
        a = Buf('a', ty, N * M, 'in'); c = Buf('c', ty, M * N, 'in'); d = Buf('d', ty, M * N, 'out' if form == 'set' else 'inout')
        body = '    %s %s\n    Tensor<%s,%d,%d> D%s; D %s trans(A) * C;\n    %s' % (town(ty, (N, M), 'a'), town(ty, (M, N), 'c'), T, M, N, '' if form == 'set' else '(d)', ASSIGN[form], copy_out('D', 'd', M * N))
        ens = []
        for i in range(M):
            for j in range(N):
                v = E.inp(a, j * M + i) * E.inp(c, i * N + j)
                ens.append((d, i * N + j, v if OP is None else OP(E.inp(d, i * N + j), v)))
        bufs = [a, c, d]
    elif what == 'trans-subC':     # D op= C - trans(A)
        a = Buf('a', ty, N * M, 'in'); c = Buf('c', ty, M * N, 'in'); d = Buf('d', ty, M * N, 'out' if form == 'set' else 'inout')
        body = '    %s %s\n    Tensor<%s,%d,%d> D%s; D %s C - trans(A);\n    %s' % (town(ty, (N, M), 'a'), town(ty, (M, N), 'c'), T, M, N, '' if form == 'set' else '(d)', ASSIGN[form], copy_out('D', 'd', M * N))
        ens = []
        for i in range(M):
            for j in range(N):
                x, y = E.inp(c, i * N + j), E.inp(a, j * M + i)
                if form == 'set': e = x - y
                elif form in ('mul', 'div'): e = OP(E.inp(d, i * N + j), x - y)
                else: continue
                ens.append((d, i * N + j, e))
        if form in ('add', 'sub'): return None      # staged association: covered by the staged family
        bufs = [a, c, d]
    elif what == 'trace-tr':       # D op= trace(trans(A)) * C ; trace of a 2x2 = m00 + m11
        assert M == N == 2
        a = Buf('a', ty, 4, 'in'); c = Buf('c', ty, 4, 'in'); d = Buf('d', ty, 4, 'out' if form == 'set' else 'inout')
        body = '    %s %s\n    Tensor<%s,2,2> D%s; D %s trace(trans(A)) * C;\n    %s' % (town(ty, (2, 2), 'a'), town(ty, (2, 2), 'c'), T, '' if form == 'set' else '(d)', ASSIGN[form], copy_out('D', 'd', 4))
        tr = E.inp(a, 0) + E.inp(a, 3)
        ens = [(d, k, (tr * E.inp(c, k)) if OP is None else OP(E.inp(d, k), tr * E.inp(c, k))) for k in range(4)]
        bufs = [a, c, d]
    else:
        raise ValueError(what)
    cid = 'C09/etree/%s/%s/%s/%dx%d/%s' % (ty.name, what, form, M, N, cfg.tag())
    return Case(cid, 'C09', body, bufs, ens, 'UF', cfg)

# ---- product chains: multilinear in their operands (vf.multilinear_cases: TAGS + BASIS runs = proof for all values) ----
def chain_case(ty, shapes, cfg):
    """D1 = A % B % C [% E]  (lazy, the library picks the association)   and   D2 = matmul(matmul(A,B),C)... (eager, left to
    right) both equal the mathematical product  sum_{j,k,..} a_ij b_jk c_kl ..  as polynomials -- hence each other, up to
    rounding, whatever association the library chooses."""
    T = ty.cpp
    names = 'abce'[:len(shapes)]
    bufs = [Buf(nm, ty, prod(sh), 'in', atoms=('T', i)) for i, (nm, sh) in enumerate(zip(names, shapes))]
    M, Nn = shapes[0][0], shapes[-1][1]
    d1 = Buf('d1', ty, M * Nn, 'out'); d2 = Buf('d2', ty, M * Nn, 'out')
    L = [town(ty, sh, nm) for nm, sh in zip(names, shapes)]
    L.append('Tensor<%s,%d,%d> D1 = %s;' % (T, M, Nn, ' % '.join(nm.upper() for nm in names)))
    L.append(copy_out('D1', 'd1', M * Nn))
    prev = names[0].upper(); rows = shapes[0][0]
    for k in range(1, len(shapes)):
        L.append('Tensor<%s,%d,%d> t%d = matmul(%s, %s);' % (T, rows, shapes[k][1], k, prev, names[k].upper()))
        prev = 't%d' % k
    L.append(copy_out(prev, 'd2', M * Nn))
    body = '\n'.join('    ' + l for l in L)
    inner = [sh[1] for sh in shapes[:-1]]
    ens = []
    for d in (d1, d2):
        for i in range(M):
            for l in range(Nn):
                terms = []
                for mid in itertools.product(*[range(x) for x in inner]):
                    idx = (i,) + mid + (l,)
                    t = None
                    for b, sh, q in zip(bufs, shapes, range(len(shapes))):
                        e = E.inp(b, idx[q] * sh[1] + idx[q + 1])
                        t = e if t is None else t * e
                    terms.append(t)
                ens.append((d, i * Nn + l, E.total(terms, ty)))
    cid = 'C09/chain/%s/%s/len%d/%s' % (ty.name, '_'.join('%dx%d' % sh for sh in shapes), len(shapes), cfg.tag())
    return multilinear_cases(Case(cid, 'C09', body, bufs + [d1, d2], ens, 'SYM', cfg))

def chain_assign_case(ty, shapes, op, cfg):
    """D op= A % B % C (op in += -=) with D == 0 on entry (all destination elements constrained to zero): the result must be
    +/- the mathematical product.  Multilinear in A,B,C (TAGS + BASIS); covers both association branches of the chain
    overloads of assign_add / assign_sub (rows(A) > cols(C) and the converse)."""
    T = ty.cpp
    names = 'abce'[:len(shapes)]
    bufs = [Buf(nm, ty, prod(sh), 'in', atoms=('T', i)) for i, (nm, sh) in enumerate(zip(names, shapes))]
    M, Nn = shapes[0][0], shapes[-1][1]
    d = Buf('d', ty, M * Nn, 'inout')
    L = [town(ty, sh, nm) for nm, sh in zip(names, shapes)]
    L.append('Tensor<%s,%d,%d> D(d);' % (T, M, Nn))
    L.append('D %s %s;' % ({'add': '+=', 'sub': '-='}[op], ' % '.join(nm.upper() for nm in names)))
    L.append(copy_out('D', 'd', M * Nn))
    body = '\n'.join('    ' + l for l in L)
    inner = [sh[1] for sh in shapes[:-1]]
    ens = []
    for i in range(M):
        for l in range(Nn):
            terms = []
            for mid in itertools.product(*[range(x) for x in inner]):
                idx = (i,) + mid + (l,)
                t = None
                for b, sh, q in zip(bufs, shapes, range(len(shapes))):
                    e = E.inp(b, idx[q] * sh[1] + idx[q + 1])
                    t = e if t is None else t * e
                terms.append(t)
            tot = E.total(terms, ty)
            ens.append((d, i * Nn + l, tot if op == 'add' else -tot))
    cid = 'C09/chain-assign/%s/%s/%s/%s' % (ty.name, op, '_'.join('%dx%d' % sh for sh in shapes), cfg.tag())
    return multilinear_cases(Case(cid, 'C09', body, bufs + [d], ens, 'SYM', cfg, zero_in={'d': set(range(M * Nn))}))

def gemm_case(ty, M, K, Nn, op, cfg):
    """D += A % B / D -= A % B (the in-place GEMM path): D_after == D_before +/- sum_k a_ik b_kj.  ATOMS with the old
    destination as linear (product-class) symbols: proof for all values, float double and int; narrow outputs (few
    columns) make the library pick a SIMD type narrower than the native one."""
    a = Buf('a', ty, M * K, 'in', atoms='A'); b = Buf('b', ty, K * Nn, 'in', atoms='B'); d = Buf('d', ty, M * Nn, 'inout', atoms='LIN')
    body = ('    %s %s Tensor<%s,%d,%d> D(d);\n    D %s A %% B;\n    %s'
            % (town(ty, (M, K), 'a'), town(ty, (K, Nn), 'b'), ty.cpp, M, Nn, {'add': '+=', 'sub': '-='}[op], copy_out('D', 'd', M * Nn)))
    ens = []
    for i in range(M):
        for j in range(Nn):
            tot = E.total([E.inp(a, i * K + k) * E.inp(b, k * Nn + j) for k in range(K)], ty)
            old = E.inp(d, i * Nn + j)
            ens.append((d, i * Nn + j, old + tot if op == 'add' else old - tot))
    return Case('C09/gemm-atoms/%s/%s/%dx%dx%d/%s' % (ty.name, op, M, K, Nn, cfg.tag()), 'C09', body, [a, b, d], ens, 'ATOMS', cfg)

def trans_self_case(ty, n, m, form, cfg):
    """the destination is itself the operand of the lazy transpose: D += trans(D), D -= trans(D), D += trans(D) + E, D = trans(D)
    (square D).  int: SYM; float/double: UF on P0."""
    d = Buf('d', ty, n * n, 'inout'); e = Buf('e', ty, n * n, 'in')
    stmt = {'add': 'D += trans(D);', 'sub': 'D -= trans(D);', 'addE': 'D += trans(D) + E;', 'Eadd': 'D += E + trans(D);', 'set': 'D = trans(D);'}[form]
    body = '    Tensor<%s,%d,%d> D(d); %s\n    %s\n    %s' % (ty.cpp, n, n, town(ty, (n, n), 'e'), stmt, copy_out('D', 'd', n * n))
    ens = []
    for i in range(n):
        for j in range(n):
            x = E.inp(d, i * n + j); t = E.inp(d, j * n + i); ee = E.inp(e, i * n + j)
            k = i * n + j
            if form == 'add': ens.append((d, k, x + t))
            elif form == 'sub': ens.append((d, k, x - t))
            elif form == 'set': ens.append((d, k, t))
            elif form == 'addE':   # staged: (D + trans(D)) + E, or D + (trans(D) + E): both accepted
                ens.append(('bool', 'd[%d] == d + d^T + e' % k, E.post(d, k).same((x + t) + ee).bor(E.post(d, k).same(x + (t + ee)))))
            else:
                ens.append(('bool', 'd[%d] == d + e + d^T' % k, E.post(d, k).same((x + ee) + t).bor(E.post(d, k).same(x + (ee + t)))))
    mode = 'SYM' if ty.kind == 'int' else 'UF'
    return Case('C09/alias-trans-self/%s/%s/%dx%d/%s' % (ty.name, form, n, n, cfg.tag()), 'C09', body, [d, e], ens, mode, cfg)

# ---- statement generators -----------------------------------------------------------------------------------------
def shapes_for(kind, thorough):
    """operand shape sets: (A, B) with A%B conformable, result D/C shape = (A rows, B cols)."""
    if kind == 'sq': return [((2, 2), (2, 2))] + ([((3, 3), (3, 3))] if thorough else [])
    return [((2, 2), (2, 2)), ((2, 3), (3, 2))] + ([((3, 2), (2, 3)), ((3, 3), (3, 3)), ((2, 4), (4, 3))] if thorough else [((3, 2), (2, 2))])

def lazy_nodes(sa, sb, rng):
    """(name, node) evaluation-requiring matrix nodes whose value has the shape of A%B."""
    A = TL('A', sa); B = TL('B', sb)
    rs = (sa[0], sb[1])
    out = [('mm', LZ('mm', A, B))]
    out.append(('trmm', LZ('trans', LZ('mm', LZ('trans', B), LZ('trans', A)))))     # trans(trans(B) % trans(A)) == A % B
    if sa == (sa[1], sa[0]) and sb == sa:      # square operands
        out.append(('tr', LZ('trans', A)))
        out.append(('inv', LZ('inv', A)))
        out.append(('cof', LZ('cof', A)))
        out.append(('adj', LZ('adj', A)))
        out.append(('solve', LZ('solve', A, B)))
        out.append(('invmm', LZ('inv', LZ('mm', A, B))))
        out.append(('mmtr', LZ('mm', LZ('trans', A), B)))
        out.append(('mmexpr', LZ('mm', BN('add', A, B), B)))
        out.append(('trexpr', LZ('trans', BN('sub', A, B))))
    else:
        E_ = TL('E', (rs[1], rs[0]))
        out.append(('tr', LZ('trans', E_)))
    return out

def wraps(L, C, rng):
    """one level of surrounding arithmetic around the lazy node L (C: element-wise operand of L's shape)."""
    return [('L', L), ('LpC', BN('add', L, C)), ('CpL', BN('add', C, L)), ('LmC', BN('sub', L, C)), ('CmL', BN('sub', C, L)),
            ('LxC', BN('mul', L, C)), ('CxL', BN('mul', C, L)), ('LdC', BN('div', L, C)), ('CdL', BN('div', C, L)),
            ('kxL', BN('mul', K(2.5), L)), ('Lxk', BN('mul', L, K(-1.5))), ('Lpk', BN('add', L, K(0.75))), ('kmL', BN('sub', K(3.0), L)),
            ('Lds', BN('div', L, SS)), ('negL', UN('neg', L)), ('absL', UN('abs', L)), ('sqrtL', UN('sqrt', L))]

def gemm_path(node, form):
    """Decidability filter for UF (not used to write any clause): does the staged assignment hand a `%` node to
    assign_add / assign_sub?  The library then calls its GEMM kernel with alpha = +-1, beta = 1
    (c = alpha*t + beta*c), which equals c +- t in IEEE arithmetic (up to the choice of NaN payload) but not by
    congruence: UF would reject a legal reformulation, so such statements are decided on integer data only
    (family gemm-int, bounded)."""
    k = node.kind
    if k in ('T', 'K', 'S'): return False
    if k == 'lazy' and node.op == 'mm' and form in ('add', 'sub'): return True
    if k in ('lazy', 'sc', 'un'): return any(gemm_path(a, 'set') for a in node.args)
    x, y = node.args
    if not node.needs_eval(): return gemm_path(x, 'set') or gemm_path(y, 'set')
    if node.op in ('add', 'sub'):
        if form == 'set': return gemm_path(x, 'set') or gemm_path(y, node.op)
        if form in ('add', 'sub'): return gemm_path(x, form) or gemm_path(y, STAGE2[(form, node.op)])
        return gemm_path(node, 'set')             # *= /= : the right-hand side goes into a temporary first
    if form == 'set': return gemm_path(x, 'set') or gemm_path(y, node.op)      # dst = x; dst *= y
    return gemm_path(node, 'set')

def contains_D(t):
    return any(n.kind == 'T' and n.data == 'D' for n in t.walk())

def alias_family(tree, form, base='alias'):
    """alias            : forms for which the library keeps the association (natural eager spelling)
       alias-staged     : `D +=/-= X +/- Y` where Y is D itself or does not mention D
       alias-staged-expr: ... where Y is an *expression containing* D (the library substitutes a copy of D for all of Y:
                          known defect, isolated in this family)"""
    if not reassociates(tree, form): return base
    y = tree.args[1]
    if contains_D(y) and not (y.kind == 'T'): return base + '-staged-expr'
    return base + '-staged'

def reassociates(tree, form):
    return form in ('add', 'sub') and tree.kind == 'bin' and tree.op in ('add', 'sub') and tree.needs_eval()

def compiles(tree, form):
    """statements the library rejects (missing does_alias overloads): `D +=/-= X +/- Y` with Y an inv/cof/adj node, or a
    product with a scalar."""
    if form in ('add', 'sub') and tree.kind == 'bin' and tree.op in ('add', 'sub') and tree.needs_eval():
        y = tree.args[1]
        if y.kind == 'lazy' and y.op in ('inv', 'cof', 'adj'): return False
        if y.kind == 'bin' and any(a.shape == () for a in y.args): return False
        if y.kind == 'un' and y.op == 'sqrt' and False: return False
    return True

SKIPPED = {'gemm': 0}

def statements(thorough, rng):
    """the statement box: (family, tree, form, spelling) -- independent of type and ISA."""
    S = []
    forms = ['set', 'add', 'sub', 'mul', 'div']
    def put(fam, tree, form, spelling='natural'):
        if not compiles(tree, form): return
        if gemm_path(tree, form): SKIPPED['gemm'] += 1; return
        if est_pairs(tree, form) > PMAX['thorough' if thorough else 'quick']: SKIPPED['budget'] = SKIPPED.get('budget', 0) + 1; return
        S.append((fam, tree, form, spelling))
    for (sa, sb) in shapes_for('any', thorough):
        rs = (sa[0], sb[1])
        C = TL('C', rs); D = TL('D', rs)
        nodes = lazy_nodes(sa, sb, rng)
        for (ln, Ln) in nodes:
            ws = wraps(Ln, C, rng)
            heavy = ln in ('inv', 'invmm', 'solve', 'cof', 'adj', 'trmm')
            pick = ws if (thorough and not heavy) else ([ws[0]] + sample(rng, ws[1:], 4 if not heavy else 2))
            for (wn, tree) in pick:
                fs = forms if (thorough or wn == 'L') else sample(rng, forms, 2)
                for form in fs:
                    if reassociates(tree, form):
                        put('staged', tree, form, 'staged')
                        if not any(n.kind == 'lazy' and n.op == 'mm' for n in tree.walk()) and rng.random() < 0.5:
                            put('reassoc', tree, form, 'natural')
                    else:
                        put('exact', tree, form)
            # sums / differences under += and -= (staged by the library): every node that is not handed to GEMM
            for (wn, tree) in (ws[1], ws[3], ws[4], ws[11]):
                for form in ('add', 'sub'):
                    if reassociates(tree, form): put('staged', tree, form, 'staged')
        # the destination as an element-wise operand of the right-hand side
        Ln = dict(nodes)
        sq = 'inv' in Ln
        AL = [BN('add', Ln['mm'], D), BN('add', D, Ln['mm']), BN('sub', Ln['mm'], D), BN('mul', Ln['mm'], D), BN('div', D, Ln['mm']),
              BN('add', Ln['mm'], BN('mul', C, D)), BN('add', BN('mul', C, D), Ln['mm']), BN('sub', Ln['mm'], BN('sub', D, C)),
              BN('add', Ln['trmm'], BN('mul', Ln['tr'] if sq else C, D)),
              BN('add', Ln['mm'], UN('abs', D)), BN('sub', UN('neg', D), Ln['mm']), BN('mul', BN('add', D, C), Ln['mm']),
              BN('add', Ln['tr'], D), BN('add', D, Ln['tr']), BN('sub', Ln['tr'], BN('mul', C, D)), BN('add', Ln['tr'], UN('abs', D)), BN('sub', BN('mul', D, C), Ln['tr']),
              BN('add', Ln['trmm'], D), BN('add', Ln['trmm'], BN('mul', C, D)), BN('sub', BN('sub', D, C), Ln['trmm'])]
        if sq:
            AL += [BN('add', Ln['inv'], D), BN('mul', D, Ln['tr']), BN('add', Ln['tr'], BN('mul', D, D)), BN('sub', Ln['solve'], BN('div', C, D)),
                   BN('add', Ln['inv'], BN('mul', C, D)), BN('sub', Ln['adj'], UN('neg', D)), BN('add', Ln['mmtr'], BN('mul', D, C))]
        for tree in AL:
            for form in (forms if thorough else sorted(set(sample(rng, forms, 2) + ['sub']))):
                put(alias_family(tree, form), tree, form, 'staged' if reassociates(tree, form) else 'natural')
    for (sa, sb) in shapes_for('sq', thorough):
        A = TL('A', sa); B = TL('B', sb); C = TL('C', sa)
        args = [('mm', LZ('mm', A, B)), ('tr', LZ('trans', A)), ('inv', LZ('inv', A)), ('adj', LZ('adj', A)), ('trmm', LZ('trans', LZ('mm', A, B)))]
        for f in ('det', 'trace', 'norm'):
            for (an, arg) in args:
                S.append(('scalar', (f, arg), None, None))
            for (an, arg) in sample(rng, args, 3):
                tree = rng.choice([BN('mul', SC(f, arg), C), BN('add', C, SC(f, arg)), BN('div', C, SC(f, arg)), BN('sub', SC(f, arg), C)])
                put('scalar-in-expr', tree, rng.choice(forms))
    for what in ('trans-mulC', 'trans-subC'):
        for form in forms:
            for (M, N_) in [(2, 2), (2, 3)]:
                S.append(('etree', (what, M, N_), form, None))
    seen = set(); R = []
    for st in S:
        k = (st[0], st[1].lazy('T', {}) if isinstance(st[1], N) else repr(st[1][0]) + (st[1][1].lazy('T', {}) if isinstance(st[1][1], N) else repr(st[1][1:])), st[2], st[3])
        if k not in seen: seen.add(k); R.append(st)
    return R

def int_statements(thorough):
    A2 = TL('A', (2, 2)); B2 = TL('B', (2, 2)); C2 = TL('C', (2, 2)); D2 = TL('D', (2, 2))
    A23 = TL('A', (2, 3)); B32 = TL('B', (3, 2))
    mm = LZ('mm', A2, B2)
    S = []
    AI = [BN('add', mm, BN('mul', C2, D2)), BN('add', C2, LZ('mm', D2, B2)), BN('add', mm, D2), BN('sub', mm, BN('sub', D2, C2)), BN('add', C2, LZ('trans', D2)), BN('add', mm, C2),
          BN('add', LZ('trans', A2), BN('mul', C2, D2)), BN('sub', LZ('trans', A2), UN('abs', D2))]
    for tree in AI:
        for form in ('add', 'sub'): S.append((alias_family(tree, form, 'alias-int').replace('-staged', ''), tree, form, ''))
    GI = [(mm, ('add', 'sub')), (LZ('mm', A23, B32), ('add', 'sub')), (BN('add', mm, C2), ('add', 'sub')), (BN('add', C2, mm), ('set', 'add')), (BN('sub', C2, mm), ('set', 'sub')),
          (BN('sub', BN('mul', C2, C2), LZ('mm', A23, B32)), ('set', 'add')), (BN('mul', BN('add', C2, mm), C2), ('set', 'mul')), (BN('add', LZ('trans', A2), mm), ('add', 'sub'))]
    for tree, fs in GI:
        for form in fs:
            assert gemm_path(tree, form)
            S.append(('gemm-int', tree, form, ''))
    chains = [((2, 3), (3, 4), (4, 2)), ((3, 2), (2, 4), (4, 3)), ((2, 4), (4, 2), (2, 3)), ((2, 3), (3, 2), (2, 4), (4, 2)), ((3, 1), (1, 4), (4, 2)), ((1, 3), (3, 3), (3, 2), (2, 1))]
    if thorough: chains += [((2, 2), (2, 3), (3, 2), (2, 3), (3, 2)), ((4, 2), (2, 3), (3, 1)), ((2, 5), (5, 2), (2, 2), (2, 3))]
    for ch in chains:
        ts = [TL('ABCEF'[i], sh) for i, sh in enumerate(ch)]
        tree = ts[0]
        for t in ts[1:]: tree = LZ('mm', tree, t)          # A % B % C ... as written (left to right)
        S.append(('chain-acc', tree, 'add', '-len%d' % len(ch)))     # D += chain: affine in D, not multilinear -> bounded B01
    return S

CHAINS = [((2, 3), (3, 4), (4, 2)), ((3, 2), (2, 4), (4, 3)), ((2, 4), (4, 2), (2, 3)), ((2, 3), (3, 2), (2, 4), (4, 2)), ((3, 1), (1, 4), (4, 2)), ((1, 3), (3, 3), (3, 2), (2, 1)),
          ((4, 2), (2, 3), (3, 1)), ((2, 2), (2, 5), (5, 3)), ((3, 3), (3, 1), (1, 3), (3, 2))]
CHAINS_T = [((2, 5), (5, 2), (2, 2), (2, 3)), ((5, 2), (2, 3), (3, 4)), ((2, 3), (3, 5), (5, 2), (2, 4)), ((3, 4), (4, 1), (1, 4), (4, 3))]

QUOTA = {'exact': 132, 'alias': 30, 'alias-staged': 12, 'alias-staged-expr': 18, 'staged': 24, 'reassoc': 6, 'scalar': 15, 'scalar-in-expr': 9, 'etree': 10}
PMAX = {'quick': 2800, 'thorough': 9000}

def cases(tier, seed):
    rng = random.Random(seed)
    thorough = tier == 'thorough'
    SKIPPED['gemm'] = 0; SKIPPED['budget'] = 0
    out = []
    S = statements(thorough, rng)
    combos = [(isa, ty) for isa in isas(tier) for ty in (FLT, DBL)]
    byfam = {}
    for st in S: byfam.setdefault(st[0], []).append(st)
    work = []          # (statement, combo index)
    for fam, lst in byfam.items():
        rng.shuffle(lst)
        if not thorough:
            lst = lst[:QUOTA[fam]]
            for i, st in enumerate(lst): work.append((st, i % len(combos)))               # every statement once, combos in rotation
        else:
            if fam == 'reassoc': lst = lst[:24]
            for i, st in enumerate(lst):
                for j in range(3): work.append((st, (i + 4 * j + j) % len(combos)))         # every statement on three (ISA, type) cells
    def limit(isa, ty):
        # without FMA the product kernels are separate fmul + fadd applications (twice the Ackermann pairs); the SSE2 double
        # kernels (2 lanes) were the ones that ran out of time in the measurements
        base = PMAX['thorough' if thorough else 'quick']
        if isa in ('avx2', 'avx512'): return base
        return base // 2 if ty is DBL else base * 5 // 7
    for (fam, tree, form, spelling), ci in work:
        if fam not in ('scalar', 'etree'):
            est = est_pairs(tree, form)
            for k in range(len(combos)):           # the first (ISA, type) cell in rotation whose budget the statement fits
                isa, ty = combos[(ci + k) % len(combos)]
                if est <= limit(isa, ty): ci = (ci + k) % len(combos); break
        isa, ty = combos[ci]
        cfg = Cfg(isa, 'c++14', pipe='P0')
        if fam == 'scalar': c = scalar_case(ty, tree[0], tree[1], cfg)
        elif fam == 'etree': c = etree_case(ty, tree[0], form, cfg, tree[1], tree[2])
        else: c = lazy_case(fam, ty, tree, form, cfg, spelling)
        if c is not None: out.append(c)
    # ---- product chains against the mathematical product (multilinear: TAGS + BASIS runs)
    il = isas(tier)
    for i, ch in enumerate(CHAINS + (CHAINS_T if thorough else [])):
        for j, isa in enumerate(il if thorough else [il[i % len(il)], il[(i + 1) % len(il)]]):
            out += chain_case([INT, FLT, DBL][(i + j) % 3], ch, Cfg(isa, 'c++14'))
    # ---- D op= chain with D == 0 (both association branches), the in-place GEMM path, and the transposed destination
    for i, ch in enumerate([[(5, 4), (4, 3), (3, 2)], [(2, 3), (3, 4), (4, 5)], [(3, 2), (2, 3), (3, 3)]] + ([[(4, 2), (2, 5), (5, 2)], [(2, 2), (2, 2), (2, 2)]] if thorough else [])):
        for op in ('add', 'sub'):
            for j, isa in enumerate(il if thorough else [il[(i + j_) % len(il)] for j_ in range(1)]):
                out += chain_assign_case([DBL, FLT, INT][(i + j + (op == 'sub')) % 3], ch, op, Cfg(isa, 'c++14'))
    for isa in il:
        for ty in (FLT, DBL, INT):
            V = vec_elems(isa, ty)
            shapes = [(max(2, V // 2), 2, max(2, V // 2)), (V, 3, max(2, V // 4)), (3, 2, V + 1), (2, 2, 2)] if not thorough else \
                     [(max(2, V // 2), 2, max(2, V // 2)), (V, 3, max(2, V // 4)), (V, 2, 3), (V, 2, 4), (3, 2, V + 1), (2, 2, 2), (4, 3, 2 * V), (5, 4, 3)]
            for k, (M, K_, Nn) in enumerate(sorted(set(shapes))):
                if M * K_ * Nn > 300: continue
                for op in (('add', 'sub') if thorough else (('add', 'sub')[k % 2],)):
                    out.append(gemm_case(ty, M, K_, Nn, op, Cfg(isa, 'c++14')))
        for k, form in enumerate(('add', 'sub', 'addE', 'Eadd', 'set')):
            ty = [INT, DBL, FLT][k % 3] if not thorough else None
            for t in ([ty] if ty else [INT, DBL, FLT]):
                out.append(trans_self_case(t, 3 if k % 2 else 2, 0, form, Cfg(isa, 'c++14', pipe='P1' if t is INT else 'P0')))
    # ---- lazy conjugate transpose in every additive assignment form (complex element types; cases built by units.c14)
    try:
        import importlib
        c14 = importlib.import_module('units.c14')
        for isa in il:
            for base in (DBL, FLT):
                for kind in ('ctrans-assign', 'ctrans-addassign', 'ctrans-add', 'ctrans-subassign', 'ctrans-sub'):
                    cc = c14.ctrans_case(2, 3, Cfg(isa, pipe='P0') if kind != 'ctrans-assign' else Cfg(isa), kind, base)
                    cc.prop = 'C09'; cc.cid = 'C09/' + cc.cid.split('/', 1)[1]
                    out.append(cc)
    except ImportError:
        pass
    # ---- norm() of an unevaluated element-wise expression: the fused unrolled kernel, every unroll stage (cases built by units.c16)
    try:
        c16 = importlib.import_module('units.c16')
        for isa in il:
            for ty in (DBL, FLT):
                V = vec_elems(isa, ty)
                for n in sorted({7 * V + 1} | ({15 * V + 1} if isa == 'avx512' else set())):
                    for cc in c16.norm_case(ty, (n,), Cfg(isa), 'expr'):
                        cc.prop = 'C09'; cc.cid = 'C09/lazy-' + cc.cid.split('/', 1)[1]
                        out.append(cc)
    except ImportError:
        pass
    # ---- bounded integer families (B01)
    IS = int_statements(thorough)
    il = isas(tier)
    for i, (fam, tree, form, tagx) in enumerate(IS):
        for isa in (il if thorough else [il[i % len(il)]]):
            out.append(lazy_case(fam, INT, tree, form, Cfg(isa, 'c++14'), 'natural', mode='SYM', bounded=True, tagx=tagx))
    seen = set(); res = []
    for c in out:
        if c.cid not in seen: seen.add(c.cid); res.append(c)
    return res

def evidence_extra(tier):
    return {'box': {'lazy_operators': '% trans inv cof adj solve det trace norm (one level of + - * / scalar arithmetic, unary - abs sqrt around them); nested %/trans/inv arguments',
                    'assignment_forms': '= += -= *= /=',
                    'shapes': '2x2, 2x3.3x2, 3x2.2x2 (quick); + 3x3, 3x2.2x3, 2x4.4x3 (thorough)',
                    'aliasing': 'destination as element-wise operand (D, C*D, D-C, abs(D), -D, D*D) next to a lazy node',
                    'chains': 'length 3-4, non-square extents: multilinear TAGS+BASIS proof (int float double); D += chain bounded B01',
                    'types': 'float double (UF); int (bounded B01 families, multilinear chains)', 'isas': isas(tier),
                    'statements_skipped_gemm_reformulation': SKIPPED.get('gemm', 0), 'statements_skipped_budget': SKIPPED.get('budget', 0)}}
