"""C06 -- results do not depend on the SIMD instruction set, C++ level or tuning macros.

Not a contract of its own: a *lemma over the contracts of the other properties* (DESIGN.md section 5, C06).  A contract
S of C01-C05, C08, C14, C16-C20 is functional (it fixes every output element as a function of the inputs).  If the
same contract text is enforced on the code compiled under configuration c for every c in a set G, then the results
agree across G: bit for bit for integer/boolean results and for float results in SYM/UF mode (same operator tree),
"same polynomial" for ATOMS.  This module re-instantiates a seeded sample of the other modules' cases under
configurations those modules do not visit themselves:
    ISA in {scalar, sse2, sse4.2, avx, avx2, avx512} x std in {c++14, c++17} x IR pipeline in {-O0-based P0, -O1, -O2}
    x runtime checks on/off x one documented tuning macro at a time
(quick: a covering sample; thorough: every sampled case under the full ISA x std grid + one-at-a-time variation).
Second obligation -- *acceptance*: every sampled unit is pushed through `clang++ -fsyntax-only` and `g++ -fsyntax-only`
under every ISA x std (and each tuning macro); a unit accepted somewhere but rejected elsewhere is a violation whose
replay file is the compiler command and diagnostic.  This half is a compiler fact ("supporting static fact").
Not covered: GCC code generation, -O3, strict-aliasing dependent miscompilation (see DESIGN.md 2.3).
"""
import importlib, copy, subprocess
from units.common import *

LEVEL_NOTE = ('the same functional contract is proved under every configuration of the explored grid (=> results agree across the grid); '
              'acceptance is checked with clang++/g++ -fsyntax-only; GCC code generation and -O3 are not covered')

SOURCES = ['c01', 'c02', 'c03', 'c04', 'c05', 'c08', 'c14', 'c16', 'c17', 'c18', 'c19', 'c20']
# tuning macros under which the contracts are re-enforced.  FASTOR_USE_HADD and FASTOR_DONT_PERFORM_OP_MIN reject every
# program on this tree (recorded acceptance findings), so they appear in the acceptance matrix only.
ACCEPT_ONLY_MACROS = ['FASTOR_USE_HADD', 'FASTOR_DONT_PERFORM_OP_MIN', 'FASTOR_DONT_VECTORISE']
MACROS = ['FASTOR_USE_VECTORISED_EXPR_ASSIGN', 'FASTOR_MATMUL_OUTER_BLOCK_SIZE=3', 'FASTOR_MATMUL_INNER_BLOCK_SIZE=3',
          'FASTOR_TRANS_OUTER_BLOCK_SIZE=3', 'FASTOR_TRANS_INNER_BLOCK_SIZE=3', 'FASTOR_NO_ALIAS=0', 'FASTOR_ZERO_INITIALISE']

def base_cases(seed, per_module):
    """seeded sample of the other modules' quick-tier cases, one representative per (family, type)."""
    rng = random.Random(seed * 7 + 1)
    out = []
    findings = load_known_findings()
    for m in SOURCES:
        try:
            mod = importlib.import_module('units.' + m)
        except Exception:
            continue
        try:
            cs = mod.cases('quick', seed)
        except Exception:
            continue
        fam = {}
        for c in cs:
            if c.bounded or getattr(c, 'safety_only', False) or c.cfg.macros or c.cfg.checks: continue
            if getattr(c, 'alt_group', None): continue       # members of an alternative group only make sense together (targeted_cases takes whole groups)
            if any(f['prop'] == c.prop and f['case'].fullmatch(c.cid) for f in findings): continue   # recorded defect: reported by its own property
            parts = c.cid.split('/')
            key = tuple(parts[1:3])
            fam.setdefault(key, []).append(c)
        keys = sorted(fam)
        rng.shuffle(keys)
        for k in keys[:per_module]:
            # prefer small cases (cheap) but not trivial ones
            cand = sorted(fam[k], key=lambda c: (sum(b.n for b in c.bufs), c.cid))
            out.append(cand[len(cand) // 3])
    return out

def reinstantiate(c, cfg, prop='C06'):
    cc = copy.copy(c)
    cc.cfg = cfg
    cc.prop = prop
    base = c.cid.rsplit('/', 1)[0]
    cc.cid = 'C06/' + base + '/' + cfg.tag()
    return cc

def grid(tier, rng, mode):
    isas_ = ALL_ISAS
    stds = ['c++14', 'c++17']
    pipes = ['P0'] if mode == 'UF' else ['P1', 'P2', 'P0']
    if tier == 'thorough':
        g = [Cfg(i, s, pipe=pipes[0]) for i in isas_ for s in stds]
        g += [Cfg(i, 'c++14', pipe=p) for i in ('sse2', 'avx2', 'avx512') for p in pipes[1:]]
        g += [Cfg(i, 'c++14', pipe=pipes[0], checks=True) for i in ('sse2', 'avx2')]
        g += [Cfg('avx2', 'c++14', macros=(m,), pipe=pipes[0]) for m in MACROS]
        g += [Cfg('sse2', 'c++17', macros=(m,), pipe=pipes[0]) for m in MACROS[:4]]
        return g
    # quick: covering sample -- every ISA, both standards, every pipeline, checks, two macros
    g = []
    for k, i in enumerate(isas_):
        g.append(Cfg(i, stds[k % 2], pipe=pipes[k % len(pipes)]))
    g.append(Cfg(rng.choice(['sse2', 'avx2', 'avx512']), 'c++17', pipe=pipes[0], checks=True))
    for m in rng.sample(MACROS, 2):
        g.append(Cfg(rng.choice(['sse2', 'avx2', 'avx512']), rng.choice(stds), macros=(m,), pipe=pipes[0]))
    return g

_ACCEPT = []

def cases(tier, seed):
    rng = random.Random(seed)
    base = base_cases(seed, 3 if tier == 'quick' else 8)
    out = []
    seen = set()
    for c in base:
        for cfg in grid(tier, rng, c.mode):
            if cfg.key() == c.cfg.key(): continue
            if c.cfg.std == 'c++17' and cfg.std != 'c++17': continue      # unit uses a C++17-only API form (explicit-output einsum): acceptance matrix reports it
            cc = reinstantiate(c, cfg)
            if cc.cid in seen: continue
            seen.add(cc.cid); out.append(cc)
    out += targeted_cases(tier, seed, seen)
    global _ACCEPT
    _ACCEPT = base
    return out

def targeted_cases(tier, seed, seen):
    """tuning macros act on one kernel each, so a random (case x macro) sample rarely reaches the code a macro selects:
    the block-size macros are re-enforced on the shapes that reach the configured block of their kernel
    (matmul: units.c01 macro cases; transpose: units.c14.trans_macro_cases)."""
    out = []
    try:
        c01 = importlib.import_module('units.c01'); c14 = importlib.import_module('units.c14')
    except Exception:
        return out
    cs = [c for c in c01.cases(tier, seed) if c.cfg.macros and (tier == 'thorough' or c.cfg.isa == 'sse2')]
    cs += c14.trans_macro_cases(tier)
    # kernels with a separate FMA branch (#ifdef FASTOR_FMA_IMPL): complex multiply/divide, every ABI of the FMA and non-FMA flag sets
    try:
        c08 = importlib.import_module('units.c08')
        for isa in (('avx', 'avx2') if tier != 'thorough' else ('sse2', 'avx', 'avx2', 'avx512')):
            cs += [c for c in c08.complex_arith_cases(isa, tier == 'thorough') if re.match(r'C08/c(mul|div)(-assign)?/', c.cid) and (tier == 'thorough' or '/cdouble/' in c.cid)]
    except Exception:
        pass
    for c in cs:
        cc = reinstantiate(c, c.cfg)
        if getattr(c, 'alt_group', None):
            cc.cid = 'C06/' + c.cid; cc.alt_group = 'C06/' + c.alt_group
        if cc.cid in seen: continue
        seen.add(cc.cid); out.append(cc)
    return out

# ---- acceptance matrix (run from evidence_extra so that it is part of the same check run) -------------------------
def acceptance(tier, seed_cases):
    """compile every sampled unit with clang++ and g++ -fsyntax-only under ISA x std (x macros); returns (summary, violations)."""
    import tempfile, os
    from concurrent.futures import ThreadPoolExecutor
    work = tempfile.mkdtemp(prefix='acc_', dir=os.path.join(VERIF, '.work')) if os.path.isdir(os.path.join(VERIF, '.work')) else tempfile.mkdtemp(prefix='acc_')
    named = [('w%d' % i, c) for i, c in enumerate(seed_cases)]
    # one TU with all sampled entries (acceptance is per TU; a rejection is then narrowed down per entry)
    cfgs = [Cfg(i, s) for i in ALL_ISAS for s in ('c++14', 'c++17')]
    cfgs += [Cfg('avx2', 'c++14', macros=(m,)) for m in MACROS + ACCEPT_ONLY_MACROS]
    if tier == 'thorough':
        cfgs += [Cfg(i, 'c++14', checks=True) for i in ALL_ISAS]
    jobs = []
    for name, c in named:
        src = os.path.join(work, name + '.cpp')
        open(src, 'w').write(unit_text([(name, c)]))
        for cfg in cfgs:
            for comp in ('clang++-14', 'g++'):
                jobs.append((name, c, cfg, comp, src))
    def one(j):
        name, c, cfg, comp, src = j
        cmd = [comp] + cfg.cxxflags() + ['-fsyntax-only', '-w', src]
        rc, so, se, dt = run(cmd, 600, mem_kb=16 * 1024 * 1024)
        return (name, c, cfg, comp, rc, (se or so)[-1500:], ' '.join(cmd))
    with ThreadPoolExecutor(max_workers=int(os.environ.get('VERIF_JOBS', '16'))) as ex:
        res = list(ex.map(one, jobs))
    byunit = {}
    for name, c, cfg, comp, rc, msg, cmd in res:
        byunit.setdefault(c.cid, []).append((cfg, comp, rc, msg, cmd))
    # a configuration (flags, compiler) is reported when it rejects a unit that some other configuration accepts
    bycfg = {}
    for cid, rs in byunit.items():
        ok = [r for r in rs if r[2] == 0]; bad = [r for r in rs if r[2] != 0]
        if ok and bad:
            for r in bad:
                key = r[0].tag() + ' ' + r[1]
                bycfg.setdefault(key, []).append({'unit': cid, 'command': r[4], 'diagnostic': r[3][-500:]})
    viol = [{'config': k, 'rejected_units': v} for k, v in sorted(bycfg.items())]
    shutil.rmtree(work, ignore_errors=True)
    return {'acceptance_compiles': len(res), 'acceptance_units': len(byunit), 'acceptance_configs': len(cfgs), 'acceptance_rejections': len(viol)}, viol

def post_run(tier, seed):
    """acceptance matrix; returns (evidence additions, violations in the format of vf.merge_extra_violations)."""
    base = _ACCEPT or base_cases(seed, 3 if tier == 'quick' else 8)
    summary, viol = acceptance(tier, base)
    out = []
    for v in viol:
        units = [u['unit'].rsplit('/', 1)[0] for u in v['rejected_units']]
        out.append({'case': 'C06/accept/' + v['config'].replace(' ', '/'),
                    'names': ['rejects ' + u for u in units],
                    'replay': {'property': 'C06', 'kind': 'acceptance: this configuration/compiler rejects %d unit(s) that other configurations accept' % len(units),
                               'config': v['config'], 'rejections': v['rejected_units'][:8], 'verdict': 'compiler diagnostics reproduced (supporting static fact)'}})
    summary['acceptance_note'] = 'clang++-14 and g++ -fsyntax-only of every sampled unit under 6 ISAs x 2 standards + one tuning macro at a time; supporting static fact, not a proof'
    return summary, out
