"""C17 -- triangular matrix product equals the general product of triangular operands.

Contract (from the property text): for operands that are zero outside the tagged triangle (Lower: A(i,k)==0 for k>i,
Upper: A(i,k)==0 for k<i, General: no constraint; same for B; trapezoidal shapes included) every element (i,j) of the
MxN result of tmatmul<LhsTag,RhsTag>(A,B) equals sum_k A(i,k)*B(k,j).  Every element of the result is written,
structural zeros included (the result buffer is nondeterministic on entry); nothing else is written; no access outside
the operands.
Mode ATOMS (DESIGN.md section 4): the operand elements outside the tagged triangle hold the value 0 instead of an atom
id (zero_in), all others are provenance atoms; the clause for element (i,j) is the sum of the products over the k for
which neither factor is a structural zero (which is the full sum, the other terms being 0).  int32 with real adders,
float/double in the ring reinterpretation (exact for integer-valued data; no rounding bound is machine-checked).
Under avx2/avx512 _tmatmul dispatches to the masked-remainder variant when N % V > 1; both ISAs are in the quick tier.

Box: quick -- per (ISA in sse2/avx2/avx512, type in double/float/int, tag pair of nine): one shape of a rotating list of squares,
tall / wide / deep trapezoids and degenerate edges of [1..6]^3, two random shapes of the box and one shape next to a block /
vector / remainder boundary of the kernel (interesting()); matrix-vector / vector-matrix overloads; TensorMap and expression
operands; FASTOR_MATMUL_{OUTER,INNER}_BLOCK_SIZE variants (the k-clipping is computed from the unroll factors) under avx2.
thorough -- [1..13]^3 sampled the same way (c++14: 5 random + 4 boundary + 2 cubes per cell; c++17: 2), six ISAs, all tag pairs
for the block-size variants.  Instantiations with M*K*N > 250 (thorough only) ask for the assertion form of the same clauses
directly (the DFCC-instrumented program exceeds the 45 s budget).
Family ib5 (FASTOR_MATMUL_INNER_BLOCK_SIZE=5 and N >= 5V) fails on the unchanged tree -- genuine defect, native replay
reproduces: interior_block_tmatmul_impl<..., numSIMDCols==5> accumulates the fifth column block with bmm3 instead of bmm4
(tmatmul.h:272), so columns 4V..5V-1 of every 5V-wide block are wrong.
"""
from units.common import *

LEVEL_NOTE = ('per instantiation (M,K,N, tag pair, type, API form, ISA, std, macros): out[i][j] == sum_k a[i][k]*b[k][j] as polynomials over '
              'operands that are zero outside the tagged triangle (ATOMS mode, zeros concrete) + every result element written + frame + '
              'memory safety, for all element values of the triangle; instantiations enumerated')

TAGS = ['General', 'Lower', 'Upper']
SHORT = {'General': 'G', 'Lower': 'L', 'Upper': 'U'}

def outside(tag, R, C):
    """flat offsets of the elements of an RxC row-major matrix that lie outside the tagged triangle."""
    if tag == 'Lower': return {i * C + j for i in range(R) for j in range(C) if j > i}
    if tag == 'Upper': return {i * C + j for i in range(R) for j in range(C) if j < i}
    return set()

def tmatmul_case(ty, M, K, N, lt, rt, cfg, kind='own', fam=None, form=None):
    a = Buf('a', ty, M * K, 'in', atoms='A'); b = Buf('b', ty, K * N, 'in', atoms='B'); c = Buf('c', ty, M * N, 'out')
    T = ty.cpp
    call = 'tmatmul<UpLoType::%s,UpLoType::%s>' % (lt, rt)
    fam = fam or kind
    if kind == 'own':
        body = '    %s %s\n    Tensor<%s,%d,%d> C = %s(A,B);\n    %s' % (town(ty, (M, K), 'a'), town(ty, (K, N), 'b'), T, M, N, call, copy_out('C', 'c', M * N))
    elif kind == 'map':       # TensorMap operands go through the expression overload (evaluated into temporaries)
        body = '    %s %s %s\n    C = %s(A,B);' % (tmap(ty, (M, K), 'a'), tmap(ty, (K, N), 'b'), tmap(ty, (M, N), 'c', const=False), call)
    elif kind == 'expr':      # one operand an unevaluated expression
        body = '    %s %s\n    Tensor<%s,%d,%d> C = %s(A+0,B);\n    %s' % (town(ty, (M, K), 'a'), town(ty, (K, N), 'b'), T, M, N, call, copy_out('C', 'c', M * N))
    elif kind == 'exprR':     # right operand an unevaluated expression: tmatmul(Tensor, expression) overload
        body = '    %s %s\n    Tensor<%s,%d,%d> C = %s(A,B+0);\n    %s' % (town(ty, (M, K), 'a'), town(ty, (K, N), 'b'), T, M, N, call, copy_out('C', 'c', M * N))
    elif kind == 'exprLR':    # both operands unevaluated expressions
        body = '    %s %s\n    Tensor<%s,%d,%d> C = %s(A+0,B+0);\n    %s' % (town(ty, (M, K), 'a'), town(ty, (K, N), 'b'), T, M, N, call, copy_out('C', 'c', M * N))
    elif kind == 'matvec':    # N == 1, B is a rank-1 tensor
        assert N == 1
        body = '    %s Tensor<%s,%d> B(b);\n    Tensor<%s,%d> C = %s(A,B);\n    %s' % (town(ty, (M, K), 'a'), T, K, T, M, call, copy_out('C', 'c', M))
    elif kind == 'vecmat':    # M == 1, A is a rank-1 tensor
        assert M == 1
        body = '    Tensor<%s,%d> A(a); %s\n    Tensor<%s,%d> C = %s(A,B);\n    %s' % (T, K, town(ty, (K, N), 'b'), T, N, call, copy_out('C', 'c', N))
    else:
        raise ValueError(kind)
    za = outside(lt, M, K); zb = outside(rt, K, N)
    ens = []
    for i in range(M):
        for j in range(N):
            terms = [E.inp(a, i * K + k) * E.inp(b, k * N + j) for k in range(K) if (i * K + k) not in za and (k * N + j) not in zb]
            ens.append((c, i * N + j, E.total(terms, ty)))
    zin = {}
    if za: zin['a'] = za
    if zb: zin['b'] = zb
    # large instantiations (thorough tier): the DFCC-instrumented program does not fit the 45 s budget; ask for the assertion
    # form of the same clauses directly instead of timing out first (reported as enforced_by=assertion)
    kw = {'form': form} if form else {}
    return Case('C17/%s/%s%s/%s/%dx%dx%d/%s' % (fam, SHORT[lt], SHORT[rt], ty.name, M, K, N, cfg.tag()), 'C17', body, [a, b, c], ens, 'ATOMS', cfg,
                zero_in=zin, **kw)

def interesting(isa, ty, B):
    """shapes that put the k-range clipping next to every block / vector / remainder boundary of the kernel:
    row blocks of 4 (unrollOuterloop), column blocks of V and 2V, remainders of 1 (scalar tail) and >1 (masked)."""
    V = vec_elems(isa, ty)
    ms = sorted({m for m in (1, 3, 4, 5, 8, 9, 12, 13) if m <= B})
    ns = sorted({n for n in (1, 2, V - 1, V, V + 1, V + 2, 2 * V, 2 * V + 1, 2 * V + 3, 3 * V) if 1 <= n <= B})
    ks = sorted({k for k in (1, 2, 4, 5, 7, 9, 13) if k <= B})
    return [(m, k, n) for m in ms for k in ks for n in ns]

def cases(tier, seed):
    rng = random.Random(seed)
    thorough = tier == 'thorough'
    out = []
    types = [DBL, FLT, INT]
    pairs = [(l, r) for l in TAGS for r in TAGS]
    B = 13 if thorough else 6
    box = [(M, K, N) for M in range(1, B + 1) for K in range(1, B + 1) for N in range(1, B + 1)]
    nfix = 0
    for isa in isas(tier):
        for std in (['c++14', 'c++17'] if thorough else ['c++14']):
            cfg = Cfg(isa, std)
            for ty in types:
                hot = interesting(isa, ty, B)
                for (lt, rt) in pairs:
                    if thorough:
                        if std == 'c++14':
                            shapes = set(sample(rng, box, 5)) | set(sample(rng, hot, 4))
                            shapes |= {(n, n, n) for n in sample(rng, range(1, B + 1), 2)}
                        else:
                            shapes = set(sample(rng, box, 1)) | set(sample(rng, hot, 1))
                    else:
                        # one of: squares, tall / wide / deep trapezoids, degenerate edges (rotating) + random shapes of the box
                        # + one shape next to a block / vector / remainder boundary of the kernel
                        fixed = [(4, 4, 4), (5, 5, 5), (6, 6, 6), (6, 3, 5), (3, 6, 4), (5, 2, 6), (2, 5, 3), (1, 6, 6), (6, 6, 1), (6, 1, 6), (4, 6, 5), (3, 3, 3)]
                        shapes = {fixed[nfix % len(fixed)]} | set(sample(rng, box, 2)) | set(sample(rng, hot, 1))
                        nfix += 1
                    for (M, K, N) in sorted(shapes):
                        kind = 'own'
                        if thorough and rng.random() < 0.15: kind = rng.choice(['map', 'expr'])
                        out.append(tmatmul_case(ty, M, K, N, lt, rt, cfg, kind, form='harness' if M * K * N > 250 else None))
                    # vector operands and the expression overloads
                    if (lt, rt) in (('Lower', 'General'), ('Upper', 'General'), ('General', 'Lower'), ('General', 'Upper'), ('Lower', 'Upper')) or thorough:
                        if not thorough and rng.random() < 0.5: continue
                        if thorough and std == 'c++17': continue
                        for (M, K) in sample(rng, [(m, k) for m in range(1, B + 1) for k in range(1, B + 1)], 1):
                            out.append(tmatmul_case(ty, M, K, 1, lt, rt, cfg, 'matvec'))
                            out.append(tmatmul_case(ty, 1, K, M, lt, rt, cfg, 'vecmat'))
                    if not thorough and isa == 'avx2' and ty is DBL:
                        out.append(tmatmul_case(ty, 5, 4, 6, lt, rt, cfg, 'map'))
                        out.append(tmatmul_case(ty, 4, 5, 3, lt, rt, cfg, 'expr'))
        # multi-block shapes (quick tier too): more than one 8/12-row block followed by a 4-row block and leftover rows, more
        # than one column block plus remainder columns (scalar tail under SSE2, masked tail under AVX2/AVX-512), wide and
        # tall trapezoids whose structurally-zero region covers whole kernel blocks -- the k-range clipping
        # (find_kfirst/find_klast) differs per block there, while the box [1..6]^3 only ever sees the block at row 0
        multi = {('sse2', 'float'): [(13, 13, 9), (13, 6, 9)], ('sse2', 'double'): [(9, 9, 9), (8, 8, 10), (13, 6, 5), (4, 3, 9)],
                 ('avx2', 'double'): [(13, 6, 7), (9, 9, 10)], ('avx2', 'float'): [(13, 6, 11)], ('avx512', 'double'): [(13, 6, 11)],
                 ('avx', 'double'): [(13, 6, 7)], ('sse4.2', 'int'): [(13, 6, 9)], ('avx512', 'float'): [(13, 5, 19)]}
        for ty in types:
            for (M, K, N) in multi.get((isa, ty.name), []):
                for (lt, rt) in pairs:
                    out.append(tmatmul_case(ty, M, K, N, lt, rt, Cfg(isa), 'own', fam='multi', form='harness' if M * K * N > 250 else None))
        # the four overloads (Tensor|expression) x (Tensor|expression) forward the tag pair separately: every tag pair through each
        if isa in ('sse2', 'avx2') or thorough:
            for (lt, rt) in pairs:
                for kind in ('expr', 'exprR', 'exprLR'):
                    # (4,4,4) and other sizes with hand-written kernels ignore the tags; 6x6x6 / 5x7x4 reach the tagged kernels
                    M, K, N = (6, 6, 6) if kind != 'exprLR' else (5, 7, 4)
                    out.append(tmatmul_case(DBL if isa != 'avx2' else FLT, M, K, N, lt, rt, Cfg(isa), kind))
        # block-size macros change the unroll factors the k-clipping is computed from
        if thorough or isa == 'avx2':
            macs = ['FASTOR_MATMUL_OUTER_BLOCK_SIZE=%d' % n for n in (1, 2, 3)] + ['FASTOR_MATMUL_INNER_BLOCK_SIZE=%d' % n for n in (1, 2, 3, 4)]
            for mac in macs:
                cfgm = Cfg(isa, 'c++14', macros=(mac,))
                V = vec_elems(isa, DBL)
                for (lt, rt) in (pairs if thorough else sample(rng, pairs, 2)):
                    for (M, K, N) in [(9, 7, 2 * V + 3), (5, 6, 4 * V)]:
                        if not thorough and max(M, K, N) > 13: continue
                        out.append(tmatmul_case(DBL, M, K, N, lt, rt, cfgm, 'own', form='harness' if M * K * N > 250 else None))
        # FASTOR_MATMUL_INNER_BLOCK_SIZE=5 with N >= 5V: the five-column-block kernel (own family 'ib5')
        if isa == 'sse2' or (thorough and isa in ('sse4.2', 'avx')):
            cfg5 = Cfg(isa, 'c++14', macros=('FASTOR_MATMUL_INNER_BLOCK_SIZE=5',))
            for ty in ([DBL] if not thorough else types):
                V = vec_elems(isa, ty)
                for (lt, rt) in ([('General', 'General'), ('Lower', 'Upper')] if not thorough else pairs):
                    out.append(tmatmul_case(ty, 4, 3, 5 * V + 1, lt, rt, cfg5, 'own', fam='ib5'))
                out.append(tmatmul_case(ty, 4, 3, 5 * V - 1, 'General', 'General', cfg5, 'own'))   # below 5V: block of five not entered
    seen = set(); res = []
    for c in out:
        if c.cid not in seen: seen.add(c.cid); res.append(c)
    return res
