"""C07 -- no operation touches memory outside its operands, for any shape or alignment.

Every unit of every other property already carries the memory-safety obligations (pointer/bounds checks on
exact-extent objects, assigns clause, alignment assertions on every over-aligned vector access, the
"no dynamic allocation" stub).  This module adds the units that are *about* safety:
  (a) maps over a misaligned external buffer: the operation is applied through TensorMap(base + d), d = 1..3 elements,
      the mapped extent ends flush with the end of the object: any aligned access, any over-read past the end and
      any write outside the mapped range fails an obligation; the values are checked too (same contracts as C14/C01/..);
  (b) owning tensors: covered by the `own` families of the other properties (over-reads inside the padded, aligned
      storage pass -- that is the library's actual guarantee);
  (c) runtime checks on (-DFASTOR_ENABLE_RUNTIME_CHECKS=1) with a *symbolic* possibly out-of-range index: at normal
      exit the index was in range, and all pointer checks hold on every path => "throws before touching memory";
  (d) factorisations / inverse / determinant / solve, which have no functional contract in this framework (C10, C12):
      safety-only contracts (frame, pointer checks, alignment, no allocation) with float arithmetic uninterpreted.
"""
from units.common import *

LEVEL_NOTE = ('memory-safety, frame, alignment and no-allocation obligations, for all element values and (c) all index values; '
              'instantiations (shape, offset, operation, ISA) enumerated')

def off_map(ty, shape, name, off, const=True):
    cast = 'const_cast<%s*>(%s)' % (ty.cpp, name) if const else name
    return 'TensorMap<%s,%s> %s(%s + %d);' % (ty.cpp, dims(shape), name.upper(), cast, off)

def transpose_off(ty, M, N, off, cfg):
    n = M * N
    a = Buf('a', ty, n + off, 'in'); b = Buf('b', ty, n + off, 'inout')
    body = '    %s %s\n    B = transpose(A);' % (off_map(ty, (M, N), 'a', off), off_map(ty, (N, M), 'b', off, const=False))
    ens = [(b, k, E.inp(b, k)) for k in range(off)]
    ens += sorted([(b, off + j * M + i, E.inp(a, off + i * N + j)) for i in range(M) for j in range(N)], key=lambda t: t[1])
    return Case('C07/offmap-transpose/%s/%dx%d/off%d/%s' % (ty.name, M, N, off, cfg.tag()), 'C07', body, [a, b], ens, 'SYM', cfg)

def add_off(ty, n, off, cfg):
    a = Buf('a', ty, n + off, 'in'); b = Buf('b', ty, n + off, 'in'); c = Buf('c', ty, n + off, 'inout')
    body = '    %s %s %s\n    C = A + B;' % (off_map(ty, (n,), 'a', off), off_map(ty, (n,), 'b', off), off_map(ty, (n,), 'c', off, const=False))
    ens = [(c, k, E.inp(c, k)) for k in range(off)] + [(c, off + k, E.inp(a, off + k) + E.inp(b, off + k)) for k in range(n)]
    return Case('C07/offmap-add/%s/%d/off%d/%s' % (ty.name, n, off, cfg.tag()), 'C07', body, [a, b, c], ens, 'SYM', cfg)

def addassign_off(ty, n, off, cfg):
    a = Buf('a', ty, n + off, 'in'); c = Buf('c', ty, n + off, 'inout')
    body = '    %s %s\n    C += A;' % (off_map(ty, (n,), 'a', off), off_map(ty, (n,), 'c', off, const=False))
    ens = [(c, k, E.inp(c, k)) for k in range(off)] + [(c, off + k, E.inp(c, off + k) + E.inp(a, off + k)) for k in range(n)]
    return Case('C07/offmap-addassign/%s/%d/off%d/%s' % (ty.name, n, off, cfg.tag()), 'C07', body, [a, c], ens, 'SYM', cfg)

def scalarop_off(ty, n, off, op, cfg):
    """in-place scalar operator on an offset (misaligned) map: C op= 3 -- float arithmetic uninterpreted (pipeline P0)"""
    c = Buf('c', ty, n + off, 'inout')
    body = '    %s\n    C %s= (%s)3;' % (off_map(ty, (n,), 'c', off, const=False), op, ty.cpp)
    three = E.const(3.0 if ty.kind == 'float' else 3, ty)
    ens = [(c, k, E.inp(c, k)) for k in range(off)]
    for k in range(n):
        x = E.inp(c, off + k)
        if op == '/':
            # the library documents a reciprocal multiply for division by a scalar: either form is accepted
            third = E.const(struct.unpack('<f', struct.pack('<f', 1.0 / 3.0))[0] if ty.bits == 32 else 1.0 / 3.0, ty)   # the correctly rounded 1/3 (constant-folded by the compiler)
            ens.append(('bool', 'c[%d] == old / 3 (or old * (1/3))' % (off + k), E.post(c, off + k).same(x / three).bor(E.post(c, off + k).same(x * (E.const(1.0, ty) / three))).bor(E.post(c, off + k).same(x * third))))
        else:
            ens.append((c, off + k, {'+': x + three, '-': x - three, '*': x * three}[op]))
    cs = Case('C07/offmap-scalar%s/%s/%d/off%d/%s' % ({'+': 'add', '-': 'sub', '*': 'mul', '/': 'div'}[op], ty.name, n, off, cfg.tag()), 'C07', body, [c], ens, 'UF' if ty.kind == 'float' else 'SYM', cfg)
    return cs

def sum_off(ty, n, off, cfg):
    a = Buf('a', ty, n + off, 'in', atoms='LIN'); c = Buf('c', ty, 1, 'out')
    body = '    %s\n    c[0] = sum(A);' % off_map(ty, (n,), 'a', off)
    ens = [(c, 0, E.total([E.inp(a, off + k) for k in range(n)], ty))]
    return Case('C07/offmap-sum/%s/%d/off%d/%s' % (ty.name, n, off, cfg.tag()), 'C07', body, [a, c], ens, 'ATOMS', cfg)

def matmul_off(ty, M, K, N, off, cfg):
    a = Buf('a', ty, M * K + off, 'in', atoms='A'); b = Buf('b', ty, K * N + off, 'in', atoms='B'); c = Buf('c', ty, M * N + off, 'inout')
    body = '    %s %s %s\n    C = matmul(A,B);' % (off_map(ty, (M, K), 'a', off), off_map(ty, (K, N), 'b', off), off_map(ty, (M, N), 'c', off, const=False))
    ens = [(c, off + i * N + j, E.total([E.inp(a, off + i * K + k) * E.inp(b, off + k * N + j) for k in range(K)], ty)) for i in range(M) for j in range(N)]
    # the pad elements in front of the mapped range must stay untouched: they are nondeterministic on entry, compare with old
    ens = [('bool', 'c[%d] (outside the map) unchanged' % k, E.post(c, k).same(E.inp(c, k))) for k in range(off)] + ens
    return Case('C07/offmap-matmul/%s/%dx%dx%d/off%d/%s' % (ty.name, M, K, N, off, cfg.tag()), 'C07', body, [a, b, c], ens, 'ATOMS', cfg)

def slice_off(ty, n, off, cfg):
    """strided slice read/write through an offset 2-D map (rows 0..1, every second column)"""
    tot = 2 * n
    a = Buf('a', ty, tot + off, 'in'); c = Buf('c', ty, tot + off, 'inout')
    body = '    %s %s\n    C(all,seq(0,%d,2)) = A(all,seq(0,%d,2));' % (off_map(ty, (2, n), 'a', off), off_map(ty, (2, n), 'c', off, const=False), n, n)
    ens = [(c, k, E.inp(c, k)) for k in range(off)]
    for r in range(2):
        for k in range(n):
            p = off + r * n + k
            ens.append((c, p, E.inp(a, p) if k % 2 == 0 else E.inp(c, p)))
    return Case('C07/offmap-slice/%s/2x%d/off%d/%s' % (ty.name, n, off, cfg.tag()), 'C07', body, [a, c], ens, 'SYM', cfg)

def checked_index(ty, shape, cfg, write=False, use_map=False):
    """runtime checks on, symbolic index possibly out of range: normal exit implies index in range."""
    n = prod(shape); r = len(shape)
    a = Buf('a', ty, n, 'inout' if write else 'in'); c = Buf('c', ty, 1, 'out')
    scs = [Scalar('i%d' % d, INT, -2 * shape[d] - 1, 2 * shape[d] + 1) for d in range(r)]
    args = ','.join(s.name for s in scs)
    wrap = tmap(ty, shape, 'a', const=not write) if use_map else town(ty, shape, 'a')
    if write:
        body = '    %s\n    A(%s) = c[0];\n    c[0] = A(%s);%s' % (wrap, args, args, '' if use_map else '\n    ' + copy_out('A', 'a', n))
    else:
        body = '    %s\n    c[0] = A(%s);' % (wrap, args)
    inr = None
    for d, s in enumerate(scs):
        x = E.arg(s)
        t = x.cmp('ge', E.const(-shape[d], INT)).band(x.cmp('lt', E.const(shape[d], INT)))
        inr = t if inr is None else inr.band(t)
    ens = [('bool', 'normal exit implies every index within [-extent, extent)', inr)]
    return Case('C07/checked-%s%s/%s/%s/%s' % ('write' if write else 'read', '-map' if use_map else '', ty.name, 'x'.join(map(str, shape)), cfg.tag()),
                'C07', body, [a, c], ens, 'SYM', cfg, scalars=scs)

def linalg_safety(ty, n, what, cfg):
    """safety-only contract for the factorisation / inverse family (values are opaque: mode UF)."""
    a = Buf('a', ty, n * n, 'in'); T = ty.cpp
    if what == 'inverse':
        o = Buf('o', ty, n * n, 'out')
        body = '    %s\n    Tensor<%s,%d,%d> X = inverse(A);\n    %s' % (town(ty, (n, n), 'a'), T, n, n, copy_out('X', 'o', n * n)); bufs = [a, o]
    elif what == 'det':
        o = Buf('o', ty, 1, 'out')
        body = '    %s\n    o[0] = determinant(A);' % town(ty, (n, n), 'a'); bufs = [a, o]
    elif what == 'lu':
        o = Buf('o', ty, 2 * n * n, 'out')
        body = ('    %s\n    Tensor<%s,%d,%d> L, U; lu(A, L, U);\n    for (int i_ = 0; i_ < %d; ++i_) { o[i_] = L.data()[i_]; o[%d + i_] = U.data()[i_]; }'
                % (town(ty, (n, n), 'a'), T, n, n, n * n, n * n)); bufs = [a, o]
    elif what == 'qr':
        o = Buf('o', ty, 2 * n * n, 'out')
        body = ('    %s\n    Tensor<%s,%d,%d> Q, R; qr(A, Q, R);\n    for (int i_ = 0; i_ < %d; ++i_) { o[i_] = Q.data()[i_]; o[%d + i_] = R.data()[i_]; }'
                % (town(ty, (n, n), 'a'), T, n, n, n * n, n * n)); bufs = [a, o]
    elif what == 'solve':
        b = Buf('b', ty, n, 'in'); o = Buf('o', ty, n, 'out')
        body = '    %s Tensor<%s,%d> B(b);\n    Tensor<%s,%d> X = solve(A, B);\n    %s' % (town(ty, (n, n), 'a'), T, n, T, n, copy_out('X', 'o', n)); bufs = [a, b, o]
    c = Case('C07/linalg-safety-%s/%s/%d/%s' % (what, ty.name, n, cfg.tag()), 'C07', body, bufs, [], 'UF', cfg)
    c.safety_only = True
    return c

def cases(tier, seed):
    rng = random.Random(seed)
    thorough = tier == 'thorough'
    out = []
    for isa in isas(tier):
        cfg = Cfg(isa)
        for ty in (FLT, DBL, INT):
            V = vec_elems(isa, ty)
            offs = (1, 2, 3) if thorough else (1, 3)
            for off in offs:
                for (M, N) in ([(V, V), (V + 1, V), (3, V + 1), (2, 3)] if not thorough else [(V, V), (V + 1, V), (V, V + 1), (3, V + 1), (2, 3), (2 * V, V), (5, 7)]):
                    if M <= 17 and N <= 17: out.append(transpose_off(ty, M, N, off, cfg))
                for n in sorted({1, V - 1, V, V + 1, 2 * V + 1} - {0}):
                    if ty is INT:
                        out.append(add_off(ty, n, off, cfg)); out.append(addassign_off(ty, n, off, cfg))
                    if n <= 17: out.append(sum_off(ty, n, off, cfg))   # longer linear sums exceed the per-case budget
                    if ty is not INT:
                        for op in '+-*/':
                            if n >= V or op == '/': out.append(scalarop_off(ty, n, off, op, Cfg(isa, pipe='P0')))
                for (M, K, N) in ([(3, 2, V + 1), (2, 3, V)] if not thorough else [(3, 2, V + 1), (2, 3, V), (4, 4, 2 * V + 1), (1, 5, V - 1 or 1), (V, V, V)]):
                    if N <= 17 and M <= 9: out.append(matmul_off(ty, M, K, N, off, cfg))
                if off == 1 and 5 * V + 2 <= 42: out.append(matmul_off(ty, 5, 2, 5 * V + 2, off, cfg))   # masked-remainder kernel with N >= 5V, N % V > 1
        # an offset that is 16-byte aligned but not aligned to the 32/64-byte register of this ISA: a library that derived
        # "aligned" from a 16-byte test would issue aligned vector accesses here
        if not isa.startswith('sse') and isa != 'scalar':
            for ty in (FLT, DBL, INT):
                V = vec_elems(isa, ty); off = 16 // (ty.bits // 8)
                if off in ((1, 2, 3) if thorough else (1, 3)): continue
                out.append(transpose_off(ty, V, V, off, cfg)); out.append(transpose_off(ty, V + 1, V, off, cfg))
                for n in (V, 2 * V + 1):
                    if ty is INT:
                        out.append(add_off(ty, n, off, cfg)); out.append(addassign_off(ty, n, off, cfg))
                    else:
                        out.append(scalarop_off(ty, n, off, '+', Cfg(isa, pipe='P0')))
                    if n <= 17: out.append(sum_off(ty, n, off, cfg))
                out.append(matmul_off(ty, 2, 3, V, off, cfg))
        # runtime checks
        cfgc = Cfg(isa, checks=True)
        for ty in (INT, FLT):
            for shape in ([(5,), (3, 4), (2, 2, 4, 3)] if not thorough else [(5,), (3, 4), (2, 3, 4), (9,), (2, 2, 4, 3), (3, 2, 2, 4)]):
                out.append(checked_index(ty, shape, cfgc))
                out.append(checked_index(ty, shape, cfgc, write=True))
                out.append(checked_index(ty, shape, cfgc, use_map=True))
        # factorisations: safety only
        cfg0 = Cfg(isa, pipe='P0')
        for ty in (FLT, DBL):
            for what in ('inverse', 'det', 'lu', 'qr', 'solve'):
                for n in ((2, 3, 4, 5) if not thorough else (1, 2, 3, 4, 5, 8, 9)):
                    if what == 'qr' and n > 5 and not thorough: continue
                    out.append(linalg_safety(ty, n, what, cfg0))
    seen = set(); res = []
    for c in out:
        if c.cid not in seen: seen.add(c.cid); res.append(c)
    return res
