"""C02 -- an evaluated expression equals the scalar operation applied element by element.

Contract (from the property text): after `R = expr`, `R += expr`, `R -= expr`, `R *= expr`, `R /= expr`
every flat position p of R holds exactly the value obtained by applying the same C++ scalar operations, in the
same order and association, to the p-th elements of the operands (and to the old R[p] for the compound forms).
Nothing but R is written, no access outside the operands (exact-extent buffers).

Modes
  float, double : UF on pipeline P0 -- fadd/fsub/fmul/fdiv/sqrt/libm are uninterpreted, neg/abs/compare real; the
                  ensures tree is the C++ expression, so the proof is bit-exact by congruence for every IEEE value.
                  `x / scalar` and `R /= scalar`: the documented reciprocal form is accepted by the clause
                  `out == x/s  ||  out == x*(1/s)` (that the second is within one rounding of the first is a
                  standard lemma, not machine-checked).
  int32, int64  : SYM on pipeline P0 (all 2^(32n) / 2^(64n) inputs, real two's-complement semantics) for trees over
                  + - abs compare logic with symbolic scalars; multiplication by a small literal in the family
                  int-kmul; ATOMS for the pure element-wise products A*B and s*A.
                  int64 means int64_t (= long): `long long` tensors are not vectorised by the library at all.
  Unary minus on integer tensors is isolated in the family C02/neg-int (known defect: the vector body flips the
  sign bit instead of negating).

Budgets (all measured, see uf_pairs / sym_cost):
  * UF cost is quadratic in the number of uninterpreted applications per function symbol (code + clause), the
    commutative fadd/fmul about three times dearer.  Every size 1..2V+1 of every (ISA, float type) is covered by the
    richest tree / assignment form that fits the budget (family arith, "size sweep": on the longest AVX-512 tensors
    that is a tree of negations/abs or a single subtraction/division), and depth-2 (thorough: depth-3) trees run on
    the longest tensor that fits, the vector body included where affordable ("operator sweep").
  * Literal-scalar workaround: a *symbolic* scalar shared by all lanes as a direct operand of a commutative
    operation (A+s, s*A, R*=s, and R/=s which is r*(1/s)) makes the SAT instance blow up beyond a few lanes.  In the
    tree grammar + and * therefore take a literal scalar (2.5, -0.75, 3.0, -1.5) and the symbolic scalar sits in the
    non-commutative positions (A-s, s-A, A/s, s/A, comparisons); the families sym-scalar and scalar-rhs cover the
    symbolic scalar under + * /= on short tensors (n <= 5).  Integers use the symbolic scalar everywhere.
  * SYM: the solver proves two separately built adder networks equal; cost index elements x adders x bits/32 <= 36.
Not reachable by the proof route (clang IR, memory as bytes; DESIGN.md 2.3), seen only natively with g++ -O2:
  the strict-aliasing dependent miscompilations of the int64 SIMD multiply (SSE2..AVX2: products are 0) and of the
  AVX-512 integer abs fallback (taken because `__GNUC__ >= 7 && __GNUC_MINOR__ >= 4` is false for g++ 12.2).
"""
from units.common import *

LEVEL_NOTE = ('per instantiation (expression tree, assignment form, size, type, storage kind, ISA) the element-wise contract is '
              'proved for all element values (UF: bit-exact by congruence; SYM: real semantics; ATOMS: polynomial identity); '
              'trees, sizes and configurations are enumerated/sampled (box in coverage.box); libm functions are opaque per function')

I64L = Ty('int64', 'int64_t', 64, 'int')      # the 64-bit integer type the library vectorises (long on LP64)

# ----------------------------------------------------------------------------------------------
# expression trees
# ----------------------------------------------------------------------------------------------
class X:
    """node of a C++ tensor expression.  kind: 'T' tensor leaf (name), 'S' symbolic scalar, 'K' constant scalar,
    'un' (op, x), 'bin' (op, x, y), 'cmp' (pred, x, y), 'log' (op, x, y), 'not' (x), 'fn' (name, x).
    .boolean: the node is bool-valued; .tensor: the node is a tensor expression (not a bare scalar)."""
    def __init__(s, kind, op=None, args=(), data=None):
        s.kind = kind; s.op = op; s.args = tuple(args); s.data = data
        s.tensor = kind == 'T' or any(a.tensor for a in s.args)
        s.boolean = kind in ('cmp', 'log', 'not')
    def depth(s):
        return 0 if not s.args else 1 + max(a.depth() for a in s.args)
    def walk(s):
        yield s
        for a in s.args: yield from a.walk()
    def leaves(s):
        return {n.data for n in s.walk() if n.kind == 'T'}
    def uses_scalar(s):
        return any(n.kind == 'S' for n in s.walk())
    def nfloatops(s):
        return sum(1 for n in s.walk() if n.kind in ('bin', 'fn') or (n.kind == 'un' and n.op == 'sqrt'))
    # ---- C++ text ----
    def cpp(s, T):
        k = s.kind
        if k == 'T': return s.data.upper()
        if k == 'S': return 's'
        if k == 'K': return '(%s)%s' % (T, repr(s.data))
        a = [x.cpp(T) for x in s.args]
        if k == 'un':
            return {'neg': '(-%s)', 'abs': 'abs(%s)', 'sqrt': 'sqrt(%s)'}[s.op] % a[0]
        if k == 'fn': return '%s(%s)' % (s.op, a[0])
        if k == 'bin': return '(%s %s %s)' % (a[0], {'add': '+', 'sub': '-', 'mul': '*', 'div': '/'}[s.op], a[1])
        if k == 'cmp': return '(%s %s %s)' % (a[0], {'lt': '<', 'gt': '>', 'eq': '==', 'le': '<=', 'ge': '>=', 'ne': '!='}[s.op], a[1])
        if k == 'log': return '(%s %s %s)' % (a[0], {'and': '&&', 'or': '||'}[s.op], a[1])
        if k == 'not': return '(!%s)' % a[0]
        raise ValueError(k)
    # ---- specification: list of alternative E-trees for flat position p ----
    def spec(s, env, p):
        """env: dict tensor name -> Buf, 's' -> Scalar, 'ty' -> Ty.  Returns a list of admissible scalar values
        (more than one only below a division by a scalar: x/s or x*(1/s))."""
        k = s.kind; ty = env['ty']
        if k == 'T': return [E.inp(env[s.data], p)]
        if k == 'S': return [E.arg(env['s'])]
        if k == 'K': return [E.const(s.data, ty)]
        A = [x.spec(env, p) for x in s.args]
        out = []
        if k == 'un':
            for x in A[0]: out.append({'neg': lambda v: -v, 'abs': lambda v: v.fabs(), 'sqrt': lambda v: v.sqrt()}[s.op](x))
        elif k == 'fn':
            for x in A[0]: out.append(x.fn(s.op))
        elif k == 'bin':
            for x in A[0]:
                for y in A[1]:
                    if s.op == 'add': out.append(x + y)
                    elif s.op == 'sub': out.append(x - y)
                    elif s.op == 'mul': out.append(x * y)
                    else:
                        out.append(x / y)
                        if ty.kind == 'float' and not s.args[1].tensor:     # expr / scalar: documented reciprocal-multiply
                            out.append(x * (E.const(1, ty) / y))
        elif k == 'cmp':
            for x in A[0]:
                for y in A[1]: out.append(x.cmp(s.op, y))
        elif k == 'log':
            for x in A[0]:
                for y in A[1]:
                    bx, by = truth(x), truth(y)
                    out.append(bx.band(by) if s.op == 'and' else bx.bor(by))
        elif k == 'not':
            for x in A[0]: out.append(truth(x).bnot())
        return out

def truth(e):
    """C++ contextual conversion to bool of a scalar value."""
    if e.ty is BOOL or e.ty.kind == 'bool': return e
    return e.cmp('ne', E.const(0, e.ty))

def T_(n): return X('T', data=n)
S_ = X('S')
def K_(v): return X('K', data=v)
def un(op, x): return X('un', op, (x,))
def fn(name, x): return X('fn', name, (x,))
def bn(op, x, y): return X('bin', op, (x, y))
def cm(op, x, y): return X('cmp', op, (x, y))
def lg(op, x, y): return X('log', op, (x, y))
def nt(x): return X('not', None, (x,))

def key(x):
    return x.cpp('T')

# ----------------------------------------------------------------------------------------------
# tree generation
# ----------------------------------------------------------------------------------------------
def arith_trees(depth, flt, leaves=('a', 'b'), neg=True, symmul=True, rng=None, cap=4000):
    """arithmetic (non-boolean) tensor-valued trees up to `depth`.
    flt: float grammar (/, sqrt, symbolic-scalar multiplication); otherwise the SYM-safe integer grammar
    (no tensor*tensor, no division; multiplication by a small constant lives in the family int-kmul)."""
    level = {0: [T_(n) for n in leaves]}
    scal = [S_]
    for d in range(1, depth + 1):
        prev = [t for dd in range(d) for t in level[dd]]
        top = level[d - 1]
        new = []
        if len(top) > cap: top = sample(rng, top, cap)
        for x in top:
            if neg: new.append(un('neg', x))
            new.append(un('abs', x))
            if flt: new.append(un('sqrt', x))
        px, py = prev, prev
        if len(prev) * len(prev) > 4 * cap:      # depth 3: a seeded sample of the operand pairs instead of all of them
            px = sample(rng, prev, 2 * int(cap ** 0.5)); py = sample(rng, prev, 2 * int(cap ** 0.5))
        for x in px:
            for y in py:
                if max(x.depth(), y.depth()) != d - 1: continue
                new.append(bn('add', x, y)); new.append(bn('sub', x, y))
                if flt:
                    new.append(bn('mul', x, y)); new.append(bn('div', x, y))
        for x in top:
            for sc in scal:
                if flt:
                    # UF: a *symbolic* value shared by all lanes as a direct operand of a commutative operation makes the
                    # Ackermann instance intractable beyond 3-4 lanes (measured); there the scalar is a literal, the
                    # symbolic scalar sits in the non-commutative positions (and in the family sym-scalar on short tensors)
                    new += [bn('add', x, K_(2.5)), bn('add', K_(-0.75), x), bn('sub', x, sc), bn('sub', sc, x)]
                    new += [bn('mul', x, K_(3.0)), bn('mul', K_(-1.5), x), bn('div', x, sc), bn('div', sc, x)]
                else:
                    new += [bn('add', x, sc), bn('add', sc, x), bn('sub', x, sc), bn('sub', sc, x)]
        level[d] = new
    out = []
    seen = set()
    for d in range(0, depth + 1):
        for t in level[d]:
            k = key(t)
            if k not in seen: seen.add(k); out.append(t)
    return out

def bool_trees(ar, rng, n):
    """boolean-valued trees: comparisons of arithmetic trees (depth <= 1), logical connectives of those and of
    numeric tensors, negation."""
    small = [t for t in ar if t.depth() <= 1]
    cmps = []
    for _ in range(4 * n):
        x = rng.choice(small); y = rng.choice(small + [S_])
        if rng.random() < 0.25: x, y = y, x
        if not (x.tensor or y.tensor): continue
        cmps.append(cm(rng.choice(['lt', 'gt', 'eq', 'lt', 'gt', 'eq', 'le', 'ge', 'ne']), x, y))
    out = list(cmps[:n])
    for _ in range(n):
        r = rng.random()
        if r < 0.35: out.append(lg(rng.choice(['and', 'or']), rng.choice(cmps), rng.choice(cmps)))
        elif r < 0.55: out.append(nt(rng.choice(cmps)))
        elif r < 0.8: out.append(lg(rng.choice(['and', 'or']), rng.choice(small[:6]), rng.choice(small[:6])))
        else: out.append(nt(rng.choice(small[:6])))
    res = []; seen = set()
    for t in out:
        if key(t) not in seen and t.tensor: seen.add(key(t)); res.append(t)
    return res

# ----------------------------------------------------------------------------------------------
# cases
# ----------------------------------------------------------------------------------------------
ASSIGN = {'set': '=', 'add': '+=', 'sub': '-=', 'mul': '*=', 'div': '/='}

def shape_of(n, rank):
    if rank == 1: return (n,)
    for m in (2, 3, 5, 7):
        if n % m == 0 and n // m > 1: return (m, n // m)
    return (n,)

def expr_case(fam, ty, tree, form, n, cfg, mode, kind='own', rank=1, tagx=''):
    """one case: `R <form> tree` on tensors of n elements.
    kind: 'own' owning aligned tensors copied from the caller's buffers; 'map' TensorMap views straight on the
    caller's (exact-extent, unaligned) buffers; 'ctor' (form 'set' only) construction `Tensor R = expr`;
    'eval' `R = evaluate(expr)`."""
    shape = shape_of(n, rank)
    T = ty.cpp
    names = sorted(tree.leaves())
    env = {'ty': ty}
    bufs = []
    for nm in names:
        b = Buf(nm, ty, n, 'in'); env[nm] = b; bufs.append(b)
    scalars = []
    if tree.uses_scalar():
        sc = Scalar('s', ty); env['s'] = sc; scalars.append(sc)
    rty = BOOL if tree.boolean else ty
    r = Buf('r', rty, n, 'out' if form == 'set' else 'inout')
    bufs.append(r)
    RT = rty.cpp
    ex = tree.cpp(T)
    L = []
    for nm in names:
        L.append(town(ty, shape, nm) if kind != 'map' else tmap(ty, shape, nm))
    if kind == 'map':
        L.append('TensorMap<%s,%s> R(r);' % (RT, dims(shape)))
        L.append('R %s %s;' % (ASSIGN[form], ex))
    elif form == 'set':
        if kind == 'ctor': L.append('Tensor<%s,%s> R = %s;' % (RT, dims(shape), ex))
        elif kind == 'eval': L.append('Tensor<%s,%s> R = evaluate(%s);' % (RT, dims(shape), ex))
        else: L.append('Tensor<%s,%s> R; R = %s;' % (RT, dims(shape), ex))
        L.append(copy_out('R', 'r', n))
    else:
        L.append('Tensor<%s,%s> R(r); R %s %s;' % (RT, dims(shape), ASSIGN[form], ex))
        L.append(copy_out('R', 'r', n))
    body = '\n'.join('    ' + l for l in L)
    ens = []
    for p in range(n):
        alts = tree.spec(env, p)
        if form != 'set':
            old = E.inp(r, p)
            if form == 'div' and not tree.tensor:
                raise ValueError('scalar right-hand sides are generated by scalar_rhs_case')
            alts = [{'add': old + v, 'sub': old - v, 'mul': old * v, 'div': old / v}[form] for v in alts]
        if len(alts) == 1:
            ens.append((r, p, alts[0]))
        else:
            c = None
            for v in alts:
                t = E.post(r, p).same(v)
                c = t if c is None else c.bor(t)
            ens.append(('bool', 'r[%d] == tree with x/s or x*(1/s)' % p, c))
    h = hashlib.md5(ex.encode()).hexdigest()[:6]
    cid = 'C02/%s/%s/%s/%s/%s/n%d/%s-%s%s/%s' % (fam, ty.name, form, slug(ex), h, n, kind, 'x'.join(map(str, shape)), tagx, cfg.tag())
    c = Case(cid, 'C02', body, bufs, ens, mode, cfg, scalars=scalars)
    c.nalt = max(1, len(tree.spec(env, 0)))
    return c

def slug(ex):
    s = ex.replace('(float)', '').replace('(double)', '').replace('(int)', '').replace('(int64_t)', '')
    s = s.replace('&&', 'and').replace('||', 'or').replace('==', 'eq').replace('!=', 'ne').replace('<=', 'le').replace('>=', 'ge')
    s = s.replace('<', 'lt').replace('>', 'gt').replace('!', 'not').replace('+', 'p').replace('-', 'm').replace('*', 'x').replace('/', 'd')
    s = re.sub(r'[^A-Za-z0-9]+', '', s)
    return s[:40]

def scalar_rhs_case(ty, form, n, cfg, mode, const=None, fam='scalar-rhs'):
    """R op= scalar (tensor-scalar in-place operators; /= by a float scalar is the documented reciprocal-multiply)."""
    T = ty.cpp
    r = Buf('r', ty, n, 'inout')
    sc = Scalar('s', ty)
    sv = E.arg(sc) if const is None else E.const(const, ty)
    body = '    Tensor<%s,%d> R(r); R %s %s;\n    %s' % (T, n, ASSIGN[form], 's' if const is None else '(%s)%r' % (T, const), copy_out('R', 'r', n))
    ens = []
    for p in range(n):
        old = E.inp(r, p)
        if form == 'div' and ty.kind == 'float':
            c = E.post(r, p).same(old / sv).bor(E.post(r, p).same(old * (E.const(1, ty) / sv)))
            ens.append(('bool', 'r[%d] == old/s or old*(1/s)' % p, c))
        else:
            ens.append((r, p, {'add': old + sv, 'sub': old - sv, 'mul': old * sv, 'div': old / sv}[form]))
    cid = 'C02/%s/%s/%s/%s/n%d/%s' % (fam, ty.name, form, 's' if const is None else 'k' + slug(repr(const).replace('.', 'o')), n, cfg.tag())
    return Case(cid, 'C02', body, [r], ens, mode, cfg, scalars=[sc] if const is None else [])

def atoms_mul_case(ty, form, n, cfg, scalar=False, kind='own'):
    """pure element-wise integer products A*B / s*A / R *= A in ATOMS mode (each product once, right operands)."""
    T = ty.cpp
    a = Buf('a', ty, n, 'in', atoms='A')
    if scalar:
        b = Buf('b', ty, 1, 'in', atoms='B')
        ex = '%s * A' % 's' if scalar == 'left' else 'A * s'
        pre = '%s s = b[0];' % T
        val = lambda p: E.inp(a, p) * E.inp(b, 0)
    else:
        b = Buf('b', ty, n, 'in', atoms='B')
        ex = 'A * B'; pre = town(ty, (n,), 'b') if kind == 'own' else tmap(ty, (n,), 'b')
        val = lambda p: E.inp(a, p) * E.inp(b, p)
    r = Buf('r', ty, n, 'out')
    A_ = town(ty, (n,), 'a') if kind == 'own' else tmap(ty, (n,), 'a')
    if kind == 'map':
        body = '    %s %s\n    TensorMap<%s,%d> R(r); R = %s;' % (A_, pre, T, n, ex)
    elif form == 'set':
        body = '    %s %s\n    Tensor<%s,%d> R = %s;\n    %s' % (A_, pre, T, n, ex, copy_out('R', 'r', n))
    else:  # R = A; R *= B
        assert not scalar
        body = '    %s %s\n    Tensor<%s,%d> R(A); R *= B;\n    %s' % (A_, pre, T, n, copy_out('R', 'r', n))
    ens = [(r, p, val(p)) for p in range(n)]
    cid = 'C02/atoms-mul/%s/%s/%s/n%d/%s/%s' % (ty.name, form, ('s' + scalar) if scalar else 'AB', n, kind, cfg.tag())
    return Case(cid, 'C02', body, [a, b, r], ens, 'ATOMS', Cfg(cfg.isa, cfg.std, cfg.macros, 'P1'))

def sizes_for(isa, ty):
    V = vec_elems(isa, ty)
    return list(range(1, 2 * V + 2))

MATH_FNS = ['sin', 'cos', 'tan', 'exp', 'log', 'tanh', 'asin', 'cbrt', 'log10', 'atan', 'sinh', 'exp2']

# ----------------------------------------------------------------------------------------------
# UF cost model (measured): CBMC's Ackermann expansion costs ~ sum over function symbols of C(#applications, 2) with
# the applications of the translated code and of the clauses both counted; roughly 10 s of CPU per 1000 pairs for
# fsub/fdiv/sqrt/libm and three times that for the commutative fadd/fmul.  Cases are generated within a pair budget.
# ----------------------------------------------------------------------------------------------
def _apps(e, acc, seen):
    if id(e) in seen: return
    seen.add(id(e))
    if e.ty.kind == 'float':
        if e.op in ('add', 'mul', 'sub', 'div', 'sqrt'): acc['f' + e.op] = acc.get('f' + e.op, 0) + 1
        elif e.op == 'libm': acc[e.data] = acc.get(e.data, 0) + 1
    for a in e.args: _apps(a, acc, seen)

def uf_pairs(case):
    """weighted Ackermann pairs of a UF case: per function symbol C(m,2) with m = applications in the clauses (all
    alternatives) + in the code (one alternative); the commutative symbols (operands ordered by an if-then-else) weigh 3."""
    if case.mode != 'UF': return 0
    spec = {}; seen = set()
    for (b, k, e) in case.ensures: _apps(e, spec, seen)
    nalt = getattr(case, 'nalt', 1)
    tot = 0
    for sym, n in spec.items():
        m = n + n // nalt
        tot += m * (m - 1) // 2 * (3 if sym in ('fadd', 'fmul') else 1)
    return tot

def sym_cost(tree, form, n, ty):
    """SYM cost index of an integer case (measured: the solver has to prove two separately built adder networks
    equal; beyond an index of ~40 a case takes minutes): elements x adders per element x (bits / 32)."""
    ops = sum(1 for x in tree.walk() if x.kind in ('bin', 'cmp') or (x.kind == 'un')) + (1 if form != 'set' else 0)
    return n * max(ops, 1) * ty.bits // 32

def fit(rng, make, cands, budget, tries=40):
    """first candidate (random order) whose case fits the pair budget; prefers the costliest of a few fitting ones."""
    best = None
    order = list(cands); rng.shuffle(order)
    nfit = 0
    for c in order[:tries]:
        cs = make(c)
        if cs is None: continue
        cs.pairs = uf_pairs(cs)
        if cs.pairs <= budget:
            nfit += 1
            if best is None or cs.pairs > best.pairs: best = cs
            if nfit >= 4: break
    return best

def finish(c):
    """heavy UF cases go straight to the assertion form (the DFCC-instrumented program would only burn its 45 s budget)."""
    c.pairs = getattr(c, 'pairs', None) if getattr(c, 'pairs', None) is not None else uf_pairs(c)
    if c.pairs > 500 or getattr(c, 'symcost', 0) > 24: c.form = 'harness'
    return c

def cases(tier, seed):
    rng = random.Random(seed)
    thorough = tier == 'thorough'
    out = []
    PMAX = 4000 if thorough else 800
    SMAX = 90 if thorough else 36
    FT = arith_trees(3 if thorough else 2, True, rng=rng)
    IT = arith_trees(3 if thorough else 2, False, neg=False, rng=rng)
    FT1 = [t for t in FT if t.depth() >= 1]
    IT1 = [t for t in IT if t.depth() >= 1]
    ITD1 = [t for t in IT if t.depth() == 1]
    # trees without uninterpreted operations (negation / abs only): the only float trees affordable on the longest tensors
    UN = [un('neg', T_('a')), un('abs', T_('a')), un('neg', un('abs', T_('a'))), un('abs', un('neg', T_('b'))), un('neg', un('neg', T_('a')))]
    def add(c):
        if c is not None: out.append(finish(c))
    for isa in isas(tier):
        for std in (['c++14', 'c++17'] if thorough else ['c++14']):
            cfg = Cfg(isa, std, pipe='P0')   # P0 also for SYM: -O1 instcombine rewrites e.g. (a+b)-(b+s) into a-s and the adder equivalence is SAT-hard
            cfg1 = Cfg(isa, std)
            for ty in (FLT, DBL, INT, I64L):
                flt = ty.kind == 'float'
                mode = 'UF' if flt else 'SYM'
                sizes = sizes_for(isa, ty)
                V = vec_elems(isa, ty)
                def kind_for(form):
                    if form == 'set': return rng.choice(['own', 'ctor', 'ctor', 'map', 'eval'])
                    return 'map' if rng.random() < 0.25 else 'own'
                if flt:
                    # ---- size sweep: every size 1..2V+1, the richest tree / assignment form that fits the budget
                    forms = ['set', 'add', 'sub', 'mul', 'div']
                    order = list(sizes); rng.shuffle(order)
                    for i, n in enumerate(order * (2 if thorough else 1)):
                        cands = [(t, f) for t in sample(rng, FT1, 30) for f in (forms[i % 5],)] + [(t, 'set') for t in sample(rng, FT1, 10)] \
                                + [(T_('a'), f) for f in ('sub', 'div')] + [(t, 'set') for t in UN]
                        # candidates are tried richest-first: the requested form, then plain assignment, then the cheapest shapes
                        c = None
                        for group in (cands[:30], cands[30:40], cands[40:42], cands[42:]):
                            c = fit(rng, lambda tf: expr_case('arith', ty, tf[0], tf[1], n, cfg, mode, kind_for(tf[1]), 2 if (rng.random() < 0.2 and n >= 4) else 1), group, PMAX)
                            if c is not None: break
                        add(c)
                    # ---- operator sweep: depth-2 trees on the longest tensor that fits, the vector body included where affordable
                    for t in sample(rng, FT1, 60 if thorough else 14):
                        form = rng.choice(forms)
                        for n in (2 * V + 1, V + 1, V, max(V // 2, 1) + 1, 3, 2, 1):
                            c = expr_case('arith', ty, t, form, n, cfg, mode, kind_for(form))
                            c.pairs = uf_pairs(c)
                            if c.pairs <= PMAX: add(c); break
                else:
                    # ---- integers (SYM): every size 1..2V+1 (`rounds` times), the deepest tree within the cost index
                    rounds = (2 if thorough else 1) if len(sizes) > 12 else (3 if thorough else 2)
                    forms = ['set', 'add', 'sub']
                    slots = [(n, r) for r in range(rounds) for n in sizes]
                    rng.shuffle(slots)
                    for i, (n, r) in enumerate(slots):
                        best = None
                        for form in (forms[i % 3], 'set'):
                            for t in sample(rng, IT1, 40) + sample(rng, ITD1, 6):
                                k = sym_cost(t, form, n, ty)
                                if k <= SMAX and (best is None or k > best[0]): best = (k, t, form)
                            if best: break
                        if best:
                            c = expr_case('arith', ty, best[1], best[2], n, cfg, mode, kind_for(best[2]), 2 if (rng.random() < 0.2 and n >= 4) else 1)
                            c.symcost = best[0]; add(c)
                # ---- boolean-valued trees (comparisons, logic): scalar path by construction; fewer sizes
                bts = bool_trees(FT if flt else IT, rng, 10 if thorough else 5)
                # every ordering comparison once with the scalar on the LEFT and once on the right (s < A is not A < s)
                sl = [cm(op, S_, T_('a')) for op in ('lt', 'gt', 'le', 'ge')] + [cm(op, T_('a'), S_) for op in ('lt', 'ge')]
                bts = (sl if thorough else sample(rng, sl[:4], 2) + sample(rng, sl[4:], 1)) + bts
                bs = sample(rng, sizes, 6 if thorough else 3) + [V, 2 * V + 1]
                for i, t in enumerate(bts):
                    for n in (bs[i % len(bs)], V + 1, V, 3, 1):
                        c = expr_case('bool', ty, t, 'set', n, cfg, mode, rng.choice(['own', 'ctor', 'map']))
                        c.pairs = uf_pairs(c); c.symcost = 0 if flt else sym_cost(t, 'set', n, ty)
                        if c.pairs <= PMAX and c.symcost <= SMAX: add(c); break
                # ---- tensor op= scalar
                native_mul = (ty is INT and isa not in ('sse2', 'scalar')) or isa == 'avx512'    # native vector multiply (see int-kmul)
                for form in ['add', 'sub', 'mul', 'div']:
                    ns = sample(rng, sizes, 3 if thorough else 1) + [2 * V + 1, V]
                    if flt:
                        if form in ('add', 'mul'):      # commutative: literal scalar, symbolic scalar on short tensors
                            for n in ns:
                                c = scalar_rhs_case(ty, form, n, cfg, mode, const=rng.choice([2.5, -0.75, 3.0]))
                                if uf_pairs(c) <= PMAX: add(c)
                            add(scalar_rhs_case(ty, form, 3, cfg, mode))
                        elif form == 'sub':
                            for n in ns:
                                c = scalar_rhs_case(ty, form, n, cfg, mode)
                                if uf_pairs(c) <= PMAX: add(c)
                        else:                           # reciprocal-multiply by the shared value 1/s: short tensors only in UF
                            for n in sorted({1, 2, 3, min(V + 1, 5)}): add(scalar_rhs_case(ty, form, n, cfg, mode))
                    elif form != 'div':
                        for n in ns:
                            if form == 'mul':
                                if native_mul: add(scalar_rhs_case(ty, form, n, cfg, mode, const=rng.choice([3, 5, 2])))
                            else:
                                add(scalar_rhs_case(ty, form, n, cfg, mode))
                if flt:
                    # ---- symbolic scalar as a direct operand of + and * : UF on short tensors
                    ST = [bn('add', T_('a'), S_), bn('mul', S_, T_('a')), bn('add', bn('mul', T_('a'), S_), T_('b')), bn('mul', bn('sub', T_('a'), T_('b')), S_),
                          bn('add', S_, un('abs', T_('a'))), bn('sub', bn('mul', S_, T_('a')), T_('b'))]
                    for i, t in enumerate(sample(rng, ST, 6 if thorough else 3)):
                        add(expr_case('sym-scalar', ty, t, ['set', 'add', 'mul', 'sub', 'div'][i % 5], min(V + 1, 5) if i % 2 == 0 else 3, cfg, mode, ['own', 'ctor', 'map'][i % 3]))
                    # ---- element-wise math functions (opaque per function)
                    for f in sample(rng, MATH_FNS, 6 if thorough else 2):
                        t = rng.choice([fn(f, T_('a')), bn('add', fn(f, T_('a')), T_('b')), fn(f, bn('sub', T_('a'), T_('b'))), bn('mul', K_(2.5), fn(f, T_('a')))])
                        form = rng.choice(['set', 'sub', 'mul'])
                        for n in (2 * V + 1, V + 1, V, 3, 1):
                            c = expr_case('math', ty, t, form, n, cfg, mode, 'own')
                            c.pairs = uf_pairs(c)
                            if c.pairs <= PMAX: add(c); break
                else:
                    # ---- integer unary minus: isolated family (known defect in the vector body)
                    NT = [un('neg', T_('a')), bn('add', un('neg', T_('a')), T_('b')), bn('sub', T_('b'), un('neg', T_('a'))),
                          un('abs', un('neg', T_('a'))), un('neg', bn('sub', T_('a'), T_('b'))), bn('add', S_, un('neg', T_('a')))]
                    ns = sorted(set([1, V - 1, V, V + 1, 2 * V + 1] + sample(rng, sizes, 4 if thorough else 1)))
                    for i, n in enumerate([x for x in ns if x >= 1]):
                        t = NT[i % len(NT)] if i else NT[0]
                        add(expr_case('neg-int', ty, t, ['set', 'add', 'sub'][i % 3] if i else 'set', n, cfg, mode, 'own' if i % 2 == 0 else 'ctor' if i % 3 else 'own'))
                    # ---- multiplication by a small constant (real multiplier in SAT: few, small cases; the emulated
                    #      multiplies -- int32 under SSE2, int64 below AVX-512 -- only on the shortest sizes)
                    KT = [bn('mul', T_('a'), K_(3)), bn('mul', K_(5), T_('a')), bn('add', bn('mul', T_('a'), K_(3)), T_('b')), bn('mul', bn('sub', T_('a'), T_('b')), K_(3))]
                    kn = [V, V + 1, 2 * V + 1] if native_mul else ([V + 1] if ty is INT else [])
                    for i, n in enumerate(kn):
                        add(expr_case('int-kmul', ty, KT[(i + len(out)) % len(KT)], ['set', 'add', 'sub'][i % 3], n, cfg, mode, 'own'))
                    # ---- pure products in ATOMS mode
                    ok64 = ty is INT or isa == 'avx512'     # the 32-bit-halves emulation of the 64-bit multiply leaves the typing
                    if ok64:
                        for n in sorted(set(sample(rng, sizes, 5 if thorough else 2) + [V, 2 * V + 1])):
                            add(atoms_mul_case(ty, 'set', n, cfg1, kind=rng.choice(['own', 'map'])))
                        for n in sample(rng, sizes, 3 if thorough else 1):
                            add(atoms_mul_case(ty, 'mul', n, cfg1))
                        for n in sample(rng, sizes, 4 if thorough else 2):
                            add(atoms_mul_case(ty, 'set', n, cfg1, scalar=rng.choice(['left', 'right'])))
    seen = set(); res = []
    for c in out:
        if c.cid not in seen: seen.add(c.cid); res.append(c)
    return res

def evidence_extra(tier):
    return {'box': {'tree_depth': 3 if tier == 'thorough' else 2,
                    'operators': 'unary - abs sqrt; + - * / (tensor-tensor, scalar-tensor, tensor-scalar); < > == <= >= !=; && || !; libm sample',
                    'assignment_forms': '= (operator=, constructor, evaluate), += -= *= /=; tensor op= scalar',
                    'sizes': '1..2V+1 for every (ISA, type), V = SIMD width in elements',
                    'storage': 'owning aligned Tensor, TensorMap on exact-extent unaligned buffers',
                    'types': 'float double (UF), int32 int64_t (SYM; ATOMS for products)',
                    'isas': isas(tier)}}
