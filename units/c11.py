"""C11 -- LU factors are triangular (and reproduce the row-permuted matrix: NOT decided here).

Claimed for the *exact* clauses of the property only (DESIGN.md section 5, C11):
  * L is unit lower triangular: L(i,j) == 0 exactly for j > i, L(i,i) == 1 bit for bit;
  * U is upper triangular: U(i,j) == 0 exactly for i > j;
  * the returned permutation is a bijection (vector form: values in [0,n) and pairwise distinct; matrix form:
    entries are exactly 0 or 1 with exactly one 1 per row and per column);
  * frame / memory safety / no allocation.
The backward-error clause ||LU - PA|| <= c n eps || |L||U| || and reconstruct() need real arithmetic reasoning that no
installed back end can do (one duplicated 32-bit multiplier already defeats them): NOT decided, never counted.
Mode UF on pipeline P0: all float arithmetic opaque, comparisons (pivot search) real, so the clauses hold for all
inputs including those on which the elimination divides by zero.
"""
from units.common import *

LEVEL_NOTE = ('structural clauses only (triangularity, unit diagonal, permutation is a bijection, frame) for n <= 8; n >= 9 (block algorithm) and the residual bound of the '
              'property is not decided by this technique')

def lu_case(ty, n, strat, pform, cfg):
    T = ty.cpp
    a = Buf('a', ty, n * n, 'in'); l = Buf('l', ty, n * n, 'out'); u = Buf('u', ty, n * n, 'out')
    bufs = [a, l, u]
    pdecl = ''; pargs = ''; pcopy = ''
    ens = []
    if pform == 'vec':
        p = Buf('p', U64, n, 'out'); bufs.append(p)
        pdecl = 'Tensor<size_t,%d> P;' % n; pargs = ', P'; pcopy = ' for (int i_ = 0; i_ < %d; ++i_) p[i_] = P.data()[i_];' % n
    elif pform == 'mat':
        p = Buf('p', ty, n * n, 'out'); bufs.append(p)
        pdecl = 'Tensor<%s,%d,%d> P;' % (T, n, n); pargs = ', P'; pcopy = ' ' + copy_out('P', 'p', n * n)
    body = ('    %s\n    Tensor<%s,%d,%d> L, U; %s\n    lu<LUCompType::%s>(A, L, U%s);\n    %s %s%s'
            % (town(ty, (n, n), 'a'), T, n, n, pdecl, strat, pargs, copy_out('L', 'l', n * n), copy_out('U', 'u', n * n), pcopy))
    zero = E.const(0.0, ty); one = E.const(1.0, ty)
    for i in range(n):
        for j in range(n):
            k = i * n + j
            if j > i: ens.append(('bool', 'L(%d,%d) == 0 (above the diagonal)' % (i, j), E.post(l, k).cmp('eq', zero)))
            if j == i: ens.append(('bool', 'L(%d,%d) == 1 bit for bit' % (i, i), E.post(l, k).same(one)))
            if i > j: ens.append(('bool', 'U(%d,%d) == 0 (below the diagonal)' % (i, j), E.post(u, k).cmp('eq', zero)))
    if pform == 'vec':
        for i in range(n):
            ens.append(('bool', 'P[%d] < n' % i, E.post(p, i).cmp('lt', E.const(n, U64))))
            for j in range(i + 1, n):
                ens.append(('bool', 'P[%d] != P[%d]' % (i, j), E.post(p, i).cmp('ne', E.post(p, j))))
    elif pform == 'mat':
        for i in range(n):
            for j in range(n):
                x = E.post(p, i * n + j)
                ens.append(('bool', 'P(%d,%d) is exactly 0 or 1' % (i, j), x.same(E.const(0.0, ty)).bor(x.same(one))))
        for i in range(n):
            row = None; col = None
            for j in range(n):
                r = E.post(p, i * n + j).same(one); c = E.post(p, j * n + i).same(one)
                row = r if row is None else row.bor(r); col = c if col is None else col.bor(c)
            ens.append(('bool', 'row %d of P has a 1' % i, row)); ens.append(('bool', 'column %d of P has a 1' % i, col))
            for j in range(n):
                for j2 in range(j + 1, n):
                    ens.append(('bool', 'row %d of P has at most one 1 (%d,%d)' % (i, j, j2), (E.post(p, i * n + j).same(one).band(E.post(p, i * n + j2).same(one))).bnot()))
    c = Case('C11/lu-%s%s/%s/%d/%s' % (strat, '-P' + pform if pform else '', ty.name, n, cfg.tag()), 'C11', body, bufs, ens, 'UF', cfg)
    return c

def cases(tier, seed):
    rng = random.Random(seed)
    thorough = tier == 'thorough'
    out = []
    for isa in isas(tier):
        cfg = Cfg(isa, pipe='P0')
        for ty in (DBL, FLT):
            # n <= 8 only: from n = 9 on the block/recursive algorithm produces the structural zeros and the unit diagonal by
            # arithmetic (x - x, x / x), which uninterpreted arithmetic cannot decide (measured: BlockLU n=9 fails U(1,0)==0 with
            # no failing IEEE input; SimpleLU n=9 exceeds 300 s).  Stated in LEVEL_NOTE; seed C11-1 (n >= 9) is therefore missed.
            sizes = (1, 2, 3, 4, 5) if not thorough else (1, 2, 3, 4, 5, 6, 7, 8)
            for n in sizes:
                for strat in ('BlockLU', 'SimpleLU'):
                    out.append(lu_case(ty, n, strat, None, cfg))
                for strat in ('BlockLUPiv', 'SimpleLUPiv'):
                    if n <= (4 if not thorough else 6):
                        out.append(lu_case(ty, n, strat, 'vec', cfg))
                    if n <= (2 if not thorough else 4):      # the matrix form scatters 1.0 at symbolic positions: expensive
                        out.append(lu_case(ty, n, strat, 'mat', cfg))
    return out
