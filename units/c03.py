"""C03 -- pairwise einsum / contraction / inner / outer / explicit output equals the Einstein summation it denotes.

Contract (from the property text).  For two index lists L0, L1 in which no index occurs more than twice and operand
shapes consistent with them:
  * the result is a tensor whose axes are the non-repeated (free) indices in order of first appearance in L0 ++ L1, with
    the extents the operands have on those indices.  The unit contains
        static_assert(std::is_same<decltype(C), Tensor<T, <shape computed here from the property text>>>::value)
    so a result of another type is a compile error of the unit (a front-end fact, reported as COMPILE-ERROR);
  * every element out[f] == sum over all repeated indices of a[L0 |-> values] * b[L1 |-> values]; an index repeated
    *within* one list takes that operand's diagonal (and is summed, as it is repeated);
  * single-tensor einsum/contraction (traces, partial traces, diagonal reductions): out[f] == sum a[...]   (linear: atoms='LIN');
  * inner(a,b) == sum_p a[p]*b[p]; outer(a,b)[p,q] == a[p]*b[q] with shape (dims(a)...,dims(b)...);
  * explicit output einsum<I0,I1,OIndex<perm of free>>: the same sums, axes in the requested order (C++17 only API);
  * every element of the result is written, nothing else is, no access outside the operands.
Mode ATOMS (DESIGN.md section 4): out[e] equals the Einstein polynomial (each product exactly once) for all element values;
int32 with real adders, float/double in the ring reinterpretation (exact for integer-valued data, the rounding bound of
the property is not machine-checked).

Index patterns: every way of identifying index positions between and within the two lists (= matchings of the r0+r1
positions), operand ranks (1..3,1..3) in the quick tier, up to 4 in the thorough tier.  Extents are drawn from
{1,2,3,V,V+1} (V = SIMD width of the type under the ISA) with *distinct extents on distinct free indices*, so that a
transposed result cannot have the right type by accident; patterns with more free indices than that set has members draw
the missing extents from 4,5,6,....  Size budget per case (symbolic execution of the loop nest under --dfcc is the cost): quick
<= 100 loop-nest iterations, <= 64 result elements, <= 24 terms per element; thorough 240 / 200 / 40; operands <= 600 elements,
product table <= 4096 entries.  For patterns whose smallest admissible instance is larger (many free indices) the first two
limits are relaxed by 2x (quick) / 3.2x (thorough); patterns still over budget are not generated (outer-like patterns with 6
free indices in the quick tier, with >= 7 in the thorough tier; counted in evidence_extra).  Cases with more than 120 loop
iterations ask for the assertion form of the same clauses directly (the DFCC-instrumented program would time out first).
Index *labels* are arbitrary numbers (the explicit-output form sorts by
label value), so half of the cases use a random injective relabelling.

Families (case id = C03/<family>/<type>/<L0>,<L1>[-><O>]/<extents>/<cfg>):
  einsum, contraction            both lists without internal repeats (pure pairwise contraction / outer / inner patterns)
  <api>-diag                     some index repeated within one list (diagonal of that operand), none of the two classes below
  <api>-diag-blast               the last index of the second list also occurs earlier in the second list and its extent is not a
                                 multiple of the 128-bit vector width of the type (loop nest stays scalar)
  <api>-diag-blastv              same, extent a multiple of the 128-bit width (the loop nest vectorises along that axis)
  einsum-diag-disp, explicit-diag-disp   a list with an internal repeat whose head/tail matches the other list the way a
                                 generalised matrix-vector / vector-matrix / matrix-matrix pattern does (dispatch_like());
                                 -disp1: the same with extent 1 on every internally repeated index (degenerate diagonal)
  explicit                       einsum<..,..,OIndex<..>>, permutations of the free indices sampled (C++17-only API)
  inner, outer                   inner(a,b), outer(a,b), dyadic(a,b)
  single, single-contraction, single-explicit, inner1     one-operand forms (LIN)
  expr, map                      operands given as unevaluated expressions / TensorMap
  CONTRACT_OPT=<n> variants carry the macro in the configuration tag (the macro is spelled CONTRACT_OPT, there is no
  FASTOR_CONTRACT_OPT; documented values 1 and 2).
Not generated because the unit is rejected by the compiler on the unchanged tree (set C03_INCLUDE_REJECTED=1 to generate them):
  outer-ext1   outer(a,b) with an operand of type Tensor<T,1>: the Tensor<T,1> overloads return Tensor<T,Rest...> without the
               extent-1 axis (result type differs from dims(a)...,dims(b)...), and outer(Tensor<T,1>,Tensor<T,1>) is ambiguous
  outer-scalar outer(Tensor<T>,Tensor<T>) (two rank-0 tensors) is ambiguous for clang++ (g++ accepts it)
  einsum-diag-rej, explicit-diag-rej   an internal repeat for which is_generalised_matrix_matrix indexes one of the index lists
               out of bounds in a constant expression (e.g. einsum<Index<2>,Index<3,2,3>>): hard compile error
  CONTRACT_OPT=1,2 + FASTOR_DONT_VECTORISE   'unknown type name V' (strided_contraction.h:70, :160) for rank-4 operands
  CONTRACT_OPT=-2   contraction.h:371 uses Index<>::NoIndices, which does not exist
  CONTRACT_OPT=-1,-3   internal variants: 'unknown type name V' under FASTOR_DONT_VECTORISE (contraction.h:461, :327); -3 additionally
               rejects reductions by static_assert and evaluates get_indices(..., -1) in a constant expression for some patterns
Also left out: strided_contraction<I0,I1>(a,b) (strided_contraction.h) -- not reachable from einsum (the dispatch in einsum.h is
commented out) and not instantiable (general_stride_finder calls contains() on a std::array: einsum_meta.h:500).
Families that fail on the unchanged tree (genuine defects, native replay reproduces; reported, not repaired here):
  <api>-diag-blastv   is_vectorisable (einsum_meta.h) only asks whether the last index of the second list occurs in the *first*
                      list; when it occurs earlier in the second list the loop nest still vector-loads b / stores out along it
                      (wrong sums, reads/writes past the operands)
  einsum-diag-disp, explicit-diag-disp   is_generalised_matrix_vector / vector_matrix / matrix_matrix (einsum_meta.h) ignore internal
                      repeats: the pattern is sent to _matmul on the flattened operands
"""
import os, re
from units.common import *

INCLUDE_REJECTED = bool(os.environ.get('C03_INCLUDE_REJECTED'))

LEVEL_NOTE = ('per instantiation (index pattern, extents, type, API form, ISA, std, CONTRACT_OPT): out[f] == Einstein sum over the repeated indices '
              'as polynomials (ATOMS mode; single-operand forms linear) + result type by static_assert (front-end fact) + every element '
              'written + frame + memory safety, for all element values; patterns and extents enumerated / sampled')

SKIPPED = {'quick': 0, 'thorough': 0}
BIG = 120

# ------------------------------------------------------------------------------------------------------------------
# index patterns
# ------------------------------------------------------------------------------------------------------------------
def matchings(n):
    """all label lists of length n in which no label occurs more than twice, labels numbered in order of first appearance."""
    out = []
    def rec(labels, nxt, cnt):
        if len(labels) == n: out.append(tuple(labels)); return
        for l in range(nxt):
            if cnt[l] < 2:
                cnt[l] += 1; rec(labels + [l], nxt, cnt); cnt[l] -= 1
        cnt.append(1); rec(labels + [nxt], nxt + 1, cnt); cnt.pop()
    rec([], 0, [])
    return out

def has_within(L):
    return len(set(L)) != len(L)

def analyse(L0, L1):
    cat = list(L0) + list(L1)
    free = [l for l in cat if cat.count(l) == 1]
    contracted = []
    for l in cat:
        if cat.count(l) == 2 and l not in contracted: contracted.append(l)
    return free, contracted

def dispatch_like(L0, L1):
    """pattern class (on the index lists only): one list matches the tail / the head of the other position by position
    (shape of a generalised matrix-vector / vector-matrix product), or -- nc being the number of repeated indices -- the last
    nc entries of the first list match the first nc entries of the second (generalised matrix-matrix product).
    Returns True / False, or 'oob' when that last comparison would need a position outside one of the lists."""
    r0, r1 = len(L0), len(L1); n = min(r0, r1)
    mv = r0 != r1 and tuple(L0[r0 - n:]) == tuple(L1[r1 - n:])
    vm = r0 != r1 and tuple(L0[:n]) == tuple(L1[:n])
    uniq = len(set(list(L0) + list(L1)))
    nc = r0 + r1 - uniq
    inner_ = r0 == r1 and uniq == r1
    if mv or vm: return True
    if inner_ or nc == 0: return False
    for k in range(nc):
        i0 = r0 - nc + k
        if i0 < 0 or k >= r1: return 'oob'
        if L1[k] != L0[i0]: return False
    return True

def diag_class(L0, L1, ext, ty, api):
    if not (has_within(L0) or has_within(L1)): return ''
    if api in ('einsum', 'explicit'):
        d = dispatch_like(L0, L1)
        if d == 'oob': return '-diag-rej'
        if d:
            rep = [l for L in (L0, L1) for l in set(L) if list(L).count(l) == 2]
            return '-diag-disp' if any(ext[l] > 1 for l in rep) else '-diag-disp1'
    if len(L1) and L1[-1] in L1[:-1]:
        w128 = 128 // ty.bits
        return '-diag-blastv' if ext[L1[-1]] % w128 == 0 else '-diag-blast'
    return '-diag'

def pool_for(isa, ty):
    V = vec_elems(isa, ty)
    if V <= 1: return [1, 2, 3, 4, 5]
    p = []
    for x in (1, 2, 3, V, V + 1):
        if x not in p: p.append(x)
    # even extents that are a multiple of a narrower vector width but not of the next one (6 = 2 mod 4, 10, 12 = 4 mod 8):
    # the general loop nest picks its SIMD type and stride from divisibility of the fastest-changing extent
    for x in (6, 10, 12):
        if x not in p: p.append(x)
    return p

def choose_extents(rng, L0, L1, isa, ty, loops, outmax, force=None, terms=10 ** 9, relax=1):
    """extent per label: distinct on distinct free indices, from {1,2,3,V,V+1} (extended by 4,5,6.. when more are needed)."""
    free, contracted = analyse(L0, L1)
    pool = pool_for(isa, ty)
    fpool = list(pool)
    x = 4
    while len(fpool) < len(free):
        if x not in fpool: fpool.append(x)
        x += 1
    def ok(ext, relax=1):
        n0 = prod(ext[l] for l in L0); n1 = prod(ext[l] for l in L1) if L1 is not None and len(L1) else 1
        tot = prod(ext[l] for l in set(list(L0) + list(L1)))
        no = prod(ext[l] for l in free)
        nt = prod(ext[l] for l in contracted)
        return tot <= loops * relax and no <= outmax * relax and nt <= terms and n0 * n1 <= 4096 and n0 <= 600 and n1 <= 600
    for _ in range(300):
        ext = {}
        for l, e in zip(free, rng.sample(fpool, len(free))): ext[l] = e
        for l in contracted: ext[l] = rng.choice(pool)
        if force: ext.update(force)
        if len({ext[l] for l in free}) != len(free): continue
        if ok(ext): return ext
    # smallest admissible instance (patterns with many free indices: the budget is relaxed by `relax` for these only)
    ext = {}
    small = sorted(fpool)[:len(free)]
    rng.shuffle(small)
    for l, e in zip(free, small): ext[l] = e
    for l in contracted: ext[l] = 2
    if force:
        ext.update(force)
        if len({ext[l] for l in free}) != len(free): return None
    return ext if ok(ext, relax) else None

def relabel(rng, L0, L1, on):
    labs = sorted(set(list(L0) + list(L1)))
    if not on: return {l: l for l in labs}
    vals = rng.sample(range(0, 9), len(labs))
    return dict(zip(labs, vals))

# ------------------------------------------------------------------------------------------------------------------
# C++ text helpers
# ------------------------------------------------------------------------------------------------------------------
def ttype(ty, shape):
    return 'Tensor<%s%s>' % (ty.cpp, ''.join(',%d' % s for s in shape))

def idx_t(L, lab, name='Index'):
    return '%s<%s>' % (name, ','.join(str(lab[l]) for l in L))

def pat_str(L, lab):
    return ''.join(str(lab[l]) for l in L) if len(L) else '-'

def ext_str(L, ext):
    return 'x'.join(str(ext[l]) for l in L) if len(L) else 's'

def operand(ty, shape, name, kind):
    """declaration of operand `name` (upper-case C++ variable) and the expression passed to the API."""
    N = name.upper()
    if kind == 'map':
        return 'TensorMap<%s%s> %s(const_cast<%s*>(%s));' % (ty.cpp, ''.join(',%d' % s for s in shape), N, ty.cpp, name), N
    decl = '%s %s(%s);' % (ttype(ty, shape), N, name)
    if kind == 'expr': return decl, '(%s+0)' % N
    return decl, N

def result_text(ty, oshape, call, n):
    return ('    auto C = %s;\n    static_assert(std::is_same<decltype(C),%s>::value, "C03: result type is not the free indices in order of first appearance");\n    %s'
            % (call, ttype(ty, oshape), copy_out('C', 'c', n)))

# ------------------------------------------------------------------------------------------------------------------
# case builders
# ------------------------------------------------------------------------------------------------------------------
def pair_case(ty, L0, L1, ext, lab, cfg, api='einsum', O=None, kinds=('own', 'own')):
    """api: einsum | contraction | explicit (O = requested order of the free indices)."""
    free, contracted = analyse(L0, L1)
    s0 = [ext[l] for l in L0]; s1 = [ext[l] for l in L1]
    order = list(O) if O is not None else free
    oshape = [ext[l] for l in order]
    na = prod(s0); nb = prod(s1); no = prod(oshape)
    a = Buf('a', ty, na, 'in', atoms='A'); b = Buf('b', ty, nb, 'in', atoms='B'); c = Buf('c', ty, no, 'out')
    da, xa = operand(ty, s0, 'a', kinds[0]); db, xb = operand(ty, s1, 'b', kinds[1])
    if api == 'explicit':
        call = 'einsum<%s,%s,%s>(%s,%s)' % (idx_t(L0, lab), idx_t(L1, lab), idx_t(order, lab, 'OIndex'), xa, xb)
    else:
        call = '%s<%s,%s>(%s,%s)' % (api, idx_t(L0, lab), idx_t(L1, lab), xa, xb)
    body = '    %s %s\n%s' % (da, db, result_text(ty, oshape, call, no))
    ens = []
    cshape = [ext[l] for l in contracted]
    for fidx in indices([ext[l] for l in free]):
        env = dict(zip(free, fidx))
        terms = []
        for cidx in indices(cshape):
            env.update(zip(contracted, cidx))
            terms.append(E.inp(a, flat(s0, [env[l] for l in L0])) * E.inp(b, flat(s1, [env[l] for l in L1])))
        ens.append((c, flat(oshape, [env[l] for l in order]), E.total(terms, ty)))
    dcls = diag_class(L0, L1, ext, ty, api)
    fam = api + dcls
    if kinds != ('own', 'own'): fam = {'expr': 'expr', 'map': 'map'}[[k for k in kinds if k != 'own'][0]] + dcls
    pat = '%s,%s' % (pat_str(L0, lab), pat_str(L1, lab)) + ('->' + pat_str(order, lab) if api == 'explicit' else '')
    if kinds != ('own', 'own'): pat = api + ':' + pat
    cid = 'C03/%s/%s/%s/%s,%s/%s' % (fam, ty.name, pat, ext_str(L0, ext), ext_str(L1, ext), cfg.tag())
    loops = prod(ext[l] for l in set(list(L0) + list(L1)))
    # big loop nests (thorough tier): the DFCC-instrumented program does not fit the 45 s budget; ask for the assertion form of the
    # same clauses directly instead of timing out first (reported as enforced_by=assertion)
    kw = {'form': 'harness'} if loops > BIG else {}
    return Case(cid, 'C03', body, [a, b, c], ens, 'ATOMS', cfg, unwind=4 * max(loops, na, nb, no) + 64, **kw)

def single_case(ty, L0, ext, lab, cfg, api='einsum', O=None, kind='own'):
    free, contracted = analyse(L0, ())
    s0 = [ext[l] for l in L0]
    order = list(O) if O is not None else free
    oshape = [ext[l] for l in order]
    na = prod(s0); no = prod(oshape)
    a = Buf('a', ty, na, 'in', atoms='LIN'); c = Buf('c', ty, no, 'out')
    da, xa = operand(ty, s0, 'a', kind)
    if api == 'explicit': call = 'einsum<%s,%s>(%s)' % (idx_t(L0, lab), idx_t(order, lab, 'OIndex'), xa)
    else: call = '%s<%s>(%s)' % (api, idx_t(L0, lab), xa)
    body = '    %s\n%s' % (da, result_text(ty, oshape, call, no))
    ens = []
    cshape = [ext[l] for l in contracted]
    for fidx in indices([ext[l] for l in free]):
        env = dict(zip(free, fidx))
        terms = []
        for cidx in indices(cshape):
            env.update(zip(contracted, cidx))
            terms.append(E.inp(a, flat(s0, [env[l] for l in L0])))
        ens.append((c, flat(oshape, [env[l] for l in order]), E.total(terms, ty)))
    fam = {'einsum': 'single', 'contraction': 'single-contraction', 'explicit': 'single-explicit'}[api]
    if kind != 'own': fam += '-' + kind
    pat = pat_str(L0, lab) + ('->' + pat_str(order, lab) if api == 'explicit' else '')
    cid = 'C03/%s/%s/%s/%s/%s' % (fam, ty.name, pat, ext_str(L0, ext), cfg.tag())
    return Case(cid, 'C03', body, [a, c], ens, 'ATOMS', cfg, unwind=4 * max(na, no) + 64)

def inner_case(ty, shape, cfg, kinds=('own', 'own')):
    n = prod(shape)
    a = Buf('a', ty, n, 'in', atoms='A'); b = Buf('b', ty, n, 'in', atoms='B'); c = Buf('c', ty, 1, 'out')
    da, xa = operand(ty, shape, 'a', kinds[0]); db, xb = operand(ty, shape, 'b', kinds[1])
    body = ('    %s %s\n    auto r = inner(%s,%s);\n    static_assert(std::is_same<decltype(r),%s>::value, "C03: inner returns the scalar type");\n    c[0] = r;'
            % (da, db, xa, xb, ty.cpp))
    ens = [(c, 0, E.total([E.inp(a, p) * E.inp(b, p) for p in range(n)], ty))]
    fam = 'inner' if kinds == ('own', 'own') else 'inner-' + '-'.join(kinds)
    return Case('C03/%s/%s/%s/%s' % (fam, ty.name, 'x'.join(map(str, shape)) if shape else 's', cfg.tag()), 'C03', body, [a, b, c], ens, 'ATOMS', cfg,
                unwind=4 * n + 64)

def inner1_case(ty, N, rank, cfg):
    """inner(a) on a uniform tensor: a_iii..i summed (rank 0: the value, rank 1: the sum)."""
    shape = [N] * rank; n = prod(shape)
    a = Buf('a', ty, n, 'in', atoms='LIN'); c = Buf('c', ty, 1, 'out')
    body = '    %s A(a);\n    c[0] = inner(A);' % ttype(ty, shape)
    if rank <= 1: terms = [E.inp(a, p) for p in range(n)]
    else: terms = [E.inp(a, flat(shape, [i] * rank)) for i in range(N)]
    return Case('C03/inner1/%s/%s/%s' % (ty.name, 'x'.join(map(str, shape)) if shape else 's', cfg.tag()), 'C03', body, [a, c], [(c, 0, E.total(terms, ty))], 'ATOMS', cfg,
                unwind=4 * n + 64)

def outer_case(ty, s0, s1, cfg, kinds=('own', 'own'), api='outer', fam=None):
    na = prod(s0); nb = prod(s1)
    a = Buf('a', ty, na, 'in', atoms='A'); b = Buf('b', ty, nb, 'in', atoms='B'); c = Buf('c', ty, na * nb, 'out')
    da, xa = operand(ty, s0, 'a', kinds[0]); db, xb = operand(ty, s1, 'b', kinds[1])
    body = '    %s %s\n%s' % (da, db, result_text(ty, list(s0) + list(s1), '%s(%s,%s)' % (api, xa, xb), na * nb))
    ens = [(c, p * nb + q, E.inp(a, p) * E.inp(b, q)) for p in range(na) for q in range(nb)]
    fam = fam or (api if kinds == ('own', 'own') else api + '-' + '-'.join(kinds))
    if list(s0) == [1] or list(s1) == [1]: fam = 'outer-ext1'      # Tensor<T,1> overloads: see the module docstring
    if not len(s0) and not len(s1): fam = 'outer-scalar'
    sh = lambda s: 'x'.join(map(str, s)) if len(s) else 's'
    return Case('C03/%s/%s/%s,%s/%s' % (fam, ty.name, sh(s0), sh(s1), cfg.tag()), 'C03', body, [a, b, c], ens, 'ATOMS', cfg, unwind=4 * na * nb + 64)

# ------------------------------------------------------------------------------------------------------------------
def perms_sample(rng, free, k):
    ps = [p for p in itertools.permutations(free)]
    return sample(rng, ps, k)

def cases(tier, seed):
    rng = random.Random(seed)
    thorough = tier == 'thorough'
    out = []
    types = [INT, FLT, DBL]
    ISAS = isas(tier)
    R = 4 if thorough else 3
    LOOPS, OUT, TERMS, RELAX = (240, 200, 40, 3.2) if thorough else (100, 64, 24, 2)
    skipped = 0
    combos = [(ty, isa) for isa in ISAS for ty in types]
    rot = [0]
    def next_combo():
        c = combos[rot[0] % len(combos)]; rot[0] += 1
        return c
    def std_for():
        return rng.choice(['c++14', 'c++17']) if thorough else 'c++14'
    pats = []
    for r0 in range(1, R + 1):
        for r1 in range(1, R + 1):
            for m in matchings(r0 + r1):
                pats.append((m[:r0], m[r0:]))
    rng.shuffle(pats)
    between = [p for p in pats if not has_within(p[0]) and not has_within(p[1])]
    diag = [p for p in pats if has_within(p[0]) or has_within(p[1])]

    def add_pair(L0, L1, api, ty, isa, std, macros=(), O='auto', kinds=('own', 'own'), relab=None, force=None):
        nonlocal skipped
        ext = choose_extents(rng, L0, L1, isa, ty, LOOPS, OUT, force, TERMS, RELAX)
        if ext is None: skipped += 1; return
        lab = relabel(rng, L0, L1, rng.random() < 0.5 if relab is None else relab)
        free, _ = analyse(L0, L1)
        if diag_class(L0, L1, ext, ty, api) == '-diag-rej' and not INCLUDE_REJECTED: return
        if api == 'explicit':
            if O == 'auto': O = rng.choice(list(itertools.permutations(free)))
            out.append(pair_case(ty, L0, L1, ext, lab, Cfg(isa, 'c++17', macros=macros), 'explicit', O, kinds))
        else:
            out.append(pair_case(ty, L0, L1, ext, lab, Cfg(isa, std, macros=macros), api, None, kinds))

    # --- einsum / contraction on every pattern -------------------------------------------------------------------
    for (L0, L1) in between + sample(rng, between, 250 if thorough else 45):
        ty, isa = next_combo(); add_pair(L0, L1, 'einsum', ty, isa, std_for())
    for (L0, L1) in sample(rng, between, 300 if thorough else 40):
        ty, isa = next_combo(); add_pair(L0, L1, 'contraction', ty, isa, std_for())
    # an index repeated within one list (diagonal of that operand); the sub-family is decided by diag_class()
    dsel = sample(rng, diag, 300 if thorough else 30)
    for (L0, L1) in dsel:
        ty, isa = next_combo(); add_pair(L0, L1, 'einsum', ty, isa, std_for())
        ty, isa = next_combo(); add_pair(L0, L1, 'contraction', ty, isa, std_for())
    # last index of the second list repeated within it, extent a multiple of the 128-bit width (vectorising loop nest)
    blast = [p for p in diag if p[1][-1] in p[1][:-1]]
    for (L0, L1) in sample(rng, blast, 60 if thorough else 8):
        ty, isa = next_combo()
        w = 128 // ty.bits
        add_pair(L0, L1, rng.choice(['einsum', 'contraction']), ty, isa, std_for(), force={L1[-1]: rng.choice([w, 2 * w])})
    # internal repeat + head/tail match of the two lists (shape of a generalised matrix-vector / vector-matrix / matrix-matrix product)
    disp = [p for p in diag if dispatch_like(*p)]
    for (L0, L1) in sample(rng, disp, 80 if thorough else 6):
        ty, isa = next_combo()
        rep = [l for L in (L0, L1) for l in set(L) if list(L).count(l) == 2]
        add_pair(L0, L1, 'einsum', ty, isa, std_for(), force={rep[0]: rng.choice([2, 3])})
    # --- explicit output order (C++17) ---------------------------------------------------------------------------
    esel = [p for p in between if len(analyse(*p)[0]) >= 1]
    esel = sample(rng, esel, 220 if thorough else 28)
    for (L0, L1) in esel:
        free, _ = analyse(L0, L1)
        for O in perms_sample(rng, free, 2 if thorough else 1) + ([tuple(free)] if rng.random() < 0.2 else []):
            ty, isa = next_combo(); add_pair(L0, L1, 'explicit', ty, isa, 'c++17', O=O)
    for (L0, L1) in sample(rng, [p for p in diag if len(analyse(*p)[0]) >= 1], 60 if thorough else 8):
        ty, isa = next_combo(); add_pair(L0, L1, 'explicit', ty, isa, 'c++17')
    # --- CONTRACT_OPT variants of the loop nest --------------------------------------------------------------------
    # documented values (comments in contraction.h): 1 and 2.  The negative values select internal variants that are rejected by the
    # compiler for many instantiations on the unchanged tree (-2: always, Index<>::NoIndices; -1/-3: 'unknown type name V' under
    # FASTOR_DONT_VECTORISE, -3: static_assert on reductions / constexpr index -1): generated only with C03_INCLUDE_REJECTED=1
    for opt in (1, 2) + ((-1, -2, -3) if INCLUDE_REJECTED else ()):
        sel = sample(rng, between, 40 if thorough else 10)
        for (L0, L1) in sel:
            free, _ = analyse(L0, L1)
            ty, isa = next_combo()
            # CONTRACT_OPT=1/2 with FASTOR_DONT_VECTORISE is rejected by the compiler for rank-4 operands on the unchanged tree
            # ('unknown type name V', strided_contraction.h:70/:160): the scalar configuration is not combined with the macro
            if isa == 'scalar' and not INCLUDE_REJECTED: isa = 'sse2'
            add_pair(L0, L1, 'contraction', ty, isa, std_for(), macros=('CONTRACT_OPT=%d' % opt,))
    # --- operands as expressions / maps ------------------------------------------------------------------------------
    for (L0, L1) in sample(rng, between, 30 if thorough else 8):
        ty, isa = next_combo()
        kinds = rng.choice([('expr', 'own'), ('own', 'expr'), ('expr', 'expr'), ('map', 'own'), ('own', 'map'), ('map', 'map')])
        add_pair(L0, L1, rng.choice(['einsum', 'contraction']), ty, isa, std_for(), kinds=kinds)
    # --- inner / outer ---------------------------------------------------------------------------------------------
    for isa in ISAS:
        for ty in types:
            V = vec_elems(isa, ty)
            shapes = [(), (1,), (V,), (V + 1,), (2 * V + 3,), (2, 3), (3, V + 1), (2, 3, V), (2, 2, 3, 2)]
            shapes = [x for x in shapes if prod(x) <= TERMS]
            for shp in (shapes if thorough else sample(rng, shapes, 3)):
                out.append(inner_case(ty, list(shp), Cfg(isa, std_for())))
            opairs = [((3,), ()), ((), (3,)), ((2,), (V,)), ((V,), (3,)), ((V + 1,), (2 * V + 1,)), ((2, 3), (V,)), ((3,), (2, V + 1)),
                      ((2, 3), (V, 5)), ((2, 3, 1), (V + 1,)), ((2,), (3, 1, V)), ((1, 2), (V + 1,)), ((3,), (1, 1))]
            opairs = [x for x in opairs if prod(x[0]) * prod(x[1]) <= (4 * OUT if thorough else 2 * OUT)]
            for (s0, s1) in (opairs if thorough else sample(rng, opairs, 3)):
                out.append(outer_case(ty, list(s0), list(s1), Cfg(isa, std_for())))
            for n_ in ((2, 3, 4) if not thorough else (2, 3, 4, 5, 8)):      # equal extents: the specialised outer-product kernels
                out.append(outer_case(ty, [n_], [n_], Cfg(isa, std_for()), api=('outer', 'dyadic')[n_ % 2]))
            if INCLUDE_REJECTED:     # an operand of type Tensor<T,1>: see the module docstring
                for (s0, s1) in [((1,), (V,)), ((V + 1,), (1,)), ((1,), (1,)), ((2, 3), (1,))]:
                    out.append(outer_case(ty, list(s0), list(s1), Cfg(isa, 'c++14'), api='outer', fam='outer-ext1'))
                out.append(outer_case(ty, [], [], Cfg(isa, 'c++14'), api='outer', fam='outer-scalar'))
            if thorough or isa == 'avx2':
                out.append(inner_case(ty, [3, min(V, 4) + 1], Cfg(isa, 'c++14'), kinds=('expr', 'own')))
                out.append(inner_case(ty, [V + 1], Cfg(isa, 'c++14'), kinds=('own', 'map')))
                out.append(outer_case(ty, [3], [V + 1], Cfg(isa, 'c++14'), kinds=('expr', 'own')))
                out.append(outer_case(ty, [2, 3], [V], Cfg(isa, 'c++14'), api='dyadic'))
    # --- single-operand forms (linear) ------------------------------------------------------------------------------
    spats = [m for r in range(1, (5 if thorough else 4) + 1) for m in matchings(r)]
    for L0 in spats:
        for api in ('einsum', 'contraction'):
            for _ in range(2 if thorough else 1):
                ty, isa = next_combo()
                ext = choose_extents(rng, L0, (), isa, ty, LOOPS, OUT, None, TERMS, RELAX)
                if ext is None: skipped += 1; continue
                lab = relabel(rng, L0, (), rng.random() < 0.5)
                kind = 'own' if rng.random() < 0.8 else 'expr'
                out.append(single_case(ty, L0, ext, lab, Cfg(isa, std_for()), api, None, kind))
        free, _ = analyse(L0, ())
        if free:
            for O in perms_sample(rng, free, 2 if thorough else 1):
                ty, isa = next_combo()
                ext = choose_extents(rng, L0, (), isa, ty, LOOPS, OUT, None, TERMS, RELAX)
                if ext is None: skipped += 1; continue
                lab = relabel(rng, L0, (), rng.random() < 0.5)
                out.append(single_case(ty, L0, ext, lab, Cfg(isa, 'c++17'), 'explicit', O))
    for isa in ISAS:
        for ty in (types if thorough else [rng.choice(types)]):
            V = vec_elems(isa, ty)
            for (N, rank) in [(1, 0), (min(2 * V + 1, TERMS), 1), (3, 2), (min(V, 4), 3)]:
                out.append(inner1_case(ty, N, rank, Cfg(isa, 'c++14')))
    SKIPPED[tier] = skipped
    seen = set(); res = []
    for c in out:
        if not INCLUDE_REJECTED and re.match(r'C03/(outer-ext1|outer-scalar)/', c.cid): continue
        if c.cid not in seen: seen.add(c.cid); res.append(c)
    return res

def evidence_extra(tier):
    return {'patterns_not_generated_over_size_budget': SKIPPED.get(tier, 0),
            'box': 'operand ranks (1..%d,1..%d), every matching of the index positions; extents from {1,2,3,V,V+1} (+4,5,.. when more distinct free extents are needed), distinct on free indices' % ((4, 4) if tier == 'thorough' else (3, 3))}
