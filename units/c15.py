"""C15 -- multi-tensor einsum is independent of the contraction order the cost model picks.

Contract (from the property text): for index lists with every index occurring at most twice, the result's free indices
are the non-repeated indices in order of first appearance across the operand lists, extents from the operands, and
element (free...) == sum over all repeated indices of the product of the operand elements.
The code is multilinear in its k >= 3 operands, so each instance is decided by a *pair* of runs (vf.multilinear_cases):
  #tags   degree typing with concrete tags: every output element is a sum of products with exactly one factor from each
          operand, and no control decision / address / non-ring operation sees data (obliviousness);
  #basis  the same code evaluated in the integer ring on all tuples of basis elements at once (every operand a one-hot
          tensor at a symbolic position) against the Einstein sum.
A multilinear map is determined by its values on basis tuples (lemma, pen and paper), hence the clauses hold for all
element values (floats: as polynomials, exact for integer-valued data; rounding bound not machine-checked).
Shapes have pairwise distinct extents on distinct free indices where possible and are chosen so that different plans
of the 3-, 4- and 5-operand cost models are the cheapest.  -DFASTOR_DONT_PERFORM_OP_MIN does not compile on this tree
(recorded under C06), so "op-min off" is not covered.
"""
from units.common import *

LEVEL_NOTE = 'per instance (index topology, extents, element type, ISA): multilinearity + obliviousness (TAGS run) and agreement with the Einstein sum on all basis tuples (BASIS run) => all element values; instances enumerated'

NAMES = ['I_', 'J_', 'K_', 'L_', 'M_', 'N_', 'O_', 'P_']

def network_case(lists, ext, cfg, tag='', fam='net', ty=INT):
    """lists: list of tuples of index ids (0..7); ext: {index id: extent}."""
    occ = {}
    order = []
    for l in lists:
        for x in l:
            occ[x] = occ.get(x, 0) + 1
            if x not in order: order.append(x)
    assert all(v <= 2 for v in occ.values())
    free = [x for x in order if occ[x] == 1]
    summed = [x for x in order if occ[x] == 2]
    shapes = [tuple(ext[x] for x in l) for l in lists]
    oshape = tuple(ext[x] for x in free) or (1,)
    bufs = [Buf('abcdefgh'[i], ty, prod(shapes[i]), 'in', atoms=('T', i)) for i in range(len(lists))]
    o = Buf('o', ty, prod(oshape), 'out')
    body = '    ' + ' '.join(town(ty, shapes[i], bufs[i].name) for i in range(len(lists)))
    idx = ','.join('Index<%s>' % ','.join(NAMES[x] for x in l) for l in lists)
    args = ','.join(b.name.upper() for b in bufs)
    if free:
        body += '\n    Tensor<%s,%s> R = einsum<%s>(%s);\n    %s' % (ty.cpp, dims(oshape), idx, args, copy_out('R', 'o', prod(oshape)))
    else:
        body += '\n    o[0] = einsum<%s>(%s).toscalar();' % (idx, args)
    ens = []
    for fa in itertools.product(*[range(ext[x]) for x in free]):
        env = dict(zip(free, fa))
        terms = []
        for sa in itertools.product(*[range(ext[x]) for x in summed]):
            env2 = dict(env); env2.update(zip(summed, sa))
            t = None
            for b, l, sh in zip(bufs, lists, shapes):
                e = E.inp(b, flat(sh, [env2[x] for x in l]))
                t = e if t is None else t * e
            terms.append(t)
        ens.append((o, flat(oshape, fa) if free else 0, E.total(terms, ty)))
    cid = 'C15/%s/%s/%s/%s/%s%s' % (fam, ty.name, '_'.join(''.join('ijklmnop'[x] for x in l) for l in lists), 'x'.join(str(ext[x]) for x in order), cfg.tag(), tag)
    return multilinear_cases(Case(cid, 'C15', body, bufs + [o], ens, 'SYM', cfg))

# topologies (index ids); free indices get pairwise distinct extents
TOPO3 = {
    'chain':      [(0, 1), (1, 2), (2, 3)],          # ij,jk,kl -> il
    'chain-t':    [(1, 0), (1, 2), (3, 2)],          # ji,jk,lk -> il
    'star':       [(0, 4), (1, 4, 5), (2, 5)],       # free on every operand, middle has one free
    'cycle':      [(0, 1), (1, 2), (2, 0)],          # full contraction to a scalar
    'inner-free': [(0, 1), (1, 2, 3), (3, 4)],       # ij,jkl,lm -> ikm (free index k on the inner operand)
    'outer-mid':  [(0, 1), (2,), (1, 3)],            # ij,k,jl -> ikl  (middle operand shares nothing)
    'late-first': [(1, 2), (0, 1), (2, 3)],          # jk,ij,kl -> il: first appearance order is k? no: j,k,i,l -> free i,l appear as i then l
}
TOPO4 = {
    'chain4':     [(0, 1), (1, 2), (2, 3), (3, 4)],
    'ring4':      [(0, 1), (1, 2), (2, 3), (3, 0)],
    'star4':      [(0, 5), (1, 5, 6), (2, 6, 7), (3, 7)],
}

# explicit (topology, extents) instances chosen so that particular plans of the 4- and 5-operand cost models are the
# cheapest ("last three first", "operands 0,2,3 first", tail-heavy 5-chains)
EXPLICIT = [
    ('chain4-dec', [(0, 1), (1, 2), (2, 3), (3, 4)], {0: 6, 1: 5, 2: 4, 3: 3, 4: 2}),
    ('chain4-inc', [(0, 1), (1, 2), (2, 3), (3, 4)], {0: 2, 1: 3, 2: 4, 3: 5, 4: 6}),
    ('net4-a', [(3,), (1, 2, 0), (2, 3, 4), (4, 0)], {0: 3, 1: 4, 2: 3, 3: 5, 4: 5}),
    ('net4-b', [(1, 4), (2, 4, 3), (1, 0), (3, 0)], {0: 2, 1: 2, 2: 3, 3: 6, 4: 6}),
    ('chain5-tail', [(0, 1), (1, 2), (2, 3), (3, 4), (4, 5)], {0: 3, 1: 2, 2: 3, 3: 2, 4: 4, 5: 2}),
    ('chain5-wide', [(0, 1), (1, 2), (2, 3), (3, 4), (4, 5)], {0: 3, 1: 3, 2: 3, 3: 3, 4: 5, 5: 3}),
    ('chain5-uni', [(0, 1), (1, 2), (2, 3), (3, 4), (4, 5)], {0: 2, 1: 2, 2: 2, 3: 2, 4: 2, 5: 2}),
]

def ext_assignments(lists, rng, n):
    """extent maps with distinct extents on free indices and varying sizes on summed ones (so that different pairings are cheapest)."""
    occ = {}
    for l in lists:
        for x in l: occ[x] = occ.get(x, 0) + 1
    free = [x for x in occ if occ[x] == 1]; summed = [x for x in occ if occ[x] == 2]
    outs = []
    pools = [[2, 3, 4, 5], [3, 2, 5, 4], [4, 5, 2, 3], [5, 2, 3, 4]]
    for t in range(n):
        e = {}
        pool = pools[t % len(pools)]
        for i, x in enumerate(sorted(free)): e[x] = pool[i % len(pool)]
        for i, x in enumerate(sorted(summed)): e[x] = [2, 3, 1, 2][(i + t) % 4] if t % 2 == 0 else [3, 1, 2, 2][(i + t) % 4]
        if prod(e.values()) <= 400: outs.append(e)
    return outs

def cases(tier, seed):
    rng = random.Random(seed)
    thorough = tier == 'thorough'
    out = []
    for isa in isas(tier):
        for macros in ((),):   # -DFASTOR_DONT_PERFORM_OP_MIN does not compile at all on this tree (C06 acceptance finding)
            if macros and isa != 'avx2' and not thorough: continue
            cfg = Cfg(isa, macros=macros)
            for name, lists in TOPO3.items():
                for e in ext_assignments(lists, rng, 2 if not thorough else 4):
                    out += network_case(lists, e, cfg, fam=name, ty=rng.choice([INT, DBL, FLT]))
            if thorough or isa == 'sse2':
                for name, lists in TOPO4.items():
                    for e in ext_assignments(lists, rng, 1 if not thorough else 2):
                        e = {k: min(v, 3) for k, v in e.items()}
                        if len(set(e[x] for x in e)) >= 1: out += network_case(lists, e, cfg, fam=name, ty=rng.choice([INT, DBL, FLT]))
            if thorough or isa == 'avx2':
                for name, lists, e in EXPLICIT:
                    out += network_case(lists, e, cfg, fam=name, ty=rng.choice([INT, DBL, FLT]))
    seen = set(); res = []
    for c in out:
        if c.cid not in seen: seen.add(c.cid); res.append(c)
    return res
