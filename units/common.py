"""helpers shared by the per-property case generators."""
import itertools, random
from vf import *

QUICK_ISAS = ['sse2', 'avx2', 'avx512']
ALL_ISAS = ['scalar', 'sse2', 'sse4.2', 'avx', 'avx2', 'avx512']

def isas(tier):
    return ALL_ISAS if tier == 'thorough' else QUICK_ISAS

def vec_elems(isa, ty):
    """SIMD width in elements that Fastor's default ABI has for element type ty under isa."""
    b = ISA_VEC_BYTES[isa]
    return max(1, b * 8 // ty.bits) if b else 1

def flat(shape, idx):
    o = 0
    for s, i in zip(shape, idx): o = o * s + i
    return o

def indices(shape):
    return itertools.product(*[range(s) for s in shape])

def prod(xs):
    p = 1
    for x in xs: p *= x
    return p

def dims(shape):
    return ','.join(str(s) for s in shape)

def tmap(ty, shape, name, const=True):
    """C++ text: TensorMap over caller buffer `name` (upper-case variable)."""
    cast = 'const_cast<%s*>(%s)' % (ty.cpp, name) if const else name
    return 'TensorMap<%s,%s> %s(%s);' % (ty.cpp, dims(shape), name.upper(), cast)

def town(ty, shape, name):
    """C++ text: owning (aligned) tensor copied from caller buffer `name`."""
    return 'Tensor<%s,%s> %s(%s);' % (ty.cpp, dims(shape), name.upper(), name)

def copy_out(var, buf, n):
    return 'for (int i_ = 0; i_ < %d; ++i_) %s[i_] = %s.data()[i_];' % (n, buf, var)

def sample(rng, lst, k):
    lst = list(lst)
    if len(lst) <= k: return lst
    return rng.sample(lst, k)
