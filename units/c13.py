"""C13 -- QR factors (orthonormality and ||QR - A||: NOT decided here).

Claimed for the exact clauses of the property only:
  * R is upper triangular with exact zeros below the diagonal, for the MGS strategy with and without pivoting;
  * the QR-based determinant equals the product of R's diagonal (the same `product(diag(R))` value, bit for bit:
    decided by congruence -- both are computed by the library's own product in one entry);
  * the pivot vector is a bijection; frame / memory safety / no allocation.
Orthonormality of Q and the reconstruction bound need real arithmetic: NOT decided, never counted.
Mode UF on pipeline P0.
"""
from units.common import *

LEVEL_NOTE = ('structural clauses only (R upper triangular, det<QR> == product(diag(R)), pivot is a bijection, frame); orthogonality and the '
              'reconstruction bound of the property are not decided by this technique')

def qr_case(ty, n, piv, cfg, default_type=False):
    T = ty.cpp
    a = Buf('a', ty, n * n, 'in'); q = Buf('q', ty, n * n, 'out'); r = Buf('r', ty, n * n, 'out')
    bufs = [a, q, r]; ens = []
    if piv:
        p = Buf('p', U64, n, 'out'); bufs.append(p)
        # default_type: the computation type is left to the overload set -- a pivot argument must still give the pivoted factorisation
        body = ('    %s\n    Tensor<%s,%d,%d> Q, R; Tensor<size_t,%d> P;\n    %s(A, Q, R, P);\n    %s %s for (int i_ = 0; i_ < %d; ++i_) p[i_] = P.data()[i_];'
                % (town(ty, (n, n), 'a'), T, n, n, n, 'qr' if default_type else 'qr<QRCompType::MGSRPiv>', copy_out('Q', 'q', n * n), copy_out('R', 'r', n * n), n))
    else:
        body = ('    %s\n    Tensor<%s,%d,%d> Q, R;\n    qr(A, Q, R);\n    %s %s'
                % (town(ty, (n, n), 'a'), T, n, n, copy_out('Q', 'q', n * n), copy_out('R', 'r', n * n)))
    zero = E.const(0.0, ty)
    for i in range(n):
        for j in range(i):
            ens.append(('bool', 'R(%d,%d) == 0 (below the diagonal)' % (i, j), E.post(r, i * n + j).cmp('eq', zero)))
    if piv:
        for i in range(n):
            ens.append(('bool', 'P[%d] < n' % i, E.post(p, i).cmp('lt', E.const(n, U64))))
            for j in range(i + 1, n):
                ens.append(('bool', 'P[%d] != P[%d]' % (i, j), E.post(p, i).cmp('ne', E.post(p, j))))
    return Case('C13/qr%s/%s/%d/%s' % (('-piv-default' if default_type else '-piv') if piv else '', ty.name, n, cfg.tag()), 'C13', body, bufs, ens, 'UF', cfg)

def qrdet_case(ty, n, cfg):
    T = ty.cpp
    a = Buf('a', ty, n * n, 'in'); d = Buf('d', ty, 2, 'out')
    body = ('    %s\n    d[0] = determinant<DetCompType::QR>(A);\n    Tensor<%s,%d,%d> Q, R; qr(A, Q, R);\n    d[1] = product(diag(R));'
            % (town(ty, (n, n), 'a'), T, n, n))
    ens = [('bool', 'determinant<QR>(A) == product(diag(R))', E.post(d, 0).same(E.post(d, 1)))]
    return Case('C13/qrdet/%s/%d/%s' % (ty.name, n, cfg.tag()), 'C13', body, [a, d], ens, 'UF', cfg)

def qr_alias_case(ty, n, which, cfg):
    """the input tensor is also passed as the R (or Q) output, as LAPACK's geqrf allows: the factors must equal, bit for
    bit, those of the call with separate outputs (decided by congruence: both factorisations run in one entry)."""
    T = ty.cpp
    a = Buf('a', ty, n * n, 'in'); d = Buf('d', ty, 4 * n * n, 'out')
    call = 'qr(B, Q2, B);' if which == 'R' else 'qr(B, B, R2);'
    outs = ('Q2', 'B') if which == 'R' else ('B', 'R2')
    body = ('    %s\n    Tensor<%s,%d,%d> Q1, R1, Q2, R2, B(A);\n    qr(A, Q1, R1);\n    %s\n'
            '    for (int i_ = 0; i_ < %d; ++i_) { d[i_] = Q1.data()[i_]; d[%d + i_] = R1.data()[i_]; d[%d + i_] = %s.data()[i_]; d[%d + i_] = %s.data()[i_]; }'
            % (town(ty, (n, n), 'a'), T, n, n, call, n * n, n * n, 2 * n * n, outs[0], 3 * n * n, outs[1]))
    ens = []
    for k in range(n * n):
        ens.append(('bool', 'Q[%d] of the aliased call == Q[%d] of the plain call' % (k, k), E.post(d, 2 * n * n + k).same(E.post(d, k))))
        ens.append(('bool', 'R[%d] of the aliased call == R[%d] of the plain call' % (k, k), E.post(d, 3 * n * n + k).same(E.post(d, n * n + k))))
    return Case('C13/qr-alias%s/%s/%d/%s' % (which, ty.name, n, cfg.tag()), 'C13', body, [a, d], ens, 'UF', cfg)

def cases(tier, seed):
    thorough = tier == 'thorough'
    out = []
    for isa in isas(tier):
        cfg = Cfg(isa, pipe='P0')
        for ty in (DBL, FLT):
            for n in ((1, 2, 3, 4) if not thorough else (1, 2, 3, 4, 5)):      # n >= 6 exceeded 300 s per case in the thorough sweep (uninterpreted MGS)
                out.append(qr_case(ty, n, False, cfg))
                if n <= (3 if not thorough else 5): out.append(qr_case(ty, n, True, cfg))
                if n == 2: out.append(qrdet_case(ty, n, cfg))   # two QR factorisations in one UF query: larger sizes exceed the budget
                if n in (2, 3): out.append(qr_case(ty, n, True, cfg, default_type=True))
                if n == 2 or (n == 3 and ty is FLT):        # double n = 3: two factorisations in one query exceed 300 s
                    out.append(qr_alias_case(ty, n, 'R', cfg)); out.append(qr_alias_case(ty, n, 'Q', cfg))
    return out
