int main(void) { float A[11], B[11], C[11];
  w_expr_f32((ptr_t)A, (ptr_t)B, (ptr_t)C);
  for (int i=0;i<11;i++) { float want = UF_fsub_float(UF_fadd_float((float)(-A[i]), UF_fmul_float(B[i], A[i])), UF_sqrt_float(FABS_float(B[i])));
    __CPROVER_assert(*(u32*)&C[i] == *(u32*)&want, "elem bit-exact"); }
  return 0; }
