int main(void) { u32 A[13]; u32 r = w_minmax((ptr_t)A);
  s32 mn = (s32)A[0], mx = (s32)A[0]; for (int i=1;i<13;i++) { if ((s32)A[i] < mn) mn = (s32)A[i]; if ((s32)A[i] > mx) mx = (s32)A[i]; }
  __CPROVER_assert(r == (u32)mn - (u32)mx, "min-max"); return 0; }
