typedef unsigned int u32;
typedef struct { u32 e[4]; } v4;
int main(void) { u32 a[5], b[5]; v4 x, y, z; 
  x.e[1] = a[2]; y.e[1] = b[3]; z.e[1] = x.e[1]*y.e[1]; 
  __CPROVER_assert(z.e[1]==a[2]*b[3], "eq"); return 0; }
