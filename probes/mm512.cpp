#include <Fastor/Fastor.h>
using namespace Fastor;
extern "C" float w_minf(const float *a) { Tensor<float,19> A(a); return min(A)+max(A); }
extern "C" int w_mini(const int *a) { Tensor<int,19> A(a); return min(A)+max(A); }
extern "C" double w_mind(const double *a) { Tensor<double,19> A(a); return min(A)+max(A)+sum(A)+product(A); }
