typedef unsigned int u32_; typedef unsigned long long u64_;
/* atoms: input element p of operand A has the concrete value IDA0+p, element q of B has IDB0+q.
   PROD(a_p, b_q) is the symbolic bit W[p*NB+q] (a 0/1-valued product table, packed 64 per word). */
#ifndef NA
#error NA/NB must be defined
#endif
#define IDA0 0x100000u
#define IDB0 0x200000u
#define NWORDS ((NA*NB+63)/64)
extern u64_ VERIF_W[NWORDS];
int VERIF_nonatom_mul = 0;
u64_ nondet_prod(void);
static inline u64_ VERIF_prod(u64_ x, u64_ y) {
  if (x == 0 || y == 0) return 0;
  if (x < IDA0 && y < IDA0) return x * y;   /* both in the control range: index arithmetic, real product */
  if (x >= IDB0) { u64_ t = x; x = y; y = t; }
  if (x >= IDA0 && x < IDA0 + NA && y >= IDB0 && y < IDB0 + NB) {
    u64_ idx = (x - IDA0) * NB + (y - IDB0);
    return ((VERIF_W[idx / 64] >> (idx % 64)) & 1) << 24;  /* product range: multiples of 2^24 */
  }
  VERIF_nonatom_mul = 1; return nondet_prod();
}
#define MUL_u64(x, y) VERIF_prod((x), (y))
#define MUL_u32(x, y) ((u32_)VERIF_prod((u64_)(u32_)(x), (u64_)(u32_)(y)))
