#include <Fastor/Fastor.h>
using namespace Fastor;
extern "C" void w_matmul_i32_3_5_7(const int *a, const int *b, int *c) {
    Tensor<int,3,5> A(a); Tensor<int,5,7> B(b);
    Tensor<int,3,7> C = matmul(A,B);
    for (int i=0;i<21;++i) c[i] = C.data()[i];
}
