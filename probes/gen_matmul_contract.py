import sys
fn, M, K, N, ct = sys.argv[1], int(sys.argv[2]), int(sys.argv[3]), int(sys.argv[4]), sys.argv[5]
print("//@ function %s" % fn)
print("__CPROVER_requires(__CPROVER_is_fresh(r_0, %d*sizeof(%s)))" % (M*K, ct))
print("__CPROVER_requires(__CPROVER_is_fresh(r_1, %d*sizeof(%s)))" % (K*N, ct))
print("__CPROVER_requires(__CPROVER_is_fresh(r_2, %d*sizeof(%s)))" % (M*N, ct))
print("__CPROVER_assigns(__CPROVER_object_whole(r_2))")
for i in range(M):
    for j in range(N):
        e = "(%s)0" % ct
        for k in range(K):
            e = "(%s)(%s + MUL_%s(__CPROVER_old(((%s*)r_0)[%d]), __CPROVER_old(((%s*)r_1)[%d])))" % (ct, e, ct, ct, i*K+k, ct, k*N+j)
        print("__CPROVER_ensures(((%s*)r_2)[%d] == %s)" % (ct, i*N+j, e))
