#include <Fastor/Fastor.h>
using namespace Fastor;
enum {I,J,K,L,M,N};
extern "C" void w_einsum2(const int *a, const int *b, int *c) {
    TensorMap<int,2,3,4> A(const_cast<int*>(a)); TensorMap<int,4,3,5> B(const_cast<int*>(b));
    Tensor<int,2,5> C = einsum<Index<I,J,K>,Index<K,J,L>>(A,B);
    for (int i=0;i<10;++i) c[i] = C.data()[i];
}
extern "C" void w_einsum3(const float *a, const float *b, const float *cc, float *out) {
    TensorMap<float,2,3> A(const_cast<float*>(a)); TensorMap<float,3,4> B(const_cast<float*>(b)); TensorMap<float,4,5> C(const_cast<float*>(cc));
    Tensor<float,2,5> D = einsum<Index<I,J>,Index<J,K>,Index<K,L>>(A,B,C);
    for (int i=0;i<10;++i) out[i] = D.data()[i];
}
extern "C" void w_permute(const float *a, float *out) {
    TensorMap<float,2,3,4> A(const_cast<float*>(a));
    Tensor<float,4,2,3> D = permute<Index<K,I,J>>(A);
    for (int i=0;i<24;++i) out[i] = D.data()[i];
}
extern "C" void w_transpose(const float *a, float *out) {
    TensorMap<float,5,9> A(const_cast<float*>(a));
    Tensor<float,9,5> D = transpose(A);
    for (int i=0;i<45;++i) out[i] = D.data()[i];
}
extern "C" int w_minmax(const int *a) {
    TensorMap<int,13> A(const_cast<int*>(a));
    return min(A) - max(A);
}
extern "C" void w_tmatmul(const double *a, const double *b, double *c) {
    TensorMap<double,5,5> A(const_cast<double*>(a)); TensorMap<double,5,5> B(const_cast<double*>(b));
    Tensor<double,5,5> C = tmatmul<UpLoType::Lower,UpLoType::Upper>(A,B);
    for (int i=0;i<25;++i) c[i] = C.data()[i];
}
extern "C" void w_filter(const int *a, const bool *m, int *c) {
    Tensor<int,3,3> A(a); Tensor<bool,3,3> Mk(m); Tensor<int,3,3> C(c);
    C(Mk) += A;
    for (int i=0;i<9;++i) c[i] = C.data()[i];
}
extern "C" void w_randview(const int *a, const int *idx, int *c) {
    Tensor<int,10> A(a); Tensor<int,4> it(idx); Tensor<int,10> C(c);
    C(it) = A(it) ;
    for (int i=0;i<10;++i) c[i] = C.data()[i];
}
extern "C" void w_noalias(int *c) {
    Tensor<int,10> C(c);
    C(seq(2,10)).noalias() += C(seq(0,8));
    for (int i=0;i<10;++i) c[i] = C.data()[i];
}
extern "C" void w_lazy(const float *a, const float *b, float *c) {
    Tensor<float,3,3> A(a), B(b), C(c);
    C += A % B + trans(A);
    for (int i=0;i<9;++i) c[i] = C.data()[i];
}
extern "C" void w_inv(const float *a, float *c) {
    Tensor<float,3,3> A(a); Tensor<float,3,3> C = inverse(A);
    for (int i=0;i<9;++i) c[i] = C.data()[i];
}
extern "C" void w_lu(const double *a, double *l, double *u) {
    Tensor<double,5,5> A(a), Lm, Um; lu(A, Lm, Um);
    for (int i=0;i<25;++i) { l[i] = Lm.data()[i]; u[i] = Um.data()[i]; }
}
extern "C" void w_colmajor(const int *a, int *c) {
    Tensor<int,2,3,4> A(a); Tensor<int,2,3,4> C = tocolumnmajor(A);
    for (int i=0;i<24;++i) c[i] = C.data()[i];
}
extern "C" void w_reshape(int *a) {
    Tensor<int,2,6> A(a); auto R = reshape<3,4>(A); R(1,2) = 7; R += 1;
    for (int i=0;i<12;++i) a[i] = A.data()[i];
}
