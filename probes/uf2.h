typedef unsigned int u32_; typedef unsigned long long u64_;
u32_ __CPROVER_uninterpreted_mul32(u32_, u32_);
#define MUL_u32(x, y) __CPROVER_uninterpreted_mul32((x), (y))
#define MUL_u64(x, y) ((u64_)((x)*(y)))
