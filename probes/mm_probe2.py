import sys, subprocess, time, os
T, M, K, N, isa = sys.argv[1], int(sys.argv[2]), int(sys.argv[3]), int(sys.argv[4]), sys.argv[5]
tbits = int(sys.argv[6]) if len(sys.argv) > 6 else 64
flags = {'sse2': ['-msse2'], 'avx2': ['-mavx2', '-mfma'], 'avx512': ['-mavx512f','-mavx512vl','-mavx512dq','-mavx512bw','-mavx512cd','-mfma']}[isa]
ct = {'int': 'u32', 'float': 'u32', 'double': 'u64', 'int64_t': 'u64'}[T]
name = 'mm_%s_%d_%d_%d_%s' % (T, M, K, N, isa)
open(name + '.cpp', 'w').write('''#include <Fastor/Fastor.h>
using namespace Fastor;
extern "C" void w(const %s *a, const %s *b, %s *c) {
    TensorMap<%s,%d,%d> A(const_cast<%s*>(a)); TensorMap<%s,%d,%d> B(const_cast<%s*>(b)); TensorMap<%s,%d,%d> C(c);
    C = matmul(A,B);
}
''' % (T, T, T, T, M, K, T, T, K, N, T, T, M, N))
t0 = time.time()
subprocess.check_call(['clang++', '-std=c++14', '-O1', '-DNDEBUG', '-I/repo', '-S', '-emit-llvm', '-fno-vectorize', '-fno-slp-vectorize', '-fno-unroll-loops', '-ffp-contract=off'] + flags + [name + '.cpp', '-o', name + '.ll'])
t1 = time.time()
ring = ['--ring'] if T in ('float', 'double') else []
src = subprocess.check_output(['python3', 'ir2c.py', name + '.ll', 'w'] + ring).decode()
pre = '#define NA %d\n#define NB %d\n' % (M*K, K*N) + open('atoms4.h').read()
if ct == 'u64':
    pre = pre.replace('#define MUL_u32', '#define MUL_u32_unused')
h = ["int main(void) { %s A[%d], B[%d], C[%d];" % (ct, M*K, K*N, M*N),
     "  for (int p=0;p<%d;p++) A[p]=IDA0+p; for (int q=0;q<%d;q++) B[q]=IDB0+q;" % (M*K, K*N)]
h += ["  w((ptr_t)A, (ptr_t)B, (ptr_t)C);",
     '  __CPROVER_assert(!VERIF_nonatom_mul, "applicability: every data multiplication has atom operands");']
for i in range(M):
    for j in range(N):
        e = "(%s)0" % ct
        for k in range(K):
            e = "(%s)(%s + MUL_%s(A[%d], B[%d]))" % (ct, e, ct, i*K+k, k*N+j)
        h.append('  __CPROVER_assert(C[%d]==%s, "elem %d %d");' % (i*N+j, e, i, j))
h.append("  return 0; }")
open(name + '.c', 'w').write(pre + src + "\n".join(h) + "\n")
t2 = time.time()
r = subprocess.run(['timeout', '600', 'cbmc', name + '.c', '--bounds-check', '--pointer-check', '--max-field-sensitivity-array-size', '4096', '--unwind', '70', '--unwinding-assertions', '--object-bits', '12', '--verbosity', '9'], capture_output=True, text=True)
t3 = time.time()
import re
out = r.stdout
info = re.findall(r'(Runtime Symex: [\d.]+s|\d+ variables, \d+ clauses|Runtime Solver: [\d.]+s|\*\* \d+ of \d+ failed.*|VERIFICATION \w+)', out)
fails = re.findall(r'^\[.*FAILURE$', out, re.M)
print(name, 'clang=%.1fs ir2c=%.1fs cbmc=%.1fs' % (t1-t0, t2-t1, t3-t2), '|', ' | '.join(info), '| rc', r.returncode)
for f in fails[:8]: print('   ', f)
if r.returncode not in (0, 10): print(out[-600:], r.stderr[-600:])
