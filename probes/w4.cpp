#include <Fastor/Fastor.h>
using namespace Fastor;
extern "C" void w_lazy_eager(const float *a, const float *b, const float *c0, float *c1, float *c2) {
    Tensor<float,3,4> A(a); Tensor<float,4,3> B(b); Tensor<float,3,3> C1(c0), C2(c0);
    C1 -= A % B + trans(trans(B) % trans(A)) * C1;
    Tensor<float,3,3> t1 = matmul(A,B); Tensor<float,3,3> t2 = matmul(transpose(B),transpose(A)); Tensor<float,3,3> t3 = transpose(t2);
    C2 -= t1 + t3 * C2;
    for (int i=0;i<9;++i) { c1[i] = C1.data()[i]; c2[i] = C2.data()[i]; }
}
