typedef unsigned int u32;
int main(void) { u32 a, b, c, d; __CPROVER_assume(a==c && b==d);
  __CPROVER_assert(a*b==c*d, "eq"); return 0; }
