#include <Fastor/Fastor.h>
using namespace Fastor;
extern "C" void w_matmul_i32(const int *a, const int *b, int *c) {
    Tensor<int,3,5> A(a); Tensor<int,5,9> B(b);
    Tensor<int,3,9> C = matmul(A,B);
    for (int i=0;i<27;++i) c[i] = C.data()[i];
}
extern "C" void w_matmul_f32(const float *a, const float *b, float *c) {
    Tensor<float,3,5> A(a); Tensor<float,5,7> B(b);
    Tensor<float,3,7> C = matmul(A,B);
    for (int i=0;i<21;++i) c[i] = C.data()[i];
}
extern "C" void w_expr_f32(const float *a, const float *b, float *c) {
    Tensor<float,11> A(a); Tensor<float,11> B(b);
    Tensor<float,11> C = -A + B*A - sqrt(abs(B));
    for (int i=0;i<11;++i) c[i] = C.data()[i];
}
extern "C" int w_sum_i32(const int *a) {
    Tensor<int,11> A(a); 
    return sum(A) + max(A);
}
extern "C" void w_view(const int *a, int *c, int f, int l, int s) {
    Tensor<int,6,7> A(a); Tensor<int,6,7> C(c);
    C(seq(1,5,2),seq(f,l,s)) += A(seq(0,2),seq(f,l,s));
    for (int i=0;i<42;++i) c[i] = C.data()[i];
}
