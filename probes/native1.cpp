#include <Fastor/Fastor.h>
#include <cstdio>
using namespace Fastor;
int main() {
  Tensor<int,3,5> A; Tensor<int,5,9> B; 
  for (int i=0;i<15;i++) A.data()[i]=i+1; for (int i=0;i<45;i++) B.data()[i]=100+i;
  Tensor<int,3,9> C = matmul(A,B); int bad=0;
  for (int i=0;i<3;i++) for (int j=0;j<9;j++) { int s=0; for (int k=0;k<5;k++) s+=A(i,k)*B(k,j); if (s!=C(i,j)) { printf("mismatch (%d,%d): got %d want %d\n",i,j,C(i,j),s); bad++; } }
  printf("bad=%d\n",bad); return bad!=0; }
