typedef unsigned int u32;
typedef struct { u32 e[4]; } v4;
int main(void) { u32 a[5], b[5]; v4 x, y, z; u32 s = 0, t = 0;
  for (int k=0;k<5;k++) { x.e[1] = a[k]; y.e[1] = b[k]; z.e[1] = x.e[1]*y.e[1]; s += z.e[1]; }
  for (int k=0;k<5;k++) t += a[k]*b[k];
  __CPROVER_assert(s==t, "eq"); return 0; }
