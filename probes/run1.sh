#!/bin/bash
# usage: run1.sh base entry [cbmc args]
set -e
b=$1; e=$2; shift 2
goto-cc $b.c -o $b.gb 2>&1 | grep -v "^$" | tail -3
goto-instrument --dfcc main --enforce-contract $e $b.gb ${b}i.gb 2>&1 | grep -iE "error|warn|fail" | head
/usr/bin/time -f "cbmc wall=%es mem=%MKB" timeout 900 cbmc ${b}i.gb --bounds-check --pointer-check --unwind 70 --unwinding-assertions --object-bits 12 "$@" > $b.log 2>&1 || true
grep -E "wall=|failed|VERIFICATION|Runtime|variables|SAT checker" $b.log | tail -12
grep -E "FAILURE" $b.log | head -20
